//! C03, coverage-guided: any byte string is either accepted by the configuration parser or
//! rejected with a well-formed diagnostic; a panic, an abort or a malformed diagnostic is a
//! violation. The semantic oracle is the same function the property check uses
//! (`vcheck::props::c03::judge_text`), so a crash-free but wrong diagnostic is caught too.
#![no_main]
use libfuzzer_sys::fuzz_target;

fuzz_target!(|data: &[u8]| {
    // configurations are text: invalid UTF-8 never reaches the parser in kanata (the file is read
    // with read_to_string), so it is not part of the domain
    let Ok(text) = std::str::from_utf8(data) else { return };
    if text.len() > 4096 {
        return;
    }
    if let Err((sig, detail)) = vcheck::props::c03::judge_text(text) {
        eprintln!("VIOLATION-IN-TARGET property=C03 signature={sig}\n{detail}");
        std::process::abort();
    }
});
