//! C01, coverage-guided: the input bytes are a tape of 16-bit choices decoded by the generator
//! of the property check itself (every tape denotes a case: configuration from the action
//! grammar + input history); the oracle is the check's own judge function. A violation that is
//! not a listed known finding writes the replay file and aborts.
#![no_main]
use libfuzzer_sys::fuzz_target;

fuzz_target!(|data: &[u8]| {
    if data.len() > 1400 {
        return;
    }
    if let Err((sig, detail, replay)) = vcheck::props::fuzz_tape("C01", data) {
        use std::hash::{Hash, Hasher};
        let mut h = std::collections::hash_map::DefaultHasher::new();
        data.hash(&mut h);
        let dir = vcheck::engine::verif_dir().join("work").join("replays");
        let _ = std::fs::create_dir_all(&dir);
        let path = dir.join(format!("C01-libfuzzer-{:012x}.json", h.finish() & 0xffff_ffff_ffff));
        let _ = std::fs::write(&path, serde_json::to_string_pretty(&replay).unwrap_or_default());
        eprintln!("VIOLATION-IN-TARGET property=C01 signature={sig} replay={}\n{detail}", path.display());
        std::process::abort();
    }
});
