#!/bin/bash
# Coverage-guided tier of C03 (libFuzzer, in-target oracle = vcheck::props::c03::judge_text).
#   fuzz/run_c03.sh <seconds>          fuzz for that long on 16 processes, from a fresh corpus
#                                      extracted from /repo; merges its statistics into
#                                      evidence/C03.json; exit 0 / 1 (VIOLATION line) / 2
#   fuzz/run_c03.sh --replay <file>    run the target on one raw input
# Run after `./check C03 ...` in the same command: that builds the harness against the tree
# under test (and redirects its path dependencies for snapshot runs).
cd "$(dirname "$0")/.." || exit 2
V="$PWD"
export CARGO_NET_OFFLINE=true
export ASAN_OPTIONS=detect_leaks=0:abort_on_error=1
(cd harness && cargo build --release --offline 2>&1 | grep -E "^error" -A8) && { echo "harness build failed"; exit 2; }
cargo +nightly fuzz build --fuzz-dir fuzz 2>"$V/work/fuzz-build.log" || { mkdir -p work; tail -20 "$V/work/fuzz-build.log"; echo "fuzz build failed"; exit 2; }
T="$V/fuzz/target/x86_64-unknown-linux-gnu/release/c03_parse_total"
if [ "$1" = "--replay" ]; then
  "$T" "$2" >/dev/null 2>"$V/work/fuzz-replay.log" && { echo "replay C03 (libFuzzer input): case passes"; exit 0; }
  grep -A6 "VIOLATION-IN-TARGET\|panicked" "$V/work/fuzz-replay.log" | head -20
  echo "VIOLATION property=C03 replay=$2"; exit 1
fi
SECS="${1:-300}"
SEED=$(( ${VERIF_SEED:-0} + 1 ))
W="$V/work/fuzz"; rm -rf "$W"; mkdir -p "$W/corpus" "$W/artifacts" "$V/work/replays"
"$V/harness/target/release/vcheck" dump-corpus "$W/corpus" "$W/c03.dict" > "$W/corpus.txt" || exit 2
START=$(date +%s)
"$T" "$W/corpus" -dict="$W/c03.dict" -max_len=4096 -len_control=0 -rss_limit_mb=4000 -timeout=25 \
   -seed=$SEED -fork=16 -ignore_crashes=0 -ignore_ooms=1 -ignore_timeouts=0 -max_total_time="$SECS" \
   -artifact_prefix="$W/artifacts/" > "$W/fuzz.log" 2>&1
RC=$?
END=$(date +%s)
python3 - "$V" "$W" "$RC" "$((END-START))" "$SEED" <<'EOF'
import sys, json, re, glob, os, hashlib
V, W, rc, wall, seed = sys.argv[1], sys.argv[2], int(sys.argv[3]), int(sys.argv[4]), int(sys.argv[5])
log = open(f'{W}/fuzz.log', errors='replace').read()
execs = 0
for m in re.finditer(r'^#(\d+):', log, re.M):
    execs = max(execs, int(m.group(1)))
cov = [int(x) for x in re.findall(r'cov: (\d+)', log)]
seeds = len(glob.glob(f'{W}/corpus/entry*'))
arts = sorted(glob.glob(f'{W}/artifacts/crash-*') + glob.glob(f'{W}/artifacts/timeout-*'))
viol = []
for a in arts:
    data = open(a, 'rb').read()
    try:
        text = data.decode('utf-8')
    except UnicodeDecodeError:
        continue
    h = hashlib.sha1(data).hexdigest()[:12]
    out = f'{V}/work/replays/C03-libfuzzer-{h}.json'
    case = {"cfg": text, "files": [["inc.kbd", "(defalias inc a)\n"], ["chords.txt", "ab\tx\n"], ["zippy.txt", "ab\thi\n"]], "via_file": False, "unreadable": [], "origin": "libfuzzer " + os.path.basename(a)}
    json.dump({"property": "C03", "case": case}, open(out, 'w'), indent=1)
    viol.append(out)
ev_path = f'{V}/evidence/C03.json'
try:
    ev = json.load(open(ev_path))
    ev['coverage']['libfuzzer'] = {"executions": execs, "seed_corpus_files": seeds, "edge_coverage_start_end": [cov[0] if cov else 0, cov[-1] if cov else 0], "processes": 16, "wall_s": wall, "seed": seed,
        "violations": len(viol), "note": "coverage-guided byte-level fuzzing of the same in-target oracle, from a fresh corpus extracted from the tree under test; counted separately from 'evaluations'"}
    json.dump(ev, open(ev_path, 'w'), indent=1)
except Exception as e:
    print("could not merge libFuzzer statistics into evidence/C03.json:", e)
print(f"C03 libFuzzer: executions={execs} seed_files={seeds} coverage={cov[0] if cov else 0}->{cov[-1] if cov else 0} wall={wall}s violations={len(viol)}")
for v in viol:
    print(f"VIOLATION property=C03 replay={v}")
if viol:
    sys.exit(1)
if execs == 0:
    print(log[-1500:])
    sys.exit(2)
sys.exit(0)
EOF
