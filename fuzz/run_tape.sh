#!/bin/bash
# Coverage-guided tier of the tape-generated checks C01 and C02 (libFuzzer; the input is the tape
# of choices of the check's own generator, the in-target oracle its own judge function, known
# findings are tolerated in-target by signature exactly as in the property check).
#   fuzz/run_tape.sh <ID> <seconds>     fuzz for that long on 16 processes from an empty corpus;
#                                       merges its statistics into evidence/<ID>.json;
#                                       exit 0 / 1 (VIOLATION line, replayable with ./check <ID> --replay) / 2
# Run after `./check <ID> ...` in the same command (that builds the harness against the tree under test).
cd "$(dirname "$0")/.." || exit 2
V="$PWD"
ID="$1"; SECS="${2:-300}"
LC=$(echo "$ID" | tr A-Z a-z)
export CARGO_NET_OFFLINE=true VERIF_DIR="$V"
export ASAN_OPTIONS=detect_leaks=0:abort_on_error=1
mkdir -p "$V/work/replays"
(cd harness && cargo build --release --offline 2>&1 | grep -E "^error" -A8) && { echo "harness build failed"; exit 2; }
cargo +nightly fuzz build --fuzz-dir fuzz "tape_$LC" 2>"$V/work/fuzz-build.log" || { tail -20 "$V/work/fuzz-build.log"; echo "fuzz build failed"; exit 2; }
T="$V/fuzz/target/x86_64-unknown-linux-gnu/release/tape_$LC"
SEED=$(( ${VERIF_SEED:-0} + 1 ))
W="$V/work/fuzz-$LC"; rm -rf "$W"; mkdir -p "$W/corpus" "$W/artifacts"
# a few random tapes of full length so that the campaign does not start from length 0
python3 - "$W/corpus" "$SEED" <<'EOF'
import sys, random
r = random.Random(int(sys.argv[2]))
for i in range(64):
    n = r.choice([40, 200, 600, 1200])
    open(f"{sys.argv[1]}/seed{i}", "wb").write(bytes(r.getrandbits(8) for _ in range(n)))
EOF
START=$(date +%s)
"$T" "$W/corpus" -max_len=1400 -len_control=0 -rss_limit_mb=4000 -timeout=120 \
   -seed=$SEED -fork=16 -ignore_crashes=0 -ignore_ooms=1 -ignore_timeouts=1 -max_total_time="$SECS" \
   -artifact_prefix="$W/artifacts/" > "$W/fuzz.log" 2>&1
END=$(date +%s)
python3 - "$V" "$W" "$ID" "$((END-START))" "$SEED" <<'EOF'
import sys, json, re, glob
V, W, pid, wall, seed = sys.argv[1], sys.argv[2], sys.argv[3], int(sys.argv[4]), int(sys.argv[5])
log = open(f'{W}/fuzz.log', errors='replace').read()
execs = 0
for m in re.finditer(r'^#(\d+):', log, re.M):
    execs = max(execs, int(m.group(1)))
cov = [int(x) for x in re.findall(r'cov: (\d+)', log)]
viol = sorted(set(re.findall(r'VIOLATION-IN-TARGET property=\S+ signature=.*? replay=(\S+)', log)))
sigs = sorted(set(re.findall(r'VIOLATION-IN-TARGET property=\S+ signature=(.*?) replay=', log)))
crashes = glob.glob(f'{W}/artifacts/crash-*')
ev_path = f'{V}/evidence/{pid}.json'
try:
    ev = json.load(open(ev_path))
    ev['coverage']['libfuzzer'] = {"executions": execs, "corpus_files_end": len(glob.glob(f'{W}/corpus/*')), "edge_coverage_start_end": [cov[0] if cov else 0, cov[-1] if cov else 0], "processes": 16, "wall_s": wall, "seed": seed,
        "violations": len(viol), "note": "coverage-guided fuzzing of the tape of generator choices with the check's own judge as in-target oracle; counted separately from 'evaluations'"}
    json.dump(ev, open(ev_path, 'w'), indent=1)
except Exception as e:
    print(f"could not merge libFuzzer statistics into evidence/{pid}.json:", e)
print(f"{pid} libFuzzer (tape): executions={execs} coverage={cov[0] if cov else 0}->{cov[-1] if cov else 0} wall={wall}s violations={len(viol)}")
for s in sigs:
    print("  signature:", s)
for v in viol:
    print(f"VIOLATION property={pid} replay={v}")
if viol:
    sys.exit(1)
if crashes:
    # a crash that is not a judged violation: sanitizer report or abort inside the code under test
    import subprocess, os
    print(log[-3000:])
    out = f"{V}/work/replays/{pid}-libfuzzer-{os.path.basename(crashes[0])[-12:]}.json"
    subprocess.run([f"{V}/harness/target/release/vcheck", "tape-case", pid, crashes[0], out])
    print(f"VIOLATION property={pid} replay={out}")
    sys.exit(1)
if execs == 0:
    print(log[-1500:])
    sys.exit(2)
sys.exit(0)
EOF
