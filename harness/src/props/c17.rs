//! C17 — Tap-dance performs exactly the action for the number of taps (core + tap-dance add-on).
use super::c05::th_act;
use super::mcase::*;
use crate::engine::*;
use crate::gen::hist::*;
use crate::gen::kc;
use crate::model::*;
use proptest::prelude::*;
use std::collections::BTreeMap;

pub struct C17;

fn k(n: &str) -> Act {
    Act::Key(kc(n))
}

/// kind 0: keys only; 1: layer-while-held as 2nd/4th action; 2: a tap-hold inside; 3: layer-while-held first.
fn td_acts(len: usize, kind: usize) -> Vec<Act> {
    let all = match kind {
        0 => vec![k("x"), k("y"), k("z"), Act::Chord(vec![kc("lsft"), kc("1")])],
        1 => vec![k("x"), Act::LayerHeld(1), k("z"), Act::LayerHeld(1)],
        // the list begins with a layer action
        3 => vec![Act::LayerHeld(1), k("y"), Act::LayerHeld(1), k("z")],
        _ => vec![k("x"), th_act(ThVariant::Plain, false, 4, 0, "y", "lctl"), k("z"), th_act(ThVariant::Press, true, 4, 0, "t", "lctl")],
    };
    all[..len].to_vec()
}

fn td_cfg(eager: bool, t: u16, len: usize, kind: usize, p: u16) -> MCfg {
    MCfg {
        src: vec![kc("a"), kc("b")],
        layers: vec![
            vec![Act::TapDance(Box::new(TapDance { eager, timeout: t, acts: td_acts(len, kind) })), k("w")],
            vec![Act::Trans, k("2")],
        ],
        layer_stack: true,
        delegate: false,
        block_unmapped: false,
        process_unmapped: false,
        concurrent_tap_hold: false,
        rapid_event_delay: Some(p),
        layermap: 0,
        chords_v2: vec![],
    }
}

fn exh_cfgs(tier: Tier) -> Vec<(MCfg, u32)> {
    let mut v = vec![];
    let n = if tier == Tier::Quick { 5 } else { 6 };
    for eager in [false, true] {
        for t in [5u16, 30] {
            for len in 1..=4usize {
                for (kind, p) in [(0usize, 0u16), (1, 5), (2, 0), (0, 5), (3, 0)] {
                    if tier == Tier::Quick && ((kind == 2 && t == 30) || (kind == 0 && p == 5) || (t == 30 && len == 3)) {
                        continue;
                    }
                    v.push((td_cfg(eager, t, len, kind, p), n));
                }
            }
        }
    }
    if tier == Tier::Thorough {
        for eager in [false, true] {
            v.push((td_cfg(eager, 5, 3, 0, 0), 7));
            v.push((td_cfg(eager, 5, 4, 1, 5), 7));
        }
    }
    v
}

fn td_of(c: &MCfg) -> &TapDance {
    match &c.layers[0][0] {
        Act::TapDance(t) => t,
        _ => panic!("harness: not a tap-dance config"),
    }
}

struct Table {
    cfgs: Vec<(MCfg, u32)>,
    ends: Vec<u64>,
}
fn table(tier: Tier) -> std::rc::Rc<Table> {
    thread_local! {
        static T: std::cell::RefCell<Vec<(Tier, std::rc::Rc<Table>)>> = const { std::cell::RefCell::new(vec![]) };
    }
    T.with(|t| {
        let mut t = t.borrow_mut();
        if let Some((_, x)) = t.iter().find(|(ti, _)| *ti == tier) {
            return x.clone();
        }
        let cfgs = exh_cfgs(tier);
        let mut ends = vec![];
        let mut acc = 0;
        for (c, n) in &cfgs {
            acc += n_schedules(c.src.len() as u64, 5, *n);
            ends.push(acc);
        }
        let x = std::rc::Rc::new(Table { cfgs, ends });
        t.push((tier, x.clone()));
        x
    })
}

impl TypedProp for C17 {
    type C = MCase;
    fn id(&self) -> &'static str {
        "C17"
    }
    fn info(&self) -> PropInfo {
        PropInfo {
            level: "exploration",
            rule: "exhaustive part: for each tap-dance config (lazy/eager x T {5,30} x list length 1-4 x action kinds keys / layer-while-held (later in the list, or first) / tap-hold inside x rapid-event-delay {0,5}) every toggle schedule of 1..N events over the tap-dance key and one other key with gaps {0,1,T-1,T,T+1}; random part: longer histories (up to 40 events) on random configs of the same family, the other key being plain (2 in 3), a tap-dance of its own (lazy or eager), or a tap-hold with concurrent-tap-hold on or off. Oracle: reference model with the documented eviction rule (only the counted taps are folded into the chosen action; every other press is accounted for), full timestamped equality. Non-trivial: >= 2 presses of the tap-dance key, or a gap within +-1 of T. Distinct: hash of (config, history).",
            assumptions: vec!["fewer than 32 events pending".into(), "pinned conventions of DESIGN.md Appendix A.4".into()],
            extra: BTreeMap::new(),
        }
    }
    fn plan(&self, tier: Tier) -> Plan {
        let t = table(tier);
        let random = match tier {
            Tier::Quick => 150_000,
            Tier::Thorough => 2_000_000,
        };
        Plan {
            n_cases: t.ends.last().copied().unwrap_or(0) + random,
            exhaustive: false,
            distinct_by_construction: false,
            required_classes: vec!["exhaustive", "random", "lazy", "eager", "taps>=2", "taps>=len", "interrupted", "boundary-gap", "other-key-is-a-tap-dance", "other-key-is-a-tap-hold", "other-key-is-a-tap-hold:concurrent-tap-hold"],
            hang_secs: 60,
        }
    }
    fn gen(&self, tier: Tier, _seed: u64, idx: u64) -> Gen<MCase> {
        let t = table(tier);
        match t.ends.iter().position(|e| idx < *e) {
            Some(ci) => {
                let start = if ci == 0 { 0 } else { t.ends[ci - 1] };
                let (cfg, n) = &t.cfgs[ci];
                let tt = td_of(cfg).timeout as u32;
                let gaps = [0, 1, tt - 1, tt, tt + 1];
                Gen::Fixed(MCase {
                    hist: schedule(idx - start, &cfg.src, &gaps, *n, 1),
                    cfg: cfg.clone(),
                })
            }
            None => Gen::Strat(0),
        }
    }
    fn strategy(&self, _tier: Tier, _key: u32) -> BoxedStrategy<MCase> {
        (any::<bool>(), prop::sample::select(vec![5u16, 8, 30]), 1usize..=4, 0usize..4, prop::sample::select(vec![0u16, 3, 5]), (0u8..6, any::<bool>(), any::<bool>()))
            .prop_flat_map(|(eager, t, len, kind, p, (other, other_eager, conc))| {
                let mut cfg = td_cfg(eager, t, len, kind, p);
                // the other key: mostly plain; a second tap-dance of its own; a tap-hold (the
                // dance key's presses then wait in the queue behind its decision)
                match other {
                    4 => {
                        cfg.layers[0][1] = Act::TapDance(Box::new(TapDance { eager: other_eager, timeout: t, acts: vec![k("q"), k("r"), k("s")] }));
                        cfg.layers[1][1] = Act::Trans;
                    }
                    5 => {
                        cfg.layers[0][1] = th_act(ThVariant::Plain, false, t + 3, 0, "q", "lalt");
                        cfg.layers[1][1] = Act::Trans;
                        cfg.concurrent_tap_hold = conc;
                    }
                    _ => {}
                }
                let gaps = vec![0, 1, 1, 1, 2, 3, t as u32 - 1, t as u32, t as u32 + 1];
                // weight the dance key 3:1
                let keys = vec![kc("a"), kc("a"), kc("a"), kc("b")];
                let h = prop::collection::vec((any::<u16>(), any::<u16>()), 1..40).prop_map(move |steps| {
                    let mut down = [false; 2];
                    let mut out = vec![];
                    for (ks, gs) in steps {
                        let key = keys[pick(ks, keys.len())];
                        let ki = if key == kc("a") { 0 } else { 1 };
                        let g = gaps[pick(gs, gaps.len())];
                        if g > 0 {
                            out.push(Ev::Gap(g));
                        }
                        out.push(if down[ki] { Ev::Release(key) } else { Ev::Press(key) });
                        down[ki] = !down[ki];
                    }
                    for (i, d) in down.iter().enumerate() {
                        if *d {
                            out.push(Ev::Gap(1));
                            out.push(Ev::Release(if i == 0 { kc("a") } else { kc("b") }));
                        }
                    }
                    out
                });
                (Just(cfg), h)
            })
            .prop_map(|(cfg, hist)| MCase { cfg, hist })
            .boxed()
    }
    fn judge(&self, case: &MCase) -> Verdict {
        let td = td_of(&case.cfg).clone();
        let t = td.timeout as u64;
        let settle = 3 * t + 90 + 8 * case.hist.len() as u64;
        let run = match run_pair(case, settle, |_| {}) {
            Ok(r) => r,
            Err(v) => return v,
        };
        if run.max_pending >= 32 {
            return Verdict::discard("pending>=32");
        }
        if let Some(why) = run.out_of_domain {
            return Verdict::discard(why);
        }
        let a = kc("a");
        let taps = case.hist.iter().filter(|e| **e == Ev::Press(a)).count();
        let boundary = case.hist.iter().any(|e| matches!(e, Ev::Gap(g) if (*g as u64 + 1 >= t && *g as u64 <= t + 1)));
        let mut v = Verdict::pass(taps >= 2 || boundary);
        if let Some(d) = diff_outputs(&run.real, &run.model_out) {
            let mut sig = "mismatch:tap-dance-output";
            if !td.eager {
                if let Ok(r2) = run_pair(case, settle, |m| m.td_evict_all_presses = true) {
                    if diff_outputs(&r2.real, &r2.model_out).is_none() {
                        sig = "mismatch:tap-dance:uncounted-press-swallowed";
                    }
                }
            }
            v = Verdict::failed(sig, d);
        } else if !run.model_quiescent {
            return Verdict::failed("harness:model-not-quiescent", "settle bound too short");
        } else if !run.real_idle_at_end {
            v = Verdict::failed("mismatch:not-idle-at-end", "all keys released, model quiescent, but kanata is not idle");
        }
        v.classes.push(if case.hist.len() <= 2 * 7 + 4 { "exhaustive" } else { "random" });
        v.classes.push(if td.eager { "eager" } else { "lazy" });
        match &case.cfg.layers[0][1] {
            Act::TapDance(_) => v.classes.push("other-key-is-a-tap-dance"),
            Act::TapHold(_) => v.classes.push(if case.cfg.concurrent_tap_hold { "other-key-is-a-tap-hold:concurrent-tap-hold" } else { "other-key-is-a-tap-hold" }),
            _ => {}
        }
        if taps >= 2 {
            v.classes.push("taps>=2");
        }
        if taps >= td.acts.len() {
            v.classes.push("taps>=len");
        }
        if taps >= 1 && case.hist.iter().any(|e| *e == Ev::Press(kc("b"))) {
            v.classes.push("interrupted");
        }
        if boundary {
            v.classes.push("boundary-gap");
        }
        v
    }
}
