//! C06 — One-shot applies to exactly the next key, or expires (core + one-shot add-on).
use super::mcase::*;
use crate::engine::*;
use crate::gen::hist::*;
use crate::gen::kc;
use crate::model::*;
use proptest::prelude::*;
use std::collections::BTreeMap;

pub struct C06;

const VARIANTS: [OsVariant; 4] = [OsVariant::Press, OsVariant::Release, OsVariant::PressPcancel, OsVariant::ReleasePcancel];

fn k(n: &str) -> Act {
    Act::Key(kc(n))
}
fn os(variant: OsVariant, t: u16, inner: Act) -> Act {
    Act::OneShot(Box::new(OneShot { variant, timeout: t, inner }))
}
fn inner(kind: usize) -> Act {
    match kind {
        0 => k("lsft"),
        1 => Act::LayerHeld(1),
        2 => Act::Chord(vec![kc("lctl"), kc("lalt")]),
        _ => k("ralt"),
    }
}

/// Family B: two one-shot keys a, b and two plain keys c, d that differ on layer 1.
fn cfg_b(variant: OsVariant, t: u16, p: u16, i1: usize, i2: usize) -> MCfg {
    MCfg {
        src: vec![kc("a"), kc("b"), kc("c"), kc("d")],
        layers: vec![
            vec![os(variant, t, inner(i1)), os(variant, t, inner(i2)), k("x"), k("y")],
            vec![Act::Trans, Act::Trans, k("1"), Act::Chord(vec![kc("lsft"), kc("2")])],
        ],
        layer_stack: true,
        delegate: false,
        block_unmapped: false,
        process_unmapped: false,
        concurrent_tap_hold: false,
        rapid_event_delay: Some(p),
        layermap: 0,
        chords_v2: vec![],
    }
}
/// Family B with different timeouts on the two one-shot keys (stacking must restart the
/// timeout with the value of the most recently pressed one).
fn cfg_b_mixed(variant: OsVariant, t1: u16, t2: u16, p: u16) -> MCfg {
    let mut c = cfg_b(variant, t1, p, 0, 3);
    c.layers[0][1] = os(variant, t2, inner(3));
    c
}
/// Family A: one one-shot key and two plain keys.
fn cfg_a(variant: OsVariant, t: u16, p: u16, i1: usize) -> MCfg {
    MCfg {
        src: vec![kc("a"), kc("c"), kc("d")],
        layers: vec![vec![os(variant, t, inner(i1)), k("x"), k("y")], vec![Act::XX, k("1"), Act::Trans]],
        layer_stack: true,
        delegate: false,
        block_unmapped: false,
        process_unmapped: false,
        concurrent_tap_hold: false,
        rapid_event_delay: Some(p),
        layermap: 0,
        chords_v2: vec![],
    }
}

/// (config, N)
fn exh_cfgs(tier: Tier) -> Vec<(MCfg, u32)> {
    let mut v = vec![];
    match tier {
        Tier::Quick => {
            for variant in VARIANTS {
                for (t, p) in [(5u16, 0u16), (30, 5)] {
                    v.push((cfg_b(variant, t, p, 0, 1), 4));
                    v.push((cfg_a(variant, t, p, 2), 4));
                    v.push((cfg_a(variant, t, p, 1), 4));
                }
                v.push((cfg_b_mixed(variant, 30, 5, 0), 4));
            }
        }
        Tier::Thorough => {
            for variant in VARIANTS {
                for t in [5u16, 30] {
                    for p in [0u16, 5] {
                        v.push((cfg_b(variant, t, p, 0, 1), 4));
                        v.push((cfg_b(variant, t, p, 2, 0), 4));
                        for i in 0..3 {
                            v.push((cfg_a(variant, t, p, i), 5));
                        }
                    }
                }
                v.push((cfg_b_mixed(variant, 30, 5, 0), 4));
                v.push((cfg_b_mixed(variant, 5, 30, 5), 4));
            }
        }
    }
    v
}

fn t_of(c: &MCfg) -> u16 {
    c.layers
        .iter()
        .flatten()
        .find_map(|a| if let Act::OneShot(o) = a { Some(o.timeout) } else { None })
        .unwrap_or(0)
}

fn ts_of(c: &MCfg) -> Vec<u16> {
    let mut v: Vec<u16> = c.layers.iter().flatten().filter_map(|a| if let Act::OneShot(o) = a { Some(o.timeout) } else { None }).collect();
    v.sort();
    v.dedup();
    v
}

struct Table {
    cfgs: Vec<(MCfg, u32)>,
    /// cumulative end index of each config's schedules
    ends: Vec<u64>,
}
fn table(tier: Tier) -> std::rc::Rc<Table> {
    thread_local! {
        static T: std::cell::RefCell<Vec<(Tier, std::rc::Rc<Table>)>> = const { std::cell::RefCell::new(vec![]) };
    }
    T.with(|t| {
        let mut t = t.borrow_mut();
        if let Some((_, x)) = t.iter().find(|(ti, _)| *ti == tier) {
            return x.clone();
        }
        let cfgs = exh_cfgs(tier);
        let mut ends = vec![];
        let mut acc = 0;
        for (c, n) in &cfgs {
            acc += n_schedules(c.src.len() as u64, 5, *n);
            ends.push(acc);
        }
        let x = std::rc::Rc::new(Table { cfgs, ends });
        t.push((tier, x.clone()));
        x
    })
}

impl TypedProp for C06 {
    type C = MCase;
    fn id(&self) -> &'static str {
        "C06"
    }
    fn info(&self) -> PropInfo {
        PropInfo {
            level: "exploration",
            rule: "exhaustive part: for each one-shot config (4 end variants x timeouts {5,30} x rapid-event-delay {0,5} x one-shot of key / output chord / layer-while-held; one or two one-shot keys plus two plain keys that differ on the one-shot layer) every toggle schedule of 1..N events with gaps {0,1,T-1,T,T+1}; random part: three one-shot keys, histories up to 60 events including runs of 17-20 stacked one-shot presses. Oracle: reference model, full timestamped output equality. Non-trivial: a non-one-shot key was processed while a one-shot was active, or a gap of T-1/T/T+1 occurs. Distinct: hash of (config, history).",
            assumptions: vec![
                "fewer than 32 events pending".into(),
                "one end-variant per configuration (mixing variants is not specified by the statement)".into(),
                "pinned conventions of DESIGN.md Appendix A.3".into(),
            ],
            extra: BTreeMap::new(),
        }
    }
    fn plan(&self, tier: Tier) -> Plan {
        let t = table(tier);
        let random = match tier {
            Tier::Quick => 150_000,
            Tier::Thorough => 2_000_000,
        };
        Plan {
            n_cases: t.ends.last().copied().unwrap_or(0) + random,
            exhaustive: false,
            distinct_by_construction: false,
            required_classes: vec!["exhaustive", "random", "mixed-timeouts", "other-key-while-active", "boundary-gap", "stacked>16", "variant:Press", "variant:Release", "variant:PressPcancel", "variant:ReleasePcancel"],
            hang_secs: 60,
        }
    }
    fn gen(&self, tier: Tier, _seed: u64, idx: u64) -> Gen<MCase> {
        let t = table(tier);
        match t.ends.iter().position(|e| idx < *e) {
            Some(ci) => {
                let start = if ci == 0 { 0 } else { t.ends[ci - 1] };
                let (cfg, n) = &t.cfgs[ci];
                let tt = t_of(cfg) as u32;
                let ts = ts_of(cfg);
                let gaps = if ts.len() > 1 {
                    // two different timeouts: below / between / at the boundaries of both
                    let (lo, hi) = (*ts.iter().min().unwrap() as u32, *ts.iter().max().unwrap() as u32);
                    [0, 1, lo + 1, (lo + hi) / 2, hi]
                } else {
                    [0, 1, tt - 1, tt, tt + 1]
                };
                Gen::Fixed(MCase {
                    hist: schedule(idx - start, &cfg.src, &gaps, *n, 1),
                    cfg: cfg.clone(),
                })
            }
            None => Gen::Strat(0),
        }
    }
    fn strategy(&self, _tier: Tier, _key: u32) -> BoxedStrategy<MCase> {
        (0usize..4, prop::sample::select(vec![5u16, 30]), prop::sample::select(vec![0u16, 5, 2]), 0usize..4, 0usize..4, 0usize..4, any::<bool>())
            .prop_flat_map(|(v, t, p, i1, i2, i3, burst)| {
                // the three one-shot keys get different timeouts in half of the cases
                let t2 = if i1 % 2 == 0 { t } else { 35 - t };
                let t3 = if i2 % 2 == 0 { t } else { 12 };
                // kanata supports at most 12 simultaneously active held layers
                // (MAX_ACTIVE_LAYERS); the stacked-burst cases therefore stack keys, not layers.
                let (i1, i2, i3) = if burst { ([0, 0, 2, 3][i1], [0, 3, 2, 3][i2], [0, 2, 2, 3][i3]) } else { (i1, i2, i3) };
                let mut cfg = cfg_b(VARIANTS[v], t, p, i1, i2);
                cfg.layers[0][1] = os(VARIANTS[v], t2, inner(i2));
                cfg.src.push(kc("e"));
                cfg.layers[0].push(os(VARIANTS[v], t3, inner(i3)));
                cfg.layers[1].push(Act::Trans);
                let gaps = vec![0, 1, 1, 1, 2, t as u32 - 1, t as u32, t as u32 + 1, t2 as u32, t3 as u32 + 1, 8, 20];
                let body = consistent_history(cfg.src.clone(), gaps, 0..40);
                // optional burst of 17..=20 one-shot taps, one per ms, before the body
                let b = if burst { 17usize..=20 } else { 0usize..=0 };
                (Just(cfg), b, body)
            })
            .prop_map(|(cfg, nburst, body)| {
                let mut hist = vec![];
                let osk = [kc("a"), kc("b"), kc("e")];
                for i in 0..nburst {
                    let key = osk[i % 3];
                    hist.push(Ev::Press(key));
                    hist.push(Ev::Gap(1));
                    hist.push(Ev::Release(key));
                    hist.push(Ev::Gap(1));
                }
                hist.extend(body);
                MCase { cfg, hist }
            })
            .boxed()
    }
    fn judge(&self, case: &MCase) -> Verdict {
        let t = ts_of(&case.cfg).iter().copied().max().unwrap_or(0) as u64;
        let settle = 2 * t + 90 + 8 * case.hist.len() as u64;
        let run = match run_pair(case, settle, |_| {}) {
            Ok(r) => r,
            Err(v) => return v,
        };
        if run.max_pending >= 32 {
            return Verdict::discard("pending>=32");
        }
        if let Some(why) = run.out_of_domain {
            return Verdict::discard(why);
        }
        if run.max_held_layers >= 11 {
            return Verdict::discard("active-layer-capacity");
        }
        let boundary = case.hist.iter().any(|e| matches!(e, Ev::Gap(g) if (*g as u64 + 1 >= t && *g as u64 <= t + 1)));
        let nontrivial = run.os_other_key || boundary;
        let mut v = Verdict::pass(nontrivial);
        if let Some(d) = diff_outputs(&run.real, &run.model_out) {
            v = Verdict::failed("mismatch:one-shot-output", d);
        } else if !run.model_quiescent {
            return Verdict::failed("harness:model-not-quiescent", "settle bound too short");
        } else if !run.real_idle_at_end {
            v = Verdict::failed("mismatch:not-idle-at-end", "all keys released, model quiescent, but kanata is not idle");
        }
        let n_os_keys = case.cfg.layers[0].iter().filter(|a| matches!(a, Act::OneShot(_))).count();
        v.classes.push(if n_os_keys <= 2 { "exhaustive" } else { "random" });
        if run.os_other_key {
            v.classes.push("other-key-while-active");
        }
        if ts_of(&case.cfg).len() > 1 {
            v.classes.push("mixed-timeouts");
        }
        if boundary {
            v.classes.push("boundary-gap");
        }
        let os_presses = case.hist.iter().take(80).filter(|e| matches!(e, Ev::Press(_))).count();
        if n_os_keys == 3 && os_presses >= 17 && case.hist.len() >= 68 {
            v.classes.push("stacked>16");
        }
        if let Some(Act::OneShot(o)) = case.cfg.layers[0].first() {
            v.classes.push(match o.variant {
                OsVariant::Press => "variant:Press",
                OsVariant::Release => "variant:Release",
                OsVariant::PressPcancel => "variant:PressPcancel",
                OsVariant::ReleasePcancel => "variant:ReleasePcancel",
            });
        }
        v
    }
}
