//! Shared case type and runner for the model-based checks (C04 C05 C06 C17):
//! a modelled configuration + a history, run against the real code and the
//! reference model with full timestamped comparison.
use crate::engine::*;
use crate::gen::hist::*;
use crate::gen::{kc, kname, print_cfg};
use crate::model::*;
use crate::sim::*;
use serde_json::{json, Value};

#[derive(Clone, Debug, PartialEq, Eq, Hash)]
pub struct MCase {
    pub cfg: MCfg,
    pub hist: Vec<Ev>,
}

fn act_to_json(a: &Act) -> Value {
    match a {
        Act::Key(k) => json!({"key": kname(*k)}),
        Act::Chord(ks) => json!({"chord": ks.iter().map(|k| kname(*k)).collect::<Vec<_>>()}),
        Act::Multi(v) => json!({"multi": v.iter().map(act_to_json).collect::<Vec<_>>()}),
        Act::XX => json!("XX"),
        Act::Trans => json!("_"),
        Act::UseDefsrc => json!("use-defsrc"),
        Act::LayerHeld(l) => json!({"layer-while-held": l}),
        Act::LayerSwitch(l) => json!({"layer-switch": l}),
        Act::ReleaseKey(k) => json!({"release-key": kname(*k)}),
        Act::ReleaseLayer(l) => json!({"release-layer": l}),
        Act::TapHold(t) => json!({"tap-hold": {
            "variant": format!("{:?}", t.variant), "tap_timeout": t.tap_timeout, "hold_timeout": t.hold_timeout,
            "tap": act_to_json(&t.tap), "hold": act_to_json(&t.hold),
            "timeout_act": t.timeout_act.as_ref().map(act_to_json),
            "keys": t.keys.iter().map(|k| kname(*k)).collect::<Vec<_>>()}}),
        Act::OneShot(o) => json!({"one-shot": {"variant": format!("{:?}", o.variant), "timeout": o.timeout,
            "inner": act_to_json(&o.inner)}}),
        Act::TapDance(t) => json!({"tap-dance": {"eager": t.eager, "timeout": t.timeout,
            "acts": t.acts.iter().map(act_to_json).collect::<Vec<_>>()}}),
    }
}

fn act_from_json(v: &Value) -> Option<Act> {
    if let Some(s) = v.as_str() {
        return Some(match s {
            "XX" => Act::XX,
            "_" => Act::Trans,
            "use-defsrc" => Act::UseDefsrc,
            _ => return None,
        });
    }
    let o = v.as_object()?;
    let (k, val) = o.iter().next()?;
    Some(match k.as_str() {
        "key" => Act::Key(kc(val.as_str()?)),
        "chord" => Act::Chord(val.as_array()?.iter().map(|x| x.as_str().map(kc)).collect::<Option<Vec<_>>>()?),
        "multi" => Act::Multi(val.as_array()?.iter().map(act_from_json).collect::<Option<Vec<_>>>()?),
        "layer-while-held" => Act::LayerHeld(val.as_u64()? as usize),
        "layer-switch" => Act::LayerSwitch(val.as_u64()? as usize),
        "release-key" => Act::ReleaseKey(kc(val.as_str()?)),
        "release-layer" => Act::ReleaseLayer(val.as_u64()? as usize),
        "tap-hold" => {
            let variant = match val["variant"].as_str()? {
                "Plain" => ThVariant::Plain,
                "Press" => ThVariant::Press,
                "Release" => ThVariant::Release,
                "PressTimeout" => ThVariant::PressTimeout,
                "ReleaseTimeout" => ThVariant::ReleaseTimeout,
                "ReleaseKeys" => ThVariant::ReleaseKeys,
                "ExceptKeys" => ThVariant::ExceptKeys,
                _ => return None,
            };
            Act::TapHold(Box::new(TapHold {
                variant,
                tap_timeout: val["tap_timeout"].as_u64()? as u16,
                hold_timeout: val["hold_timeout"].as_u64()? as u16,
                tap: act_from_json(&val["tap"])?,
                hold: act_from_json(&val["hold"])?,
                timeout_act: if val["timeout_act"].is_null() {
                    None
                } else {
                    Some(act_from_json(&val["timeout_act"])?)
                },
                keys: val["keys"].as_array()?.iter().map(|x| x.as_str().map(kc)).collect::<Option<Vec<_>>>()?,
            }))
        }
        "one-shot" => {
            let variant = match val["variant"].as_str()? {
                "Press" => OsVariant::Press,
                "Release" => OsVariant::Release,
                "PressPcancel" => OsVariant::PressPcancel,
                "ReleasePcancel" => OsVariant::ReleasePcancel,
                _ => return None,
            };
            Act::OneShot(Box::new(OneShot {
                variant,
                timeout: val["timeout"].as_u64()? as u16,
                inner: act_from_json(&val["inner"])?,
            }))
        }
        "tap-dance" => Act::TapDance(Box::new(TapDance {
            eager: val["eager"].as_bool()?,
            timeout: val["timeout"].as_u64()? as u16,
            acts: val["acts"].as_array()?.iter().map(act_from_json).collect::<Option<Vec<_>>>()?,
        })),
        _ => return None,
    })
}

pub fn mcfg_to_json(c: &MCfg) -> Value {
    json!({
        "text": print_cfg(c),
        "src": c.src.iter().map(|k| kname(*k)).collect::<Vec<_>>(),
        "layers": c.layers.iter().map(|l| l.iter().map(act_to_json).collect::<Vec<_>>()).collect::<Vec<_>>(),
        "layer_stack": c.layer_stack, "delegate": c.delegate, "block_unmapped": c.block_unmapped,
        "process_unmapped": c.process_unmapped, "concurrent_tap_hold": c.concurrent_tap_hold,
        "rapid_event_delay": c.rapid_event_delay,
        "layermap": c.layermap,
        "chords_v2": c.chords_v2.iter().map(|(ks, a)| json!([ks.iter().map(|k| kname(*k)).collect::<Vec<_>>(), act_to_json(a)])).collect::<Vec<_>>(),
    })
}

pub fn mcfg_from_json(v: &Value) -> Option<MCfg> {
    Some(MCfg {
        src: v["src"].as_array()?.iter().map(|x| x.as_str().map(kc)).collect::<Option<Vec<_>>>()?,
        layers: v["layers"]
            .as_array()?
            .iter()
            .map(|l| l.as_array()?.iter().map(act_from_json).collect::<Option<Vec<_>>>())
            .collect::<Option<Vec<_>>>()?,
        layer_stack: v["layer_stack"].as_bool()?,
        delegate: v["delegate"].as_bool()?,
        block_unmapped: v["block_unmapped"].as_bool()?,
        process_unmapped: v["process_unmapped"].as_bool()?,
        concurrent_tap_hold: v["concurrent_tap_hold"].as_bool()?,
        rapid_event_delay: v["rapid_event_delay"].as_u64().map(|x| x as u16),
        layermap: v["layermap"].as_u64().unwrap_or(0) as u16,
        chords_v2: match v["chords_v2"].as_array() {
            Some(a) => a
                .iter()
                .map(|c| Some((c[0].as_array()?.iter().map(|x| x.as_str().map(kc)).collect::<Option<Vec<_>>>()?, act_from_json(&c[1])?)))
                .collect::<Option<Vec<_>>>()?,
            None => vec![],
        },
    })
}

impl Case for MCase {
    fn to_json(&self) -> Value {
        json!({"cfg": mcfg_to_json(&self.cfg), "events": hist_to_json(&self.hist)})
    }
    fn from_json(v: &Value) -> Option<Self> {
        Some(MCase {
            cfg: mcfg_from_json(&v["cfg"])?,
            hist: hist_from_json(&v["events"])?,
        })
    }
    fn canon_hash(&self) -> u64 {
        use std::hash::{Hash, Hasher};
        let mut h = rustc_hash::FxHasher::default();
        self.hash(&mut h);
        h.finish()
    }
}

pub struct PairRun {
    pub real: Vec<Out>,
    pub model_out: Vec<MOut>,
    pub decisions: Vec<(u64, u16, Decision)>,
    pub out_of_domain: Option<&'static str>,
    pub max_pending: usize,
    pub trans_depth: usize,
    pub layer_active_on_event: bool,
    pub buffered_at_decision: usize,
    pub os_other_key: bool,
    pub max_held_layers: usize,
    pub real_idle_at_end: bool,
    pub model_quiescent: bool,
}

/// Run the history on the real code and on the model; `settle` extra ticks at the end.
pub fn run_pair(case: &MCase, settle: u64, configure: impl FnOnce(&mut Model)) -> Result<PairRun, Verdict> {
    let text = print_cfg(&case.cfg);
    let mut sim = match Sim::new(&text) {
        Ok(s) => s,
        Err(e) => {
            return Err(Verdict::failed(
                "harness:generated-config-rejected",
                format!("the parser rejected a configuration of the modelled fragment:\n{text}\n{e}"),
            ))
        }
    };
    let mut m = Model::new(&case.cfg);
    configure(&mut m);
    for ev in &case.hist {
        match ev {
            Ev::Press(k) => {
                sim.press(*k);
                m.press(*k);
            }
            Ev::Release(k) => {
                sim.release(*k);
                m.release(*k);
            }
            Ev::Repeat(k) => {
                sim.repeat(*k);
            }
            Ev::Tap(_) => {}
            Ev::Gap(g) => {
                for _ in 0..*g {
                    sim.tick();
                    m.step();
                }
            }
        }
    }
    for _ in 0..settle {
        sim.tick();
        m.step();
    }
    Ok(PairRun {
        real_idle_at_end: sim.k.is_idle(),
        real: std::mem::take(&mut sim.outs),
        model_out: std::mem::take(&mut m.out),
        decisions: std::mem::take(&mut m.decisions),
        out_of_domain: m.out_of_domain,
        max_pending: m.max_pending,
        trans_depth: m.stat_trans_depth,
        layer_active_on_event: m.stat_layer_active_on_event,
        buffered_at_decision: m.stat_buffered_at_decision,
        os_other_key: m.stat_os_other_key,
        max_held_layers: m.stat_max_held_layers,
        model_quiescent: m.is_quiescent(),
    })
}

pub fn fmt_model(outs: &[MOut]) -> String {
    outs.iter()
        .map(|o| format!("{}{}@{} ", if o.down { "↓" } else { "↑" }, out_name(o.key), o.t))
        .collect()
}

/// Compare the full timestamped key output. Returns a description of the first difference.
pub fn diff_outputs(real: &[Out], model: &[MOut]) -> Option<String> {
    let r: Vec<(u64, bool, u16)> = real
        .iter()
        .filter_map(|o| match o.ev {
            OutEv::Down(k) => Some((o.t, true, k)),
            OutEv::Up(k) => Some((o.t, false, k)),
            _ => None,
        })
        .collect();
    let other = real.iter().find(|o| !matches!(o.ev, OutEv::Down(_) | OutEv::Up(_)));
    if let Some(o) = other {
        return Some(format!("unexpected non-key output {:?}", o));
    }
    let m: Vec<(u64, bool, u16)> = model.iter().map(|o| (o.t, o.down, o.key)).collect();
    if r == m {
        return None;
    }
    let i = r.iter().zip(m.iter()).position(|(a, b)| a != b).unwrap_or(r.len().min(m.len()));
    Some(format!(
        "first difference at output #{i}: real={:?} model={:?}\n  real : {}\n  model: {}",
        r.get(i).map(|(t, d, k)| format!("{}{}@{}", if *d { "↓" } else { "↑" }, out_name(*k), t)),
        m.get(i).map(|(t, d, k)| format!("{}{}@{}", if *d { "↓" } else { "↑" }, out_name(*k), t)),
        fmt_outs(real),
        fmt_model(model)
    ))
}
