//! C11 — Key identity: every key name and code survives the trip from config to OS output.
use crate::corpus::repo_dir;
use crate::engine::*;
use crate::sim::{OutEv, Sim};
use kanata_keyberon::key_code::KeyCode;
use kanata_state_machine::{str_to_oscode, OsCode};
use proptest::prelude::*;
use serde_json::{json, Value};
use std::collections::{BTreeMap, BTreeSet};
use std::sync::OnceLock;

pub struct C11;

#[derive(Clone, Debug, PartialEq, Eq, Hash)]
pub enum K {
    /// conversion round trips for the raw value v (0..=65535)
    Code(u16),
    /// pipeline identity for code v: 0 = mapped to itself, 1 = `_`, 2 = unmapped + process-unmapped-keys
    Pipe(u16, u8),
    /// name resolves to the same code in context ctx
    Name(String, u8),
    /// a deflocalkeys definition must not outlive its configuration: load A (defines names), then B
    LocalKeys(u8),
    /// mapped-key set of a generated configuration
    Mapped { defsrc: Vec<u16>, layermap: Vec<u16>, process_unmapped: u8, except: Vec<u16> },
}

impl Case for K {
    fn to_json(&self) -> Value {
        match self {
            K::Code(v) => json!({"kind": "code", "v": v}),
            K::Pipe(v, m) => json!({"kind": "pipe", "v": v, "mode": m}),
            K::Name(n, c) => json!({"kind": "name", "name": n, "ctx": c}),
            K::LocalKeys(i) => json!({"kind": "localkeys", "variant": i}),
            K::Mapped { defsrc, layermap, process_unmapped, except } => {
                json!({"kind": "mapped", "defsrc": defsrc, "layermap": layermap, "process_unmapped": process_unmapped, "except": except})
            }
        }
    }
    fn from_json(v: &Value) -> Option<Self> {
        let arr = |x: &Value| -> Option<Vec<u16>> { x.as_array()?.iter().map(|y| y.as_u64().map(|z| z as u16)).collect() };
        Some(match v["kind"].as_str()? {
            "code" => K::Code(v["v"].as_u64()? as u16),
            "pipe" => K::Pipe(v["v"].as_u64()? as u16, v["mode"].as_u64()? as u8),
            "name" => K::Name(v["name"].as_str()?.to_string(), v["ctx"].as_u64()? as u8),
            "localkeys" => K::LocalKeys(v["variant"].as_u64()? as u8),
            "mapped" => K::Mapped {
                defsrc: arr(&v["defsrc"])?,
                layermap: arr(&v["layermap"])?,
                process_unmapped: v["process_unmapped"].as_u64()? as u8,
                except: arr(&v["except"])?,
            },
            _ => return None,
        })
    }
}

struct Tables {
    os_discr: BTreeSet<u16>,
    kc_discr: BTreeSet<u16>,
    /// every accepted key name with the code str_to_oscode gives it
    names: Vec<(String, u16)>,
    /// one config-usable name per code
    name_of: BTreeMap<u16, String>,
}

/// Discriminant values of `pub enum <name> {` in a source file: `Ident = N,` entries
/// (implicit values continue from the previous one).
fn enum_discriminants(src: &str, name: &str) -> BTreeSet<u16> {
    let mut out = BTreeSet::new();
    let Some(start) = src.find(&format!("pub enum {name} {{")) else { return out };
    let body = &src[start..];
    let mut depth = 0i32;
    let mut next: i64 = 0;
    for line in body.lines() {
        let l = line.trim();
        depth += l.matches('{').count() as i32;
        if depth == 1 && !l.starts_with("//") && !l.starts_with('#') && !l.starts_with("pub enum") {
            let item = l.split("//").next().unwrap_or("").trim().trim_end_matches(',');
            if let Some((id, val)) = item.split_once('=') {
                let id = id.trim();
                if !id.is_empty() && id.chars().all(|c| c.is_alphanumeric() || c == '_') {
                    let val = val.trim();
                    let parsed = if let Some(h) = val.strip_prefix("0x") { i64::from_str_radix(h, 16).ok() } else { val.parse::<i64>().ok() };
                    if let Some(n) = parsed {
                        out.insert(n as u16);
                        next = n + 1;
                    }
                }
            } else if !item.is_empty() && item.chars().all(|c| c.is_alphanumeric() || c == '_') {
                out.insert(next as u16);
                next += 1;
            }
        }
        depth -= l.matches('}').count() as i32;
        if depth <= 0 && l.contains('}') {
            break;
        }
    }
    out
}

fn rust_str_literals(src: &str) -> Vec<String> {
    let mut out = vec![];
    let b = src.as_bytes();
    let mut i = 0;
    while i < b.len() {
        if b[i] == b'/' && i + 1 < b.len() && b[i + 1] == b'/' {
            while i < b.len() && b[i] != b'\n' {
                i += 1;
            }
            continue;
        }
        if b[i] == b'"' {
            let mut s = String::new();
            let mut k = i + 1;
            while k < b.len() && b[k] != b'"' {
                if b[k] == b'\\' && k + 1 < b.len() {
                    s.push(b[k + 1] as char);
                    k += 2;
                } else {
                    let ch = src[k..].chars().next().unwrap();
                    s.push(ch);
                    k += ch.len_utf8();
                }
            }
            out.push(s);
            i = k + 1;
            continue;
        }
        i += 1;
    }
    out
}

fn tables() -> &'static Tables {
    static T: OnceLock<Tables> = OnceLock::new();
    T.get_or_init(|| {
        let repo = repo_dir();
        let keys_mod = std::fs::read_to_string(repo.join("parser/src/keys/mod.rs")).unwrap_or_default();
        let kc_src = std::fs::read_to_string(repo.join("keyberon/src/key_code.rs")).unwrap_or_default();
        let os_discr = enum_discriminants(&keys_mod, "OsCode");
        let kc_discr = enum_discriminants(&kc_src, "KeyCode");
        // names: string literals inside str_to_oscode
        let mut names = vec![];
        if let Some(s) = keys_mod.find("pub fn str_to_oscode") {
            let body = &keys_mod[s..];
            let end = body.find("\n}\n").unwrap_or(body.len());
            for lit in rust_str_literals(&body[..end]) {
                if lit.is_empty() || lit.contains(char::is_whitespace) || lit.contains('(') || lit.contains(')') || lit.contains('"') {
                    continue;
                }
                if let Some(o) = str_to_oscode(&lit) {
                    if !names.iter().any(|(n, _): &(String, u16)| *n == lit) {
                        names.push((lit, o.as_u16()));
                    }
                }
            }
        }
        let mut name_of = BTreeMap::new();
        for (n, c) in &names {
            // prefer plain ASCII names
            let e = name_of.entry(*c).or_insert_with(|| n.clone());
            if !e.is_ascii() && n.is_ascii() {
                *e = n.clone();
            }
        }
        Tables {
            os_discr,
            kc_discr,
            names,
            name_of,
        }
    })
}

fn valid_codes() -> Vec<u16> {
    (0u16..=767).filter(|v| OsCode::from_u16(*v).is_some()).collect()
}

const N_CTX: u64 = 8;

fn expected_out(v: u16) -> Option<&'static str> {
    // how a press of OsCode v must appear at the OS
    use kanata_state_machine::OsCode::*;
    let o = OsCode::from_u16(v)?;
    Some(match o {
        BTN_LEFT | BTN_RIGHT | BTN_MIDDLE | BTN_SIDE | BTN_EXTRA => "button",
        MouseWheelUp | MouseWheelDown | MouseWheelLeft | MouseWheelRight => "wheel",
        _ if (0x2a4..=0x2ad).contains(&v) => "nothing",
        _ => "key",
    })
}

fn check_press_release(sim: &mut Sim, v: u16, what: &str) -> Result<(), Fail> {
    sim.press(v);
    sim.tick_n(3);
    let down: Vec<_> = sim.outs.clone();
    // an OS auto-repeat while the key is held must not leak anything else either
    sim.repeat(v);
    sim.tick_n(2);
    let rep: Vec<_> = sim.outs[down.len()..].to_vec();
    sim.release(v);
    sim.tick_n(3);
    let all: Vec<_> = sim.outs.iter().filter(|o| !o.direct).cloned().collect();
    let all_with_repeats = sim.outs.clone();
    let exp = expected_out(v).unwrap_or("key");
    let kc_no = OsCode::from_u16(v).map(|o| KeyCode::from(o) == KeyCode::No).unwrap_or(true);
    let bad = |why: String| Fail {
        sig: format!("identity:{what}"),
        detail: format!("{why}; code {v} ({}), output: {}", crate::sim::out_name(v), crate::sim::fmt_outs(&all)),
    };
    match exp {
        "nothing" => {
            if !all_with_repeats.is_empty() {
                return Err(Fail {
                    sig: format!("identity:{what}"),
                    detail: format!("reserved no-op code {v} reached the OS output (press / repeat / release): {}", crate::sim::fmt_outs(&all_with_repeats)),
                });
            }
        }
        "button" => {
            if !down.iter().any(|o| matches!(o.ev, OutEv::BtnDown(_))) || !all.iter().any(|o| matches!(o.ev, OutEv::BtnUp(_))) {
                return Err(bad("mouse button code did not come out as a button press and release".into()));
            }
        }
        "wheel" => {
            if !all.iter().any(|o| matches!(o.ev, OutEv::Scroll(_))) {
                return Err(bad("wheel code did not come out as a scroll".into()));
            }
        }
        _ => {
            if kc_no {
                return Ok(());
            }
            let d: Vec<u16> = down.iter().filter_map(|o| if let OutEv::Down(k) = o.ev { Some(k) } else { None }).collect();
            let u: Vec<u16> = all.iter().filter_map(|o| if let OutEv::Up(k) = o.ev { Some(k) } else { None }).collect();
            // the repeat may only re-send the same key
            if rep.iter().any(|o| !matches!(o.ev, OutEv::Down(k) if k == v)) {
                return Err(bad(format!("the OS repeat produced something else: {}", crate::sim::fmt_outs(&rep))));
            }
            if d != vec![v] || u != vec![v] || all.len() != 2 {
                return Err(bad(format!("expected exactly press and release of the same code, got presses {d:?} releases {u:?}")));
            }
        }
    }
    Ok(())
}

fn judge_case(c: &K) -> Verdict {
    let t = tables();
    let mut v = Verdict::pass(true);
    match c {
        K::Code(val) => {
            v.classes.push("code");
            let val = *val;
            let in_os = t.os_discr.contains(&val);
            let in_kc = t.kc_discr.contains(&val);
            let from = OsCode::from_u16(val);
            if t.os_discr.len() < 100 || t.kc_discr.len() < 100 {
                return Verdict::failed("harness:enum-tables-not-extracted", "could not read the OsCode / KeyCode enums from the tree");
            }
            // every value from_u16 produces must be a declared discriminant of both enums (this is
            // what makes the transmute between them sound); declared-but-unreachable placeholder
            // variants (KEY_749..KEY_766 on this tree) are allowed and counted
            if from.is_some() && !in_os {
                return Verdict::failed("identity:from_u16-domain", format!("from_u16({val}) is Some but {val} is not a declared OsCode discriminant"));
            }
            if from.is_none() && in_os {
                v.classes.push("declared-but-not-from_u16");
            }
            if in_os != in_kc && (from.is_some() || val <= 767) {
                return Verdict::failed("identity:code-spaces-differ", format!("value {val}: OsCode declares it: {in_os}, KeyCode declares it: {in_kc} (the conversion between them is a transmute)"));
            }
            if let Some(o) = from {
                if o.as_u16() != val || u16::from(o) != val {
                    return Verdict::failed("identity:as_u16-roundtrip", format!("from_u16({val}).as_u16() = {}", o.as_u16()));
                }
                if in_kc {
                    let kc = KeyCode::from(o);
                    if kc as u16 != val {
                        return Verdict::failed("identity:keycode-value", format!("KeyCode::from(OsCode {val}) as u16 = {}", kc as u16));
                    }
                    if OsCode::from(kc) != o {
                        return Verdict::failed("identity:keycode-roundtrip", format!("OsCode::from(KeyCode::from({val})) != {val}"));
                    }
                }
            }
            v.nontrivial = val <= 1023 || from.is_some();
        }
        K::Pipe(val, mode) => {
            v.classes.push("pipeline");
            let val = *val;
            if OsCode::from_u16(val).is_none() {
                return Verdict::discard("not-a-code");
            }
            if val as usize >= 767 {
                // OsCode::KEY_MAX has no column in the layout (events for it are ignored)
                return Verdict::discard("no-layout-column");
            }
            if val == 0 {
                // index 0 of every layer is forced to no-op by the parser
                return Verdict::discard("code-0-reserved");
            }
            let name = t.name_of.get(&val);
            let other = if val == crate::sim::code_of("a") { "b" } else { "a" };
            let cfg = match (mode, name) {
                (0, Some(n)) => format!("(defcfg log-layer-changes no)\n(defsrc {n})\n(deflayer l {n})\n"),
                (1, Some(n)) => format!("(defcfg log-layer-changes no)\n(defsrc {n})\n(deflayer l _)\n"),
                (2, _) => format!("(defcfg log-layer-changes no process-unmapped-keys yes)\n(defsrc {other})\n(deflayer l {other})\n"),
                _ => return Verdict::discard("code-without-name"),
            };
            let mut sim = match Sim::new(&cfg) {
                Ok(s) => s,
                Err(e) => {
                    // names that cannot stand in defsrc (e.g. mouse wheel needs an option) are skipped
                    if *mode != 2 {
                        return Verdict::discard("name-not-usable-in-defsrc");
                    }
                    return Verdict::failed("harness:pipeline-config-rejected", format!("{cfg}\n{e}"));
                }
            };
            if let Err(f) = check_press_release(&mut sim, val, ["mapped-to-itself", "transparent", "process-unmapped"][*mode as usize]) {
                v.fail = Some(f);
            }
        }
        K::Name(name, ctx) => {
            v.classes.push("name");
            let Some(code) = str_to_oscode(name).map(|o| o.as_u16()) else { return Verdict::discard("name-gone") };
            let Some(kcn) = OsCode::from_u16(code).map(KeyCode::from) else { return Verdict::discard("name-gone") };
            if kcn == KeyCode::No || expected_out(code) != Some("key") {
                return Verdict::discard("not-a-plain-key");
            }
            let numeric = name.chars().all(|c| c.is_ascii_digit());
            let is_mod = matches!(name.as_str(), "lsft" | "rsft" | "lctl" | "rctl" | "lalt" | "ralt" | "lmet" | "rmet")
                || [42u16, 54, 29, 97, 56, 100, 125, 126].contains(&code);
            // src keys that differ from the key under test
            let pool = ["f13", "f14", "f15"];
            let (a, b) = (pool[0], pool[1]);
            let (ca, cb) = (crate::sim::code_of(a), crate::sim::code_of(b));
            if code == ca || code == cb || code == crate::sim::code_of("f16") || code == crate::sim::code_of("f17") {
                return Verdict::discard("collides-with-probe-keys");
            }
            let zc = crate::sim::code_of("f16");
            let fail = |what: &str, detail: String| Verdict::failed(format!("identity:name-context:{what}"), format!("name {name:?} (code {code}): {detail}"));
            let presses = |sim: &Sim| -> Vec<u16> { sim.outs.iter().filter_map(|o| if let OutEv::Down(k) = o.ev { Some(k) } else { None }).collect() };
            match ctx {
                0 => {
                    // deflayer cell
                    let cfg = format!("(defcfg log-layer-changes no)\n(defsrc {a})\n(deflayer l {name})\n");
                    let Ok(mut sim) = Sim::new(&cfg) else { return Verdict::discard("ctx-rejected") };
                    sim.press(ca);
                    sim.tick_n(3);
                    if presses(&sim) != vec![code] {
                        return fail("deflayer", format!("as a layer action it presses {:?}", presses(&sim)));
                    }
                }
                1 => {
                    if numeric {
                        return Verdict::discard("numeric-name-is-delay-in-macro");
                    }
                    let cfg = format!("(defcfg log-layer-changes no)\n(defsrc {a})\n(deflayer l (macro {name}))\n");
                    let Ok(mut sim) = Sim::new(&cfg) else { return Verdict::discard("ctx-rejected") };
                    sim.press(ca);
                    sim.tick_n(6);
                    if presses(&sim) != vec![code] {
                        return fail("macro", format!("inside a macro it presses {:?}", presses(&sim)));
                    }
                }
                2 => {
                    // fork trigger: hold key mapped to name, then the fork key gives the right branch
                    let cfg = format!("(defcfg log-layer-changes no)\n(defsrc {a} {b})\n(deflayer l {name} (fork f17 f16 ({name})))\n");
                    let Ok(mut sim) = Sim::new(&cfg) else { return Verdict::discard("ctx-rejected") };
                    sim.press(ca);
                    sim.tick_n(2);
                    sim.press(cb);
                    sim.tick_n(3);
                    if !presses(&sim).contains(&zc) {
                        return fail("fork", format!("as a fork trigger it did not match the held key: {:?}", presses(&sim)));
                    }
                }
                3 => {
                    let cfg = format!("(defcfg log-layer-changes no)\n(defsrc {a} {b})\n(deflayer l {name} (switch ({name}) f16 break () f17 break))\n");
                    let Ok(mut sim) = Sim::new(&cfg) else { return Verdict::discard("ctx-rejected") };
                    sim.press(ca);
                    sim.tick_n(2);
                    sim.press(cb);
                    sim.tick_n(4);
                    if !presses(&sim).contains(&zc) {
                        return fail("switch", format!("as a switch key it did not match the held key: {:?}", presses(&sim)));
                    }
                }
                4 => {
                    if is_mod {
                        return Verdict::discard("modifier-in-override");
                    }
                    let cfg = format!("(defcfg log-layer-changes no)\n(defsrc {a} {b})\n(deflayer l lsft {name})\n(defoverrides (lsft {name}) (f16))\n");
                    let Ok(mut sim) = Sim::new(&cfg) else { return Verdict::discard("ctx-rejected") };
                    sim.press(ca);
                    sim.tick_n(2);
                    sim.press(cb);
                    sim.tick_n(3);
                    if !presses(&sim).contains(&zc) {
                        return fail("defoverrides", format!("as an override input it did not match: {:?}", presses(&sim)));
                    }
                }
                5 => {
                    // defsrc + chords v2 participant
                    let cfg = format!("(defcfg log-layer-changes no concurrent-tap-hold yes)\n(defsrc {name} {b})\n(deflayer l XX XX)\n(defchordsv2 ({name} {b}) f16 50 all-released ())\n");
                    let Ok(mut sim) = Sim::new(&cfg) else { return Verdict::discard("ctx-rejected") };
                    sim.press(code);
                    sim.tick_n(2);
                    sim.press(cb);
                    sim.tick_n(5);
                    if !presses(&sim).contains(&zc) {
                        return fail("defchordsv2", format!("as a chord participant it did not match the defsrc key: {:?}", presses(&sim)));
                    }
                }
                6 => {
                    // defseq: leader, then the key mapped to name, fires the virtual key
                    let cfg = format!("(defcfg log-layer-changes no sequence-input-mode hidden-suppressed)\n(defsrc {a} {b})\n(defvirtualkeys vk f16)\n(deflayer l sldr {name})\n(defseq vk ({name}))\n");
                    let Ok(mut sim) = Sim::new(&cfg) else { return Verdict::discard("ctx-rejected") };
                    sim.press(ca);
                    sim.tick_n(2);
                    sim.release(ca);
                    sim.tick_n(2);
                    sim.press(cb);
                    sim.tick_n(6);
                    if !presses(&sim).contains(&zc) {
                        // F20: right shift / ctrl / meta written in defseq can never be typed
                        let what = if [54u16, 97, 126].contains(&code) { "defseq-right-hand-modifier" } else { "defseq" };
                        return fail(what, format!("as a sequence key it did not match: {:?}", presses(&sim)));
                    }
                }
                _ => {
                    // defsrc: the name in defsrc intercepts exactly that code
                    let cfg = format!("(defcfg log-layer-changes no)\n(defsrc {name})\n(deflayer l f16)\n");
                    let files: rustc_hash::FxHashMap<String, String> = Default::default();
                    match kanata_parser::cfg::new_from_str(&cfg, files) {
                        Ok(c) => {
                            let mk: Vec<u16> = c.mapped_keys.iter().map(|o| o.as_u16()).collect();
                            if mk != vec![code] {
                                return fail("defsrc", format!("mapped_keys = {mk:?}"));
                            }
                        }
                        Err(_) => return Verdict::discard("ctx-rejected"),
                    }
                }
            }
        }
        K::LocalKeys(variant) if *variant >= 15 => {
            // index 0 (no key has this code) is a no-op on every layer, whatever a deflayermap
            // wildcard for unmapped keys says: other code relies on it (chords v2 press and
            // release their actions at coordinate 0)
            v.classes.push("index-zero-noop");
            let wild = if *variant % 2 == 1 { "___" } else { "__" };
            let cfg = format!("(defcfg log-layer-changes no process-unmapped-keys yes)\n(defsrc a b)\n(deflayer l0 a (layer-while-held l1))\n(deflayermap (l1) a b {wild} 2)\n(deflayermap (l2) {wild} 3)\n");
            let files: rustc_hash::FxHashMap<String, String> = Default::default();
            let parsed = match kanata_parser::cfg::new_from_str(&cfg, files) {
                Ok(p) => p,
                Err(e) => return Verdict::failed("harness:config-rejected", format!("{cfg}{e:?}")),
            };
            let layout = parsed.layout.b();
            for (li, layer) in layout.layers.iter().enumerate() {
                if !matches!(layer[0][0], kanata_keyberon::action::Action::NoOp) {
                    return Verdict::failed("identity:index-zero-not-noop", format!("{cfg}layer {li}: the action at index 0 is {:?}", layer[0][0]));
                }
            }
            // the wildcard did reach the other unmapped codes
            let c_col = u16::from(kanata_state_machine::str_to_oscode("c").expect("c")) as usize;
            if matches!(layout.layers[1][0][c_col], kanata_keyberon::action::Action::Trans | kanata_keyberon::action::Action::NoOp) {
                return Verdict::failed("harness:wildcard-without-effect", format!("{cfg}layer l1, key c: {:?}", layout.layers[1][0][c_col]));
            }
            v.nontrivial = true;
            return v;
        }
        K::LocalKeys(variant) if (5..10).contains(variant) => {
            // mouse buttons: the button an action names is written to the OS (on the real
            // output) as the code the same name has in defsrc
            v.classes.push("mouse-button-code");
            let names = ["mlft", "mrgt", "mmid", "mbck", "mfwd"];
            let name = names[(*variant as usize - 5) % names.len()];
            let Some(code) = kanata_state_machine::str_to_oscode(name) else {
                return Verdict::failed("identity:mouse-button-name-unknown", name.to_string());
            };
            let cfg = format!("(defcfg log-layer-changes no)\n(defsrc a)\n(deflayer l {name})\n");
            let files: rustc_hash::FxHashMap<String, String> = Default::default();
            let parsed = match kanata_parser::cfg::new_from_str(&cfg, files) {
                Ok(p) => p,
                Err(e) => return Verdict::failed("harness:config-rejected", format!("{cfg}{e:?}")),
            };
            let layout = parsed.layout.b();
            let a_col = u16::from(kanata_state_machine::str_to_oscode("a").expect("a")) as usize;
            let cell = &layout.layers[0][0][a_col];
            use kanata_keyberon::action::Action;
            use kanata_parser::custom_action::CustomAction;
            let btn = match cell {
                Action::Custom(cs) => cs.iter().find_map(|c| if let CustomAction::Mouse(b) = c { Some(*b) } else { None }),
                _ => None,
            };
            let Some(btn) = btn else {
                return Verdict::failed("identity:mouse-button-action", format!("{cfg}the cell is {cell:?}"));
            };
            let out = kanata_state_machine::OsCode::from(btn);
            if out != code {
                return Verdict::failed("identity:mouse-button-code", format!("action `{name}` is button {btn:?}, written to the OS as {out:?}, but the name denotes {code:?}"));
            }
            v.nontrivial = true;
            return v;
        }
        K::LocalKeys(variant) => {
            v.classes.push("localkeys");
            // names that deflocalkeys may redefine, and a brand-new name
            // (10..: names that are hard-coded key names too - the custom meaning wins)
            let redefinable = [";", "[", "+", "'", "=", "z", "q", "1", "ret", "lsft"];
            let name = redefinable[(if *variant < 5 { *variant as usize } else { *variant as usize - 5 }) % redefinable.len()];
            if *variant >= 10 {
                v.classes.push("localkeys-shadowing-a-standard-name");
            }
            let files = || -> rustc_hash::FxHashMap<String, String> { Default::default() };
            let plain = format!("(defcfg log-layer-changes no)\n(defsrc {name} a)\n(deflayer l {name} a)\n");
            let before = match kanata_parser::cfg::new_from_str(&plain, files()) {
                Ok(c) => c.mapped_keys.iter().map(|o| o.as_u16()).collect::<BTreeSet<u16>>(),
                Err(e) => return Verdict::failed("harness:localkeys-config-rejected", format!("{plain}\n{e:?}")),
            };
            let with_local = format!("(deflocalkeys-linux {name} 300 lk 301)\n(defcfg log-layer-changes no)\n(defsrc {name} lk)\n(deflayer l {name} lk)\n");
            match kanata_parser::cfg::new_from_str(&with_local, files()) {
                Ok(c) => {
                    let mk: BTreeSet<u16> = c.mapped_keys.iter().map(|o| o.as_u16()).collect();
                    if mk != [300u16, 301].into_iter().collect() {
                        return Verdict::failed("identity:deflocalkeys", format!("{with_local}mapped_keys = {mk:?}, expected the redefined codes 300 and 301"));
                    }
                }
                Err(e) => return Verdict::failed("harness:localkeys-config-rejected", format!("{with_local}\n{e:?}")),
            }
            // a later configuration without deflocalkeys sees the standard meaning again
            match kanata_parser::cfg::new_from_str(&plain, files()) {
                Ok(c) => {
                    let after: BTreeSet<u16> = c.mapped_keys.iter().map(|o| o.as_u16()).collect();
                    if after != before {
                        return Verdict::failed("identity:deflocalkeys-leaks-into-next-config", format!("name {name:?}: mapped keys {before:?} before, {after:?} after another configuration had redefined it with deflocalkeys"));
                    }
                }
                Err(e) => return Verdict::failed("identity:deflocalkeys-leaks-into-next-config", format!("{plain}\nrejected after another configuration used deflocalkeys: {e:?}")),
            }
            let uses_lk = "(defcfg log-layer-changes no)\n(defsrc lk)\n(deflayer l lk)\n";
            if kanata_parser::cfg::new_from_str(uses_lk, files()).is_ok() {
                return Verdict::failed("identity:deflocalkeys-leaks-into-next-config", "the name `lk`, defined by an earlier configuration's deflocalkeys, is still accepted by a configuration that does not define it".to_string());
            }
        }
        K::Mapped { defsrc, layermap, process_unmapped, except } => {
            v.classes.push("mapped-keys");
            let nm = |c: &u16| t.name_of.get(c).cloned();
            let ds: Vec<String> = defsrc.iter().filter_map(nm).collect();
            let lm: Vec<String> = layermap.iter().filter_map(nm).collect();
            let ex: Vec<String> = except.iter().filter_map(nm).collect();
            if ds.is_empty() {
                return Verdict::discard("empty-defsrc");
            }
            let mut cfg = String::from("(defcfg log-layer-changes no");
            match process_unmapped {
                0 => {}
                1 => cfg.push_str(" process-unmapped-keys yes"),
                _ => {
                    if ex.is_empty() {
                        cfg.push_str(" process-unmapped-keys yes");
                    } else {
                        cfg.push_str(&format!(" process-unmapped-keys (all-except {})", ex.join(" ")));
                    }
                }
            }
            cfg.push_str(&format!(")\n(defsrc {})\n(deflayer base {})\n", ds.join(" "), ds.iter().map(|_| "XX").collect::<Vec<_>>().join(" ")));
            if !lm.is_empty() {
                cfg.push_str(&format!("(deflayermap (m) {})\n", lm.iter().map(|n| format!("{n} XX")).collect::<Vec<_>>().join(" ")));
            }
            let files: rustc_hash::FxHashMap<String, String> = Default::default();
            let parsed = match kanata_parser::cfg::new_from_str(&cfg, files) {
                Ok(c) => c,
                Err(_) => return Verdict::discard("config-rejected"),
            };
            let got: BTreeSet<u16> = parsed.mapped_keys.iter().map(|o| o.as_u16()).collect();
            let mut want: BTreeSet<u16> = defsrc.iter().filter(|c| t.name_of.contains_key(c)).copied().collect();
            want.extend(layermap.iter().filter(|c| t.name_of.contains_key(c)).copied());
            if *process_unmapped > 0 {
                let exs: BTreeSet<u16> = if *process_unmapped == 2 { except.iter().filter(|c| t.name_of.contains_key(c)).copied().collect() } else { Default::default() };
                for c in 0u16..767 {
                    if let Some(o) = OsCode::from_u16(c) {
                        if KeyCode::from(o) != KeyCode::No && !exs.contains(&c) {
                            want.insert(c);
                        }
                    }
                }
            }
            if got != want {
                let extra: Vec<_> = got.difference(&want).collect();
                let missing: Vec<_> = want.difference(&got).collect();
                return Verdict::failed("identity:mapped-keys", format!("config:\n{cfg}mapped_keys has unexpected {extra:?}, lacks {missing:?}"));
            }
        }
    }
    v
}

impl TypedProp for C11 {
    type C = K;
    fn id(&self) -> &'static str {
        "C11"
    }
    fn info(&self) -> PropInfo {
        let t = tables();
        let mut extra = BTreeMap::new();
        extra.insert("oscode_discriminants".into(), json!(t.os_discr.len()));
        extra.insert("keycode_discriminants".into(), json!(t.kc_discr.len()));
        extra.insert("key_names".into(), json!(t.names.len()));
        extra.insert("exhaustive_parts".into(), json!("all 65536 u16 values (conversion round trips, enum discriminant sets read from the tree), every valid code 0..=767 x 3 pipeline configs, every accepted key name x 8 contexts"));
        PropInfo {
            level: "exploration",
            rule: "enumerated parts (exhaustive): every u16 value for the OsCode/KeyCode conversions (from_u16 domain = declared discriminants, as_u16/transmute round trips, the two enums' discriminant sets coincide); every valid code through three pipeline configs (mapped to itself, transparent, unmapped with process-unmapped-keys) must come out as the same code on press and release (reserved 0x2a4..=0x2ad never); every key name accepted by str_to_oscode must denote the same code as a layer action, macro item, fork trigger, switch key, override input, chords-v2 participant, defseq key and defsrc entry. deflocalkeys names that shadow standard names must win everywhere; index 0 must be a no-op on every layer under deflayermap wildcards for unmapped keys; every mouse-button name as an action must be written to the OS as the code the name denotes in defsrc (OsCode::from(Btn), the conversion the real output uses). Random part: mapped-key set of configs with random defsrc subsets, deflayermap inputs, process-unmapped-keys yes/no/(all-except ..) equals the set computed by the harness. Each code / name / config is its own non-trivial case.",
            assumptions: vec!["Linux key tables only".into(), "names / enum bodies are read from the tree under test".into()],
            extra,
        }
    }
    fn plan(&self, tier: Tier) -> Plan {
        let t = tables();
        let n = 65536 + 768 * 3 + t.names.len() as u64 * N_CTX + 5
            + match tier {
                Tier::Quick => 20_000,
                Tier::Thorough => 400_000,
            };
        Plan {
            n_cases: n,
            exhaustive: false,
            distinct_by_construction: false,
            required_classes: vec!["code", "pipeline", "name", "localkeys", "localkeys-shadowing-a-standard-name", "index-zero-noop", "mouse-button-code", "mapped-keys"],
            hang_secs: 60,
        }
    }
    fn gen(&self, _tier: Tier, _seed: u64, idx: u64) -> Gen<K> {
        let t = tables();
        if idx < 65536 {
            return Gen::Fixed(K::Code(idx as u16));
        }
        let idx = idx - 65536;
        if idx < 768 * 3 {
            return Gen::Fixed(K::Pipe((idx / 3) as u16, (idx % 3) as u8));
        }
        let idx = idx - 768 * 3;
        if idx < t.names.len() as u64 * N_CTX {
            let (n, _) = &t.names[(idx / N_CTX) as usize];
            return Gen::Fixed(K::Name(n.clone(), (idx % N_CTX) as u8));
        }
        let idx = idx - t.names.len() as u64 * N_CTX;
        if idx < 17 {
            // (15, 16: index 0 stays a no-op under deflayermap wildcards)
            // (5..10: the five mouse buttons; 10..15: deflocalkeys names that shadow standard names)
            return Gen::Fixed(K::LocalKeys(idx as u8));
        }
        Gen::Strat(0)
    }
    fn strategy(&self, _tier: Tier, _key: u32) -> BoxedStrategy<K> {
        let codes: Vec<u16> = tables().name_of.keys().copied().filter(|c| expected_out(*c) == Some("key")).collect();
        let c2 = codes.clone();
        let c3 = codes.clone();
        (
            prop::collection::vec(any::<u16>(), 1..8),
            prop::collection::vec(any::<u16>(), 0..5),
            0u8..3,
            prop::collection::vec(any::<u16>(), 0..5),
        )
            .prop_map(move |(a, b, p, e)| {
                let uniq = |sel: Vec<u16>, pool: &Vec<u16>| {
                    let mut v: Vec<u16> = vec![];
                    for s in sel {
                        let c = pool[pick(s, pool.len())];
                        if !v.contains(&c) {
                            v.push(c);
                        }
                    }
                    v
                };
                let defsrc = uniq(a, &codes);
                // all-except keys must not be in defsrc
                let except: Vec<u16> = uniq(e, &c3).into_iter().filter(|c| !defsrc.contains(c)).collect();
                K::Mapped {
                    layermap: uniq(b, &c2),
                    defsrc,
                    process_unmapped: p,
                    except,
                }
            })
            .boxed()
    }
    fn judge(&self, case: &K) -> Verdict {
        let _ = valid_codes;
        judge_case(case)
    }
}
