//! C16 — Configuration abstractions are transparent: indirection never changes behaviour.
//!
//! A generated configuration is read with the harness's own s-expression reader, rewritten
//! with semantically neutral indirection (defalias, defvar, deftemplate / template-expand /
//! if-equal, include, platform, deflayermap) at sites chosen by the tape, and printed again.
//! Both texts go through the real parser: acceptance must agree, and when accepted the parsed
//! tables and the behaviour on random histories must be identical.
use crate::engine::*;
use crate::gen::cfg::{Profile, Tape};
use crate::gen::hist::*;
use crate::props::gcase::{build_cfg, consistent_events, gap_set};
use crate::sexpr::{parse, print_top, Node};
use crate::sim::{fmt_outs, Sim};
use proptest::prelude::*;
use serde_json::{json, Value};
use std::collections::BTreeMap;

pub struct C16;

#[derive(Clone, Debug, PartialEq, Eq, Hash)]
pub struct TCase {
    pub cfg: String,
    pub files: Vec<(String, String)>,
    pub cfg2: String,
    pub files2: Vec<(String, String)>,
    pub rewrites: Vec<String>,
    pub hists: Vec<Vec<Ev>>,
}

impl Case for TCase {
    fn to_json(&self) -> Value {
        let f = |v: &Vec<(String, String)>| v.iter().map(|(n, c)| json!([n, c])).collect::<Vec<_>>();
        json!({"cfg": self.cfg, "files": f(&self.files), "cfg2": self.cfg2, "files2": f(&self.files2), "rewrites": self.rewrites,
            "histories": self.hists.iter().map(|h| hist_to_json(h)).collect::<Vec<_>>()})
    }
    fn from_json(v: &Value) -> Option<Self> {
        let f = |x: &Value| -> Vec<(String, String)> {
            x.as_array().map(|a| a.iter().filter_map(|p| Some((p[0].as_str()?.to_string(), p[1].as_str()?.to_string()))).collect()).unwrap_or_default()
        };
        Some(TCase {
            cfg: v["cfg"].as_str()?.to_string(),
            files: f(&v["files"]),
            cfg2: v["cfg2"].as_str()?.to_string(),
            files2: f(&v["files2"]),
            rewrites: v["rewrites"].as_array()?.iter().filter_map(|x| x.as_str().map(String::from)).collect(),
            hists: v["histories"].as_array()?.iter().map(hist_from_json).collect::<Option<Vec<_>>>()?,
        })
    }
    fn canon_hash(&self) -> u64 {
        use std::hash::{Hash, Hasher};
        let mut h = rustc_hash::FxHasher::default();
        self.hash(&mut h);
        h.finish()
    }
}

// ---------------------------------------------------------------------------------------------
// rewrite engine

/// child indexes of an action list that are themselves action positions
fn action_children(n: &Node) -> Vec<Vec<usize>> {
    let Some(l) = n.as_list() else { return vec![] };
    let Some(h) = n.head() else { return vec![] };
    let len = l.len();
    let mut out: Vec<Vec<usize>> = vec![];
    match h {
        "tap-hold" | "tap-hold-press" | "tap-hold-release" | "tap-hold-release-keys" | "tap-hold-except-keys" | "tap-hold-tap-keys-release" => {
            for i in [3usize, 4] {
                if i < len {
                    out.push(vec![i]);
                }
            }
        }
        "tap-hold-press-timeout" | "tap-hold-release-timeout" => {
            for i in [3usize, 4, 5] {
                if i < len {
                    out.push(vec![i]);
                }
            }
        }
        "multi" => {
            for i in 1..len {
                out.push(vec![i]);
            }
        }
        "one-shot" | "one-shot-press" | "one-shot-release" | "one-shot-press-pcancel" | "one-shot-release-pcancel" => {
            if len > 2 {
                out.push(vec![2]);
            }
        }
        "tap-dance" | "tap-dance-eager" => {
            if let Some(Node::List(items)) = l.get(2) {
                for i in 0..items.len() {
                    out.push(vec![2, i]);
                }
            }
        }
        "fork" => {
            for i in [1usize, 2] {
                if i < len {
                    out.push(vec![i]);
                }
            }
        }
        "switch" => {
            let mut i = 2;
            while i < len {
                out.push(vec![i]);
                i += 3;
            }
        }
        _ => {}
    }
    out
}

fn node_at<'a>(forms: &'a [Node], path: &[usize]) -> Option<&'a Node> {
    let mut n = forms.get(*path.first()?)?;
    for i in &path[1..] {
        n = n.as_list()?.get(*i)?;
    }
    Some(n)
}
fn node_at_mut<'a>(forms: &'a mut [Node], path: &[usize]) -> Option<&'a mut Node> {
    let mut n = forms.get_mut(*path.first()?)?;
    for i in &path[1..] {
        n = match n {
            Node::List(l) => l.get_mut(*i)?,
            _ => return None,
        };
    }
    Some(n)
}

/// Paths (from the top level) of all action sites in deflayer cells and defalias values.
/// `nested` tells whether the site is inside another action.
fn action_sites(forms: &[Node], with_virtual_keys: bool) -> Vec<(Vec<usize>, bool)> {
    fn rec(n: &Node, path: Vec<usize>, nested: bool, out: &mut Vec<(Vec<usize>, bool)>) {
        // a flag of the enclosing multi, not an action of its own
        if n.as_atom() == Some("reverse-release-order") {
            return;
        }
        out.push((path.clone(), nested));
        for rel in action_children(n) {
            let mut p = path.clone();
            p.extend(rel.iter().copied());
            let mut c = n;
            let mut ok = true;
            for i in &rel {
                match c.as_list().and_then(|l| l.get(*i)) {
                    Some(x) => c = x,
                    None => {
                        ok = false;
                        break;
                    }
                }
            }
            if ok {
                rec(c, p, true, out);
            }
        }
    }
    let mut out = vec![];
    for (fi, f) in forms.iter().enumerate() {
        match f.head() {
            Some("deflayer") => {
                if let Some(l) = f.as_list() {
                    for i in 2..l.len() {
                        rec(&l[i], vec![fi, i], false, &mut out);
                    }
                }
            }
            Some("defalias") => {
                if let Some(l) = f.as_list() {
                    let mut i = 2;
                    while i < l.len() {
                        rec(&l[i], vec![fi, i], false, &mut out);
                        i += 2;
                    }
                }
            }
            // (aliases cannot be used inside defvirtualkeys - documented - but templates can)
            Some("deffakekeys") | Some("defvirtualkeys") if with_virtual_keys => {
                if let Some(l) = f.as_list() {
                    let mut i = 2;
                    while i < l.len() {
                        rec(&l[i], vec![fi, i], false, &mut out);
                        i += 2;
                    }
                }
            }
            _ => {}
        }
    }
    out
}

/// Atoms and lists inside actions (not the action's name, not an alias/variable reference,
/// not a site's head) that a defvar may stand for: every node strictly inside a deflayer cell
/// or defalias value that is a list.
fn value_sites(forms: &[Node]) -> Vec<Vec<usize>> {
    fn rec(n: &Node, path: Vec<usize>, out: &mut Vec<Vec<usize>>) {
        // templates are expanded before variables exist: neither the template's name nor its
        // arguments (documented: Example 5, if-equal compares the unsubstituted text) are
        // sites for a variable
        if matches!(n.head(), Some("template-expand") | Some("t!")) {
            return;
        }
        if let Node::List(l) = n {
            for (i, c) in l.iter().enumerate() {
                if i == 0 {
                    continue;
                }
                let mut p = path.clone();
                p.push(i);
                match c {
                    Node::Atom(a) => {
                        // (reverse-release-order is a flag of the enclosing multi: once hidden behind
                        // a variable the alias rewrite could no longer tell it from an action)
                        if !a.starts_with('@') && !a.starts_with('$') && a != "reverse-release-order" {
                            out.push(p);
                        }
                    }
                    Node::List(_) => {
                        out.push(p.clone());
                        rec(c, p, out);
                    }
                }
            }
        }
    }
    let mut out = vec![];
    for (fi, f) in forms.iter().enumerate() {
        let n = f.as_list().map(|l| l.len()).unwrap_or(0);
        let cells: Vec<usize> = match f.head() {
            Some("deflayer") => (2..n).collect(),
            Some("defalias") | Some("deffakekeys") | Some("defvirtualkeys") => (2..n).step_by(2).collect(),
            // (defchords name timeout (keys) action ...)
            Some("defchords") => (4..n).step_by(2).collect(),
            // (defchordsv2 (keys) action timeout release (layers) ...)
            Some("defchordsv2") => (2..n).step_by(5).collect(),
            _ => vec![],
        };
        for i in cells {
            if let Some(c) = f.as_list().and_then(|l| l.get(i)) {
                rec(c, vec![fi, i], &mut out);
            }
        }
    }
    out
}

struct Rw {
    /// new defvar forms (in creation order) and new deftemplate forms (in creation order: a
    /// later template may contain a call of an earlier one), printed before everything else
    pre_vars: Vec<Node>,
    pre_templates: Vec<Node>,
    forms: Vec<Node>,
    files: Vec<(String, String)>,
    counter: usize,
    applied: Vec<String>,
    nested_site: bool,
}

impl Rw {
    fn fresh(&mut self, stem: &str) -> String {
        self.counter += 1;
        format!("zz{stem}{}", self.counter)
    }

    /// name an action with defalias
    fn alias(&mut self, t: &mut Tape) -> bool {
        let sites = action_sites(&self.forms, false);
        if sites.is_empty() {
            return false;
        }
        let (path, nested) = sites[t.pick(sites.len())].clone();
        let Some(node) = node_at(&self.forms, &path).cloned() else { return false };
        let name = self.fresh("al");
        let fi = path[0];
        let in_alias = self.forms[fi].head() == Some("defalias");
        *node_at_mut(&mut self.forms, &path).unwrap() = Node::Atom(format!("@{name}"));
        if in_alias {
            // a new pair in the same defalias, just before the pair that uses it
            let pair_idx = path[1] - 1;
            if let Node::List(l) = &mut self.forms[fi] {
                l.insert(pair_idx, node);
                l.insert(pair_idx, Node::atom(&name));
            }
        } else {
            // deflayer cells may use aliases defined anywhere: a new defalias at the end
            self.forms.push(Node::list(vec![Node::atom("defalias"), Node::atom(&name), node]));
        }
        self.nested_site |= nested;
        self.applied.push(if in_alias { "alias-in-defalias".into() } else { "alias".into() });
        true
    }

    /// name a value with defvar (directly, through a second variable, or built by concat)
    fn var(&mut self, t: &mut Tape) -> bool {
        let sites = value_sites(&self.forms);
        if sites.is_empty() {
            return false;
        }
        let path = sites[t.pick(sites.len())].clone();
        let Some(node) = node_at(&self.forms, &path).cloned() else { return false };
        let name = self.fresh("v");
        let how = t.pick(3);
        let mut def = vec![Node::atom("defvar")];
        let mut kind = "var";
        let mut use_name = name.clone();
        match (&node, how) {
            (Node::Atom(a), 2) if a.len() >= 2 && a.chars().all(|c| c.is_ascii_alphanumeric()) => {
                let (x, y) = a.split_at(1);
                def.push(Node::atom(&name));
                def.push(Node::list(vec![Node::atom("concat"), Node::atom(x), Node::atom(y)]));
                kind = "var-concat";
            }
            (_, 1) => {
                let second = self.fresh("v");
                def.push(Node::atom(&name));
                def.push(node.clone());
                def.push(Node::atom(&second));
                def.push(Node::Atom(format!("${name}")));
                use_name = second;
                kind = "var-chained";
            }
            _ => {
                def.push(Node::atom(&name));
                def.push(node.clone());
            }
        }
        if matches!(node, Node::List(_)) {
            kind = match kind {
                "var-chained" => "var-list-chained",
                _ => "var-list",
            };
        }
        *node_at_mut(&mut self.forms, &path).unwrap() = Node::Atom(format!("${use_name}"));
        // variables must be defined before they are used: at the top
        self.pre_vars.push(Node::list(def));
        self.nested_site |= path.len() > 3;
        self.applied.push(kind.into());
        true
    }

    /// wrap an action into a template with one parameter
    fn template(&mut self, t: &mut Tape) -> bool {
        let sites: Vec<(Vec<usize>, bool)> = action_sites(&self.forms, true)
            .into_iter()
            .filter(|(p, _)| matches!(node_at(&self.forms, p), Some(Node::List(l)) if l.len() >= 2 && l[0].as_atom().map(|a| !a.starts_with("template-expand") && a != "t!").unwrap_or(false)))
            .collect();
        if sites.is_empty() {
            return false;
        }
        let (path, nested) = sites[t.pick(sites.len())].clone();
        let Some(Node::List(items)) = node_at(&self.forms, &path).cloned() else { return false };
        let j = 1 + t.pick(items.len() - 1);
        let arg = items[j].clone();
        let name = self.fresh("tp");
        let mut body_items = items.clone();
        body_items[j] = Node::atom("$zzp");
        // optionally a conditional (single or nested pair) around an action nested in the body
        let mut nested_cond = false;
        let mut adjacent_cond = false;
        if t.chance(1, 3) {
            // any action nested at any depth in the body (not the parameter's own position)
            fn desc(n: &Node, path: Vec<usize>, out: &mut Vec<Vec<usize>>) {
                for rel in action_children(n) {
                    let mut c = n;
                    let mut ok = true;
                    for i in &rel {
                        match c.as_list().and_then(|l| l.get(*i)) {
                            Some(x) => c = x,
                            None => {
                                ok = false;
                                break;
                            }
                        }
                    }
                    if ok && c.as_atom() != Some("reverse-release-order") {
                        let mut p = path.clone();
                        p.extend(rel.iter().copied());
                        out.push(p.clone());
                        desc(c, p, out);
                    }
                }
            }
            let mut rels: Vec<Vec<usize>> = vec![];
            desc(&Node::List(body_items.clone()), vec![], &mut rels);
            rels.retain(|r| r[0] != j);
            if !rels.is_empty() {
                let rel = rels[t.pick(rels.len())].clone();
                let mut tmp = vec![Node::List(body_items.clone())];
                let mut path = vec![0usize];
                path.extend(rel.iter().copied());
                if let Some(x) = node_at(&tmp, &path).cloned() {
                    let (l, r) = match &arg {
                        Node::Atom(a) if !a.starts_with('$') => (Node::atom("$zzp"), arg.clone()),
                        _ => (Node::atom("zz"), Node::atom("zz")),
                    };
                    let inner = if t.chance(1, 2) { Node::list(vec![Node::atom("if-equal"), r.clone(), r.clone(), x]) } else { x };
                    // a true conditional of any of the four documented kinds
                    let wrapped = match t.pick(5) {
                        0 => Node::list(vec![Node::atom("if-not-equal"), l, Node::atom("zz-other"), inner]),
                        1 => Node::list(vec![Node::atom("if-in-list"), l, Node::list(vec![Node::atom("zz-other"), r, Node::atom("zz-third")]), inner]),
                        2 => Node::list(vec![Node::atom("if-not-in-list"), l, Node::list(vec![Node::atom("zz-other"), Node::atom("zz-third")]), inner]),
                        _ => Node::list(vec![Node::atom("if-equal"), l, r, inner]),
                    };
                    *node_at_mut(&mut tmp, &path).unwrap() = wrapped;
                    // a second conditional in the same list, right before it, that expands to
                    // nothing (false) or whose place is taken by two conditionals of one item each
                    if t.chance(1, 2) {
                        let (parent, idx) = (path[..path.len() - 1].to_vec(), *path.last().unwrap());
                        if let Some(Node::List(pl)) = node_at_mut(&mut tmp, &parent) {
                            // never in head position (the head names the action)
                            if idx >= 1 {
                                // a false conditional of any kind (two items that must not appear), or a
                                // true one that contributes nothing / is replaced by no item at all
                                let falsy = match t.pick(5) {
                                    0 => Node::list(vec![Node::atom("if-not-equal"), Node::atom("zq"), Node::atom("zq"), Node::atom("never-here"), Node::atom("nor-this")]),
                                    1 => Node::list(vec![Node::atom("if-in-list"), Node::atom("zq"), Node::list(vec![Node::atom("zr"), Node::atom("zs")]), Node::atom("never-here"), Node::atom("nor-this")]),
                                    2 => Node::list(vec![Node::atom("if-not-in-list"), Node::atom("zq"), Node::list(vec![Node::atom("zr"), Node::atom("zq")]), Node::atom("never-here"), Node::atom("nor-this")]),
                                    _ => Node::list(vec![Node::atom("if-equal"), Node::atom("zq"), Node::atom("zr"), Node::atom("never-here"), Node::atom("nor-this")]),
                                };
                                pl.insert(idx, falsy);
                                adjacent_cond = true;
                            }
                        }
                    }
                    if let Node::List(b) = tmp.remove(0) {
                        body_items = b;
                    }
                    nested_cond = true;
                }
            }
        }
        let mut body = Node::List(body_items);
        let mut kind = "template";
        if let Node::Atom(a) = &arg {
            if t.chance(1, 3) && !a.starts_with('$') {
                body = Node::list(vec![Node::atom("if-equal"), Node::atom("$zzp"), arg.clone(), body]);
                kind = "template-if-equal";
            }
        } else {
            kind = "template-list-arg";
        }
        if nested_cond {
            kind = "template-nested-conditional";
        }
        if adjacent_cond {
            kind = "template-adjacent-conditionals";
        }
        let def = Node::list(vec![Node::atom("deftemplate"), Node::atom(&name), Node::list(vec![Node::atom("zzp")]), body]);
        let call = Node::list(vec![Node::atom(if t.chance(1, 2) { "template-expand" } else { "t!" }), Node::atom(&name), arg]);
        *node_at_mut(&mut self.forms, &path).unwrap() = call;
        self.pre_templates.push(def);
        self.nested_site |= nested;
        self.applied.push(kind.into());
        true
    }

    /// move a top-level form into an included file
    fn include(&mut self, t: &mut Tape) -> bool {
        let cands: Vec<usize> = self
            .forms
            .iter()
            .enumerate()
            .filter(|(_, f)| !matches!(f.head(), Some("defcfg") | Some("include") | None))
            .map(|(i, _)| i)
            .collect();
        if cands.is_empty() {
            return false;
        }
        let i = cands[t.pick(cands.len())];
        // the file name bare, quoted, or quoted because it contains a space
        let style = t.pick(3);
        let fname = if style == 2 { format!("my {}.kbd", self.fresh("inc")) } else { format!("{}.kbd", self.fresh("inc")) };
        let mut text = String::new();
        self.forms[i].print(&mut text);
        text.push('\n');
        self.files.push((fname.clone(), text));
        let written = if style == 0 { fname.clone() } else { format!("\"{fname}\"") };
        self.forms[i] = Node::list(vec![Node::atom("include"), Node::atom(&written)]);
        self.applied.push(if style == 0 { "include" } else { "include-quoted" }.into());
        true
    }

    /// wrap a top-level form in (platform (linux ...) ...)
    fn platform(&mut self, t: &mut Tape) -> bool {
        let cands: Vec<usize> = self.forms.iter().enumerate().filter(|(_, f)| !matches!(f.head(), Some("include") | Some("platform") | None)).map(|(i, _)| i).collect();
        if cands.is_empty() {
            return false;
        }
        let i = cands[t.pick(cands.len())];
        let plats = match t.pick(3) {
            0 => vec![Node::atom("linux")],
            1 => vec![Node::atom("win"), Node::atom("linux")],
            _ => vec![Node::atom("linux"), Node::atom("macos"), Node::atom("winiov2")],
        };
        let f = self.forms[i].clone();
        self.forms[i] = Node::list(vec![Node::atom("platform"), Node::List(plats), f]);
        self.applied.push("platform".into());
        true
    }

    /// express a deflayer as the deflayermap that lists every defsrc key
    fn layermap(&mut self, t: &mut Tape) -> bool {
        let Some(src) = self.forms.iter().find(|f| f.head() == Some("defsrc")).and_then(|f| f.as_list()).map(|l| l[1..].to_vec()) else { return false };
        if src.iter().any(|k| k.as_atom().is_none()) {
            return false;
        }
        let cands: Vec<usize> = self
            .forms
            .iter()
            .enumerate()
            .filter(|(_, f)| f.head() == Some("deflayer") && f.as_list().map(|l| l.len() == src.len() + 2 && l[1].as_atom().is_some()).unwrap_or(false))
            .map(|(i, _)| i)
            .collect();
        if cands.is_empty() {
            return false;
        }
        let i = cands[t.pick(cands.len())];
        let l = self.forms[i].as_list().unwrap().clone();
        let mut out = vec![Node::atom("deflayermap"), Node::list(vec![l[1].clone()])];
        let cells = &l[2..];
        if t.chance(1, 2) && src.iter().collect::<std::collections::HashSet<_>>().len() == src.len() {
            // `_` stands for the most frequent action (all defsrc keys not listed), at a random place
            let best = (0..cells.len()).max_by_key(|j| (cells.iter().filter(|c| *c == &cells[*j]).count(), cells.len() - *j)).unwrap_or(0);
            let mut pairs: Vec<(Node, Node)> = src.iter().zip(cells.iter()).filter(|(_, a)| *a != &cells[best]).map(|(k, a)| (k.clone(), a.clone())).collect();
            let pos = t.pick(pairs.len() + 1);
            pairs.insert(pos, (Node::atom("_"), cells[best].clone()));
            for (k, a) in pairs {
                out.push(k);
                out.push(a);
            }
            self.forms[i] = Node::List(out);
            self.applied.push("deflayermap-wildcard".into());
            return true;
        }
        for (k, a) in src.iter().zip(cells.iter()) {
            out.push(k.clone());
            out.push(a.clone());
        }
        self.forms[i] = Node::List(out);
        self.applied.push("deflayermap".into());
        true
    }
}

pub fn rewrite(text: &str, files: &[(String, String)], t: &mut Tape) -> Option<(String, Vec<(String, String)>, Vec<String>, bool)> {
    let forms = parse(text)?;
    let mut rw = Rw {
        pre_vars: vec![],
        pre_templates: vec![],
        forms,
        files: files.to_vec(),
        counter: 0,
        applied: vec![],
        nested_site: false,
    };
    let n = 1 + t.pick(6);
    for _ in 0..n {
        let _ = match t.pick(8) {
            0 | 1 => rw.alias(t),
            2 | 3 => rw.var(t),
            4 => rw.template(t),
            5 => rw.include(t),
            6 => rw.platform(t),
            _ => rw.layermap(t),
        };
    }
    let mut all = rw.pre_vars.clone();
    all.extend(rw.pre_templates.iter().cloned());
    all.extend(rw.forms.iter().cloned());
    Some((print_top(&all), rw.files, rw.applied, rw.nested_site))
}

// ---------------------------------------------------------------------------------------------
// fingerprint of the parsed configuration

fn fingerprint(cfg: &kanata_parser::cfg::Cfg) -> Vec<(&'static str, String)> {
    let mut out = vec![];
    let layout = cfg.layout.b();
    let mut s = String::new();
    for (li, layer) in layout.layers.iter().enumerate() {
        for (ri, row) in layer.iter().enumerate() {
            for (ci, a) in row.iter().enumerate() {
                use kanata_keyberon::action::Action;
                if matches!(a, Action::Trans | Action::NoOp) && li > 1 {
                    // dense default cells: keep the rendering short
                    if matches!(a, Action::Trans) {
                        continue;
                    }
                }
                s.push_str(&format!("{li}.{ri}.{ci}:{a:?};"));
            }
        }
    }
    out.push(("layers", s));
    let mut ko: Vec<String> = vec![];
    for (li, m) in cfg.key_outputs.iter().enumerate() {
        let mut v: Vec<String> = m.iter().map(|(k, o)| format!("{li}:{k:?}->{o:?}")).collect();
        v.sort();
        ko.extend(v);
    }
    out.push(("key_outputs", ko.join(";")));
    let mut mk: Vec<String> = cfg.mapped_keys.iter().map(|k| format!("{k:?}")).collect();
    mk.sort();
    out.push(("mapped_keys", mk.join(",")));
    out.push(("overrides", format!("{:?}", cfg.overrides)));
    out.push(("sequences", format!("{:?}", cfg.sequences)));
    out.push(("options", format!("{:?}", cfg.options)));
    let mut fk: Vec<String> = cfg.fake_keys.iter().map(|(k, v)| format!("{k}={v}")).collect();
    fk.sort();
    out.push(("virtual_keys", fk.join(",")));
    out.push(("switch_max_key_timing", format!("{}", cfg.switch_max_key_timing)));
    out.push(("layer_names", cfg.layer_info.iter().map(|l| l.name.clone()).collect::<Vec<_>>().join(",")));
    out.push(("chords_v2", format!("{:?}", layout.chords_v2.as_ref().map(|c| format!("{:?}", c.chords())))));
    out
}

fn judge_case(c: &TCase) -> Verdict {
    let fc = |v: &Vec<(String, String)>| -> rustc_hash::FxHashMap<String, String> { v.iter().cloned().collect() };
    let r1 = kanata_parser::cfg::new_from_str(&c.cfg, fc(&c.files));
    let r2 = kanata_parser::cfg::new_from_str(&c.cfg2, fc(&c.files2));
    let describe = || format!("rewrites: {:?}\n--- original\n{}--- rewritten\n{}{}", c.rewrites, c.cfg, c.cfg2, c.files2.iter().map(|(n, t)| format!("--- file {n}\n{t}")).collect::<String>());
    let mut v = Verdict::pass(false);
    for r in &c.rewrites {
        v.classes.push(match r.as_str() {
            "alias" => "rw:alias",
            "alias-in-defalias" => "rw:alias-in-defalias",
            "var" => "rw:var",
            "var-concat" => "rw:var-concat",
            "var-chained" => "rw:var-chained",
            "var-list" => "rw:var-list",
            "var-list-chained" => "rw:var-list-chained",
            "template" => "rw:template",
            "template-if-equal" => "rw:template-if-equal",
            "template-list-arg" => "rw:template-list-arg",
            "template-nested-conditional" => "rw:template-nested-conditional",
            "template-adjacent-conditionals" => "rw:template-adjacent-conditionals",
            "include" => "rw:include",
            "include-quoted" => "rw:include-quoted",
            "deflayermap-wildcard" => "rw:deflayermap-wildcard",
            "platform" => "rw:platform",
            _ => "rw:deflayermap",
        });
    }
    v.classes.sort();
    v.classes.dedup();
    let kinds: std::collections::BTreeSet<&str> = c.rewrites.iter().map(|r| r.split('-').next().unwrap_or("")).collect();
    match (r1, r2) {
        (Err(_), Err(_)) => {
            v.classes.push("both-rejected");
            v.nontrivial = kinds.len() >= 2;
            v
        }
        (Ok(_), Err(e)) => Verdict::failed("abstraction:rewritten-config-rejected", format!("{}\nerror: {}", describe(), short_err(&e))),
        (Err(e), Ok(_)) => Verdict::failed("abstraction:rewrite-makes-invalid-config-accepted", format!("{}\nerror of the original: {}", describe(), short_err(&e))),
        (Ok(a), Ok(b)) => {
            v.classes.push("both-accepted");
            let fa = fingerprint(&a);
            let fb = fingerprint(&b);
            for ((name, x), (_, y)) in fa.iter().zip(fb.iter()) {
                if x != y {
                    let at = x.bytes().zip(y.bytes()).position(|(p, q)| p != q).unwrap_or(x.len().min(y.len()));
                    let lo = at.saturating_sub(120);
                    let cut = |s: &str| -> String { s.chars().skip(s[..lo.min(s.len())].chars().count()).take(400).collect() };
                    return Verdict::failed(
                        match *name {
                            "layers" => "abstraction:layers-differ",
                            "key_outputs" => "abstraction:key-outputs-differ",
                            "mapped_keys" => "abstraction:mapped-keys-differ",
                            "overrides" => "abstraction:overrides-differ",
                            "sequences" => "abstraction:sequences-differ",
                            "options" => "abstraction:options-differ",
                            _ => "abstraction:tables-differ",
                        },
                        format!("{}\n{name} differ near byte {at}:\n  original : …{}\n  rewritten: …{}", describe(), cut(x), cut(y)),
                    );
                }
            }
            drop(a);
            drop(b);
            // behaviour on histories
            for h in &c.hists {
                let run = |cfg: &str, files: &Vec<(String, String)>| -> Result<Vec<crate::sim::Out>, String> {
                    let mut sim = Sim::new_with_files(cfg, files.iter().cloned().collect())?;
                    for e in h {
                        match e {
                            Ev::Press(k) => sim.press(*k),
                            Ev::Release(k) => sim.release(*k),
                            Ev::Repeat(k) => {
                                sim.repeat(*k);
                            }
                            Ev::Tap(_) => {}
                            Ev::Gap(g) => sim.tick_n(*g as u64),
                        }
                    }
                    sim.tick_n(400);
                    Ok(sim.outs.clone())
                };
                let (oa, ob) = match (run(&c.cfg, &c.files), run(&c.cfg2, &c.files2)) {
                    (Ok(a), Ok(b)) => (a, b),
                    _ => return Verdict::failed("harness:state-machine-rejects-parsed-config", describe()),
                };
                if oa != ob {
                    let i = oa.iter().zip(ob.iter()).position(|(a, b)| a != b).unwrap_or(oa.len().min(ob.len()));
                    let lo = i.saturating_sub(5);
                    return Verdict::failed(
                        "abstraction:behaviour-differs",
                        format!("{}\nhistory: {}\noutputs differ at #{i}:\n  original : {}\n  rewritten: {}", describe(), hist_to_string(h), fmt_outs(&oa[lo..(i + 6).min(oa.len())]), fmt_outs(&ob[lo.min(ob.len())..(i + 6).min(ob.len())])),
                    );
                }
            }
            v.nontrivial = kinds.len() >= 2;
            if kinds.len() >= 2 {
                v.classes.push("two-or-more-rewrite-kinds");
            }
            v
        }
    }
}

fn short_err<E: std::fmt::Debug>(e: &E) -> String {
    let s = format!("{e:?}");
    s.chars().take(400).collect()
}

impl TypedProp for C16 {
    type C = TCase;
    fn id(&self) -> &'static str {
        "C16"
    }
    fn info(&self) -> PropInfo {
        PropInfo {
            level: "exploration",
            rule: "configs: the whole-grammar generator (plausible profile, and the acceptance-boundary profile for the 'accepted iff' direction). Rewrites, 1-6 per case, at sites chosen by the tape: an action (deflayer cell, defalias value, or an action nested in tap-hold / multi / one-shot / tap-dance / fork / switch) named with defalias; an atom or list inside an action (of a deflayer, defalias, defvirtualkeys / deffakekeys, defchords or defchordsv2 entry) named with defvar (directly, through a second variable, built with concat); an action (also a virtual key's) wrapped into a one-parameter deftemplate and expanded with template-expand / t!, with an atom or a list as argument, optionally under a true if-equal and / or with a true if-equal (or a nested pair of them) around an action nested in the body; a top-level form moved into an included file (name bare, quoted, or quoted with a space in it); in a template body a false conditional placed right before a true one in the same list (each of the four kinds if-equal / if-not-equal / if-in-list / if-not-in-list); a top-level form wrapped in (platform (linux ..)); a deflayer expressed as the deflayermap listing every defsrc key, or with `_` standing for its most frequent action. Oracle (metamorphic, both texts through the real parser): acceptance agrees; when accepted the layer tables, key outputs, mapped keys, overrides, sequences, options, virtual keys and chords are identical and three random histories give identical timestamped output. Non-trivial: >= 2 different rewrite kinds applied. Distinct: hash of the case.".into(),
            assumptions: vec!["rewrites are applied only where the documentation allows the construct (variables inside actions, aliases as actions, include/platform at top level)".into()],
            extra: BTreeMap::new(),
        }
    }
    fn plan(&self, tier: Tier) -> Plan {
        Plan {
            n_cases: match tier {
                Tier::Quick => 100_000,
                Tier::Thorough => 3_000_000,
            },
            exhaustive: false,
            distinct_by_construction: false,
            required_classes: vec!["both-accepted", "both-rejected", "rw:alias", "rw:var", "rw:var-list", "rw:template", "rw:template-nested-conditional", "rw:include", "rw:include-quoted", "rw:platform", "rw:deflayermap", "rw:deflayermap-wildcard", "rw:template-adjacent-conditionals", "two-or-more-rewrite-kinds"],
            hang_secs: 60,
        }
    }
    fn gen(&self, _tier: Tier, _seed: u64, _idx: u64) -> Gen<TCase> {
        Gen::Strat(0)
    }
    fn strategy(&self, _tier: Tier, _key: u32) -> BoxedStrategy<TCase> {
        prop::collection::vec(any::<u16>(), 0..500)
            .prop_map(|tape| {
                let mut head = Tape::new(&tape);
                let boundary = head.chance(1, 4);
                let rest = &tape[1.min(tape.len())..];
                let (cfg_tape, rest2) = rest.split_at(rest.len() / 2);
                let (rw_tape, ev_tape) = rest2.split_at(rest2.len() / 2);
                let b = build_cfg(cfg_tape, if boundary { Profile::Boundary } else { Profile::Plausible }, true);
                let mut t = Tape::new(rw_tape);
                let (cfg2, files2, rewrites, _nested) = match rewrite(&b.text, &b.files, &mut t) {
                    Some(r) => r,
                    None => (b.text.clone(), b.files.clone(), vec![], false),
                };
                let mut te = Tape::new(ev_tape);
                let gaps = gap_set(&b, &[50]);
                let mut hists = vec![];
                for _ in 0..3 {
                    hists.push(consistent_events(&mut te, &b, &gaps, 14, true, false));
                }
                TCase {
                    cfg: b.text.clone(),
                    files: b.files.clone(),
                    cfg2,
                    files2,
                    rewrites,
                    hists,
                }
            })
            .boxed()
    }
    fn judge(&self, case: &TCase) -> Verdict {
        judge_case(case)
    }
}
