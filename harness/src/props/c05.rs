//! C05 — Tap-hold: exactly one of tap / hold / timeout, on time (core + tap-hold add-on).
use super::mcase::*;
use crate::engine::*;
use crate::gen::hist::*;
use crate::gen::kc;
use crate::model::*;
use proptest::prelude::*;
use std::collections::BTreeMap;

pub struct C05;

const VARIANTS: [ThVariant; 7] = [
    ThVariant::Plain,
    ThVariant::Press,
    ThVariant::Release,
    ThVariant::PressTimeout,
    ThVariant::ReleaseTimeout,
    ThVariant::ReleaseKeys,
    ThVariant::ExceptKeys,
];

fn k(n: &str) -> Act {
    Act::Key(kc(n))
}

pub fn th_act(variant: ThVariant, hold_layer: bool, h: u16, tt: u16, tapk: &str, holdk: &str) -> Act {
    Act::TapHold(Box::new(TapHold {
        variant,
        tap_timeout: tt,
        hold_timeout: h,
        tap: k(tapk),
        hold: if hold_layer { Act::LayerHeld(1) } else { k(holdk) },
        timeout_act: match variant {
            ThVariant::PressTimeout | ThVariant::ReleaseTimeout => Some(k("t")),
            _ => None,
        },
        keys: match variant {
            ThVariant::ReleaseKeys | ThVariant::ExceptKeys => vec![kc("b")],
            _ => vec![],
        },
    }))
}

/// One tap-hold key `a`, two other keys whose meaning differs on the hold layer.
fn th_cfg(variant: ThVariant, hold_layer: bool, h: u16, tt: u16, conc: bool, p: u16) -> MCfg {
    MCfg {
        src: vec![kc("a"), kc("b"), kc("c")],
        layers: vec![
            vec![th_act(variant, hold_layer, h, tt, "z", "lsft"), k("x"), k("y")],
            vec![Act::Trans, k("1"), k("2")],
        ],
        layer_stack: true,
        delegate: false,
        block_unmapped: false,
        process_unmapped: false,
        concurrent_tap_hold: conc,
        rapid_event_delay: Some(p),
        layermap: 0,
        chords_v2: vec![],
    }
}

/// (H, TT, concurrent, P) parameter tuples.
fn params(tier: Tier) -> Vec<(u16, u16, bool, u16)> {
    match tier {
        Tier::Quick => vec![(3, 0, false, 0), (10, 15, true, 5), (10, 0, false, 5), (3, 15, true, 0)],
        Tier::Thorough => {
            let mut v = vec![];
            for h in [3u16, 10] {
                for tt in [0u16, 15] {
                    for conc in [false, true] {
                        for p in [0u16, 5] {
                            v.push((h, tt, conc, p));
                        }
                    }
                }
            }
            v.push((200, 0, false, 5));
            v.push((200, 15, true, 0));
            v
        }
    }
}

fn exh_cfgs(tier: Tier) -> Vec<MCfg> {
    let mut v = vec![];
    for (h, tt, conc, p) in params(tier) {
        for variant in VARIANTS {
            for hold_layer in [false, true] {
                v.push(th_cfg(variant, hold_layer, h, tt, conc, p));
            }
        }
    }
    // with a tap-repress window: the third key does nothing (XX) - it still is "another key"
    for (h, tt, conc, p) in params(tier) {
        if tt == 0 {
            continue;
        }
        for variant in VARIANTS {
            let mut c = th_cfg(variant, false, h, tt, conc, p);
            c.layers[0][2] = Act::XX;
            v.push(c);
        }
    }
    v
}

fn exh_n(tier: Tier) -> u32 {
    match tier {
        Tier::Quick => 4,
        Tier::Thorough => 5,
    }
}

fn h_of(c: &MCfg) -> Vec<u16> {
    let mut v = vec![];
    for a in c.layers.iter().flatten() {
        if let Act::TapHold(t) = a {
            v.push(t.hold_timeout);
        }
    }
    v
}


// ---------------------------------------------------------------------------------------------
// Several tap-holds pending at once: key `a` is a tap-hold, the chords (j k) and (l m) of
// defchordsv2 have tap-hold actions (a chord's action does not go through the input queue, so it
// can start while another decision is pending), z and y are plain keys. Every tap-hold has output
// keys of its own, so an output identifies the decision it belongs to. No reference model here:
// invariants taken from the statement (exactly one outcome per activation, nothing lost, nothing
// typed before a pending decision, original order).

const CONC_OUT: [[&str; 3]; 3] = [["p", "q", "r"], ["s", "t", "u"], ["v", "w", "x"]];

fn conc_th(i: usize, variant: ThVariant, h: u16, tt: u16) -> Act {
    Act::TapHold(Box::new(TapHold {
        variant,
        tap_timeout: tt,
        hold_timeout: h,
        tap: k(CONC_OUT[i][0]),
        hold: k(CONC_OUT[i][1]),
        timeout_act: match variant {
            ThVariant::PressTimeout | ThVariant::ReleaseTimeout => Some(k(CONC_OUT[i][2])),
            _ => None,
        },
        keys: match variant {
            ThVariant::ReleaseKeys | ThVariant::ExceptKeys => vec![kc("z")],
            _ => vec![],
        },
    }))
}

fn concurrent_strategy() -> BoxedStrategy<MCase> {
    let hs = vec![80u16, 150, 300];
    (
        (0usize..7, 0usize..7, 0usize..7),
        (prop::sample::select(hs.clone()), prop::sample::select(hs.clone()), prop::sample::select(hs)),
        prop::sample::select(vec![0u16, 15]),
        prop::collection::vec((any::<u16>(), any::<u16>(), any::<u16>()), 2..14),
    )
        .prop_map(|((v1, v2, v3), (h1, h2, h3), tt, steps)| {
            let names = ["a", "j", "k", "l", "m", "z", "y"];
            let src: Vec<u16> = names.iter().map(|n| kc(n)).collect();
            let mut layer: Vec<Act> = names.iter().map(|n| k(n)).collect();
            layer[0] = conc_th(0, VARIANTS[v1], h1, tt);
            let cfg = MCfg {
                src,
                layers: vec![layer],
                layer_stack: true,
                delegate: false,
                block_unmapped: false,
                process_unmapped: false,
                concurrent_tap_hold: true,
                rapid_event_delay: None,
                layermap: 0,
                chords_v2: vec![
                    (vec![kc("j"), kc("k")], conc_th(1, VARIANTS[v2], h2, tt)),
                    (vec![kc("l"), kc("m")], conc_th(2, VARIANTS[v3], h3, tt)),
                ],
            };
            // units: 0 = a, 1 = block (j k), 2 = block (l m), 3 = z, 4 = y; each step toggles one
            let gaps = [0u32, 1, 6, 10, 30, 60, 70, 100, 160, 310];
            let mut down = [false; 5];
            let mut last_release: [Option<u64>; 3] = [None; 3];
            let mut hist = vec![];
            let toggle = |u: usize, down: &mut [bool; 5], inner: u16, hist: &mut Vec<Ev>| {
                let keys: Vec<u16> = match u {
                    0 => vec![kc("a")],
                    1 => vec![kc("j"), kc("k")],
                    2 => vec![kc("l"), kc("m")],
                    3 => vec![kc("z")],
                    _ => vec![kc("y")],
                };
                let keys: Vec<u16> = if inner & 1 == 1 { keys.into_iter().rev().collect() } else { keys };
                for (i, key) in keys.iter().enumerate() {
                    if i > 0 {
                        // the keys of a block follow each other within 0-3 ms, nothing in between
                        let g = ((inner >> 1) % 4) as u32;
                        if g > 0 {
                            hist.push(Ev::Gap(g));
                        }
                    }
                    hist.push(if down[u] { Ev::Release(*key) } else { Ev::Press(*key) });
                }
                down[u] = !down[u];
            };
            for (us, gs, inner) in steps {
                let mut u = [0usize, 1, 2, 3, 4, 0, 1, 2, 3][pick(us, 9)];
                // each chord is activated at most once: the press of a chord's action bypasses the
                // input queue while its release goes through it, so two activations of one chord
                // can legitimately hold the same output key at once and show as one press
                if (u == 1 || u == 2) && !down[u] && last_release[u].is_some() {
                    u = 3;
                }
                let mut g = gaps[pick(gs, gaps.len())];
                if u == 1 || u == 2 {
                    // chords are not pressed or released in the same instant as other input
                    // (what chords v2 does with zero-time re-presses is C09's subject)
                    g = g.max(10);
                }
                let now: u64 = hist.iter().map(|e| if let Ev::Gap(x) = e { *x as u64 } else { 0 }).sum();
                if u <= 2 && !down[u] {
                    // the same tap-hold is not started again before the output of its previous
                    // outcome has certainly been released (two holders of one output key would
                    // show as a single press at the OS)
                    if let Some(r) = last_release[u] {
                        g = g.max((r + 40).saturating_sub(now) as u32);
                    }
                }
                if g > 0 {
                    hist.push(Ev::Gap(g));
                }
                if u <= 2 && down[u] {
                    last_release[u] = Some(now + g as u64 + 3);
                }
                toggle(u, &mut down, inner, &mut hist);
            }
            for u in 0..5 {
                if down[u] {
                    hist.push(Ev::Gap(7));
                    toggle(u, &mut down, 0, &mut hist);
                }
            }
            MCase { cfg, hist }
        })
        .boxed()
}

fn judge_concurrent(case: &MCase) -> Verdict {
    use crate::gen::print_cfg;
    use crate::sim::{OutEv, Sim};
    let text = print_cfg(&case.cfg);
    let mut sim = match Sim::new(&text) {
        Ok(s) => s,
        Err(e) => return Verdict::failed("harness:config-rejected", format!("{text}\n{e}")),
    };
    // input times
    let mut t = 0u64;
    let mut a_presses: Vec<u64> = vec![];
    let mut block_done: [Vec<u64>; 2] = [vec![], vec![]]; // time of the second press of each block
    let mut plain: Vec<(u64, u16)> = vec![];
    let (ka, kj, kk, kl, km, kz, ky) = (kc("a"), kc("j"), kc("k"), kc("l"), kc("m"), kc("z"), kc("y"));
    let mut half: [bool; 2] = [false, false];
    for e in &case.hist {
        match e {
            Ev::Gap(g) => {
                sim.tick_n(*g as u64);
                t += *g as u64;
            }
            Ev::Press(key) => {
                sim.press(*key);
                if *key == ka {
                    a_presses.push(t);
                } else if *key == kz || *key == ky {
                    plain.push((t, *key));
                } else {
                    let b = if *key == kj || *key == kk { 0 } else { 1 };
                    if half[b] {
                        block_done[b].push(t);
                    }
                    half[b] = !half[b];
                }
            }
            Ev::Release(key) => sim.release(*key),
            _ => return Verdict::discard("event-kind"),
        }
    }
    let hmax = 300u64;
    sim.tick_n(2 * hmax + 400);
    let outs = sim.outs.clone();
    let downs: Vec<u16> = outs.iter().filter_map(|o| if let OutEv::Down(c) = o.ev { Some(c) } else { None }).collect();
    let cnt = |name: &str| downs.iter().filter(|c| **c == kc(name)).count();
    let mut v = Verdict::pass(false);
    let fail = |sig: &str, what: String| -> Verdict {
        Verdict::failed(sig, format!("{text}{}\n{what}\noutput: {}", hist_to_string(&case.hist), crate::sim::fmt_outs(&outs)))
    };
    if sim.k.layout.b().queue.len() >= 30 {
        return Verdict::discard("pending>=32");
    }
    // exactly one outcome per activation
    let a_out = cnt("p") + cnt("q") + cnt("r");
    if a_out != a_presses.len() {
        return fail("concurrent:outcomes-per-press", format!("key a was pressed {} times, its tap/hold/timeout outputs appear {} times", a_presses.len(), a_out));
    }
    let mut all_fired = true;
    for (b, (o, ks)) in [(CONC_OUT[1], ["j", "k"]), (CONC_OUT[2], ["l", "m"])].iter().enumerate() {
        let fired = cnt(o[0]) + cnt(o[1]) + cnt(o[2]);
        let (p1, p2) = (cnt(ks[0]), cnt(ks[1]));
        if p1 != p2 || fired + p1 != block_done[b].len() {
            return fail(
                "concurrent:outcomes-per-chord",
                format!("chord ({} {}) was pressed {} times: its tap/hold/timeout outputs appear {fired} times, the keys themselves {p1} and {p2} times", ks[0], ks[1], block_done[b].len()),
            );
        }
        if p1 > 0 {
            all_fired = false;
        }
    }
    // plain keys: none lost, original order
    let plain_out: Vec<u16> = downs.iter().copied().filter(|c| *c == kz || *c == ky).collect();
    let plain_in: Vec<u16> = plain.iter().map(|(_, c)| *c).collect();
    if plain_out != plain_in {
        return fail("concurrent:plain-keys-lost-or-reordered", format!("pressed {:?}, typed {:?}", plain_in.iter().map(|c| crate::gen::kname(*c)).collect::<Vec<_>>(), plain_out.iter().map(|c| crate::gen::kname(*c)).collect::<Vec<_>>()));
    }
    // nothing typed before a decision that was pending when it was pressed: the n-th outcome of a
    // tap-hold precedes every plain key pressed after its n-th activation
    let pos_of = |names: &[&str], n: usize| -> Option<usize> {
        let codes: Vec<u16> = names.iter().map(|x| kc(x)).collect();
        outs.iter().enumerate().filter(|(_, o)| matches!(o.ev, OutEv::Down(c) if codes.contains(&c))).map(|(i, _)| i).nth(n)
    };
    let plain_pos: Vec<usize> = outs.iter().enumerate().filter(|(_, o)| matches!(o.ev, OutEv::Down(c) if c == kz || c == ky)).map(|(i, _)| i).collect();
    let mut ordered_pairs = 0;
    for (n, t0) in a_presses.iter().enumerate() {
        let Some(po) = pos_of(&CONC_OUT[0], n) else { continue };
        for (i, (tz, _)) in plain.iter().enumerate() {
            if tz > t0 {
                ordered_pairs += 1;
                if plain_pos[i] < po {
                    return fail("concurrent:typed-before-decision", format!("plain key #{i} (pressed at {tz}) is typed before the outcome of press #{n} of a (at {t0})"));
                }
            }
        }
    }
    if all_fired {
        for b in 0..2 {
            for (n, tk) in block_done[b].iter().enumerate() {
                let Some(po) = pos_of(&CONC_OUT[b + 1], n) else { continue };
                for (i, (tz, _)) in plain.iter().enumerate() {
                    // the chord has certainly started its action 60 ms after its last press
                    if *tz >= tk + 60 {
                        ordered_pairs += 1;
                        if plain_pos[i] < po {
                            return fail("concurrent:typed-before-decision", format!("plain key #{i} (pressed at {tz}) is typed before the outcome of chord {} activation #{n} (complete at {tk})", b + 1));
                        }
                    }
                }
            }
        }
    }
    let mut os = crate::sim::OsState::default();
    for o in &outs {
        os.apply(o);
    }
    if os.anything_down() {
        return fail("concurrent:key-left-down", format!("{:?}", os.keys));
    }
    v.classes.push("concurrent");
    if all_fired && !block_done[0].is_empty() && !block_done[1].is_empty() && !a_presses.is_empty() {
        v.classes.push("concurrent:three-tap-holds");
    }
    if ordered_pairs > 0 {
        v.classes.push("concurrent:ordered-pairs");
    }
    v.nontrivial = ordered_pairs > 0;
    v
}

impl TypedProp for C05 {
    type C = MCase;
    fn id(&self) -> &'static str {
        "C05"
    }
    fn info(&self) -> PropInfo {
        PropInfo {
            level: "exploration",
            rule: "exhaustive part: for each tap-hold config (7 variants x hold=key|layer-while-held x parameter tuples (H, tap-repress window, concurrent-tap-hold, rapid-event-delay); with a tap-repress window also with the third key mapped to XX) every toggle schedule of 1..N events over the tap-hold key and two other keys with inter-event gaps from {0,1,H-1,H,H+1}; random part: two tap-hold keys of random variants interleaved with a third key, histories up to 30 events; a quarter of the random part has several decisions pending at once: key a is a tap-hold and two defchordsv2 chords have tap-hold actions (a chord's action starts without passing the input queue), each with output keys of its own, random variants and timeouts 80/150/300, plain keys z y, histories of 2-14 toggles (each chord activated at most once, chord keys within 0-3 ms of each other). Oracle: reference model (decision kind, decision tick, complete timestamped output); for the several-pending scenario invariants instead of a model: exactly one tap/hold/timeout output per activation (or the chord's keys themselves), plain keys typed exactly once in their original order, the outcome of an activation precedes every plain key pressed after it (60 ms after a chord's last press), nothing left down. Non-trivial: the decision was taken while >= 1 other event was buffered, or a gap of H-1/H/H+1 occurs in the history. Distinct: hash of (config, history).",
            assumptions: vec![
                "fewer than 32 events pending".into(),
                "pinned tick conventions of DESIGN.md Appendix A.2 (hold fires when H ticks elapsed since the press was dequeued; H-since with concurrent-tap-hold)".into(),
            ],
            extra: BTreeMap::new(),
        }
    }
    fn plan(&self, tier: Tier) -> Plan {
        let s = n_schedules(3, 5, exh_n(tier));
        let ncfg = exh_cfgs(tier).len() as u64;
        let random = match tier {
            Tier::Quick => 150_000,
            Tier::Thorough => 3_000_000,
        };
        Plan {
            n_cases: ncfg * s + random,
            exhaustive: false,
            distinct_by_construction: false,
            required_classes: vec![
                "decision:tap", "decision:hold", "decision:timeout", "decision:quicktap", "buffered>=1", "random",
                "exhaustive", "buffered>=2", "concurrent", "concurrent:three-tap-holds", "concurrent:ordered-pairs",
            ],
            hang_secs: 60,
        }
    }
    fn gen(&self, tier: Tier, _seed: u64, idx: u64) -> Gen<MCase> {
        let s = n_schedules(3, 5, exh_n(tier));
        thread_local! {
            static CFGS: std::cell::RefCell<Option<(Tier, Vec<MCfg>)>> = const { std::cell::RefCell::new(None) };
        }
        let cfg = CFGS.with(|c| {
            let mut c = c.borrow_mut();
            if c.as_ref().map(|(t, _)| *t != tier).unwrap_or(true) {
                *c = Some((tier, exh_cfgs(tier)));
            }
            c.as_ref().unwrap().1.get((idx / s) as usize).cloned()
        });
        match cfg {
            Some(cfg) => {
                let h = h_of(&cfg)[0] as u32;
                let gaps = [0, 1, h - 1, h, h + 1];
                Gen::Fixed(MCase {
                    hist: schedule(idx % s, &cfg.src, &gaps, exh_n(tier), 1),
                    cfg,
                })
            }
            None => {
                if idx % 4 == 3 {
                    Gen::Strat(1)
                } else {
                    Gen::Strat(0)
                }
            }
        }
    }
    fn strategy(&self, _tier: Tier, key: u32) -> BoxedStrategy<MCase> {
        if key == 1 {
            return concurrent_strategy();
        }
        (
            0usize..7,
            0usize..7,
            any::<bool>(),
            any::<bool>(),
            prop::sample::select(vec![3u16, 7, 10]),
            prop::sample::select(vec![4u16, 10]),
            prop::sample::select(vec![0u16, 15]),
            any::<bool>(),
            prop::sample::select(vec![0u16, 2, 5]),
        )
            .prop_flat_map(|(v1, v2, hl1, hl2, h1, h2, tt, conc, p)| {
                let mut cfg = th_cfg(VARIANTS[v1], hl1, h1, tt, conc, p);
                // second tap-hold key on c (and on layer 1 too when its own hold is a key)
                cfg.layers[0][2] = th_act(VARIANTS[v2], hl2, h2, tt, "w", "lctl");
                cfg.layers[1][2] = Act::Trans;
                let gaps = vec![0, 1, 1, 2, h1 as u32 - 1, h1 as u32, h1 as u32 + 1, h2 as u32 - 1, h2 as u32, h2 as u32 + 1, 30];
                let h = consistent_history(cfg.src.clone(), gaps, 1..30);
                (Just(cfg), h)
            })
            .prop_map(|(cfg, hist)| MCase { cfg, hist })
            .boxed()
    }
    fn judge(&self, case: &MCase) -> Verdict {
        if !case.cfg.chords_v2.is_empty() {
            return judge_concurrent(case);
        }
        let hs = h_of(&case.cfg);
        let hmax = hs.iter().copied().max().unwrap_or(0) as u64;
        let settle = 2 * hmax + 80 + 8 * case.hist.len() as u64;
        let run = match run_pair(case, settle, |_| {}) {
            Ok(r) => r,
            Err(v) => return v,
        };
        if run.max_pending >= 32 {
            return Verdict::discard("pending>=32");
        }
        if let Some(why) = run.out_of_domain {
            return Verdict::discard(why);
        }
        let boundary = case.hist.iter().any(|e| match e {
            Ev::Gap(g) => hs.iter().any(|h| *g + 1 >= *h as u32 && *g <= *h as u32 + 1),
            _ => false,
        });
        let nontrivial = run.buffered_at_decision >= 1 || boundary;
        let mut v = Verdict::pass(nontrivial);
        if let Some(d) = diff_outputs(&run.real, &run.model_out) {
            let variants: Vec<String> = case
                .cfg
                .layers
                .iter()
                .flatten()
                .filter_map(|a| if let Act::TapHold(t) = a { Some(format!("{:?}", t.variant)) } else { None })
                .collect();
            v = Verdict::failed(
                "mismatch:tap-hold-output",
                format!("variants {variants:?}; model decisions {:?}\n{d}", run.decisions),
            );
        } else if !run.model_quiescent {
            return Verdict::failed("harness:model-not-quiescent", "settle bound too short");
        } else if !run.real_idle_at_end {
            v = Verdict::failed("mismatch:not-idle-at-end", "all keys released, model quiescent, but kanata is not idle");
        }
        v.classes.push(if hs.len() == 1 { "exhaustive" } else { "random" });
        for (_, _, d) in &run.decisions {
            v.classes.push(match d {
                Decision::Tap => "decision:tap",
                Decision::Hold => "decision:hold",
                Decision::Timeout => "decision:timeout",
                Decision::QuickTap => "decision:quicktap",
            });
        }
        if run.buffered_at_decision >= 1 {
            v.classes.push("buffered>=1");
        }
        if run.buffered_at_decision >= 2 {
            v.classes.push("buffered>=2");
        }
        if boundary {
            v.classes.push("boundary-gap");
        }
        v
    }
}
