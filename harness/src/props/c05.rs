//! C05 — Tap-hold: exactly one of tap / hold / timeout, on time (core + tap-hold add-on).
use super::mcase::*;
use crate::engine::*;
use crate::gen::hist::*;
use crate::gen::kc;
use crate::model::*;
use proptest::prelude::*;
use std::collections::BTreeMap;

pub struct C05;

const VARIANTS: [ThVariant; 7] = [
    ThVariant::Plain,
    ThVariant::Press,
    ThVariant::Release,
    ThVariant::PressTimeout,
    ThVariant::ReleaseTimeout,
    ThVariant::ReleaseKeys,
    ThVariant::ExceptKeys,
];

fn k(n: &str) -> Act {
    Act::Key(kc(n))
}

pub fn th_act(variant: ThVariant, hold_layer: bool, h: u16, tt: u16, tapk: &str, holdk: &str) -> Act {
    Act::TapHold(Box::new(TapHold {
        variant,
        tap_timeout: tt,
        hold_timeout: h,
        tap: k(tapk),
        hold: if hold_layer { Act::LayerHeld(1) } else { k(holdk) },
        timeout_act: match variant {
            ThVariant::PressTimeout | ThVariant::ReleaseTimeout => Some(k("t")),
            _ => None,
        },
        keys: match variant {
            ThVariant::ReleaseKeys | ThVariant::ExceptKeys => vec![kc("b")],
            _ => vec![],
        },
    }))
}

/// One tap-hold key `a`, two other keys whose meaning differs on the hold layer.
fn th_cfg(variant: ThVariant, hold_layer: bool, h: u16, tt: u16, conc: bool, p: u16) -> MCfg {
    MCfg {
        src: vec![kc("a"), kc("b"), kc("c")],
        layers: vec![
            vec![th_act(variant, hold_layer, h, tt, "z", "lsft"), k("x"), k("y")],
            vec![Act::Trans, k("1"), k("2")],
        ],
        layer_stack: true,
        delegate: false,
        block_unmapped: false,
        process_unmapped: false,
        concurrent_tap_hold: conc,
        rapid_event_delay: Some(p),
    }
}

/// (H, TT, concurrent, P) parameter tuples.
fn params(tier: Tier) -> Vec<(u16, u16, bool, u16)> {
    match tier {
        Tier::Quick => vec![(3, 0, false, 0), (10, 15, true, 5), (10, 0, false, 5), (3, 15, true, 0)],
        Tier::Thorough => {
            let mut v = vec![];
            for h in [3u16, 10] {
                for tt in [0u16, 15] {
                    for conc in [false, true] {
                        for p in [0u16, 5] {
                            v.push((h, tt, conc, p));
                        }
                    }
                }
            }
            v.push((200, 0, false, 5));
            v.push((200, 15, true, 0));
            v
        }
    }
}

fn exh_cfgs(tier: Tier) -> Vec<MCfg> {
    let mut v = vec![];
    for (h, tt, conc, p) in params(tier) {
        for variant in VARIANTS {
            for hold_layer in [false, true] {
                v.push(th_cfg(variant, hold_layer, h, tt, conc, p));
            }
        }
    }
    v
}

fn exh_n(tier: Tier) -> u32 {
    match tier {
        Tier::Quick => 4,
        Tier::Thorough => 5,
    }
}

fn h_of(c: &MCfg) -> Vec<u16> {
    let mut v = vec![];
    for a in c.layers.iter().flatten() {
        if let Act::TapHold(t) = a {
            v.push(t.hold_timeout);
        }
    }
    v
}

impl TypedProp for C05 {
    type C = MCase;
    fn id(&self) -> &'static str {
        "C05"
    }
    fn info(&self) -> PropInfo {
        PropInfo {
            level: "exploration",
            rule: "exhaustive part: for each tap-hold config (7 variants x hold=key|layer-while-held x parameter tuples (H, tap-repress window, concurrent-tap-hold, rapid-event-delay)) every toggle schedule of 1..N events over the tap-hold key and two other keys with inter-event gaps from {0,1,H-1,H,H+1}; random part: two tap-hold keys of random variants interleaved with a third key, histories up to 30 events. Oracle: reference model (decision kind, decision tick, complete timestamped output). Non-trivial: the decision was taken while >= 1 other event was buffered, or a gap of H-1/H/H+1 occurs in the history. Distinct: hash of (config, history).",
            assumptions: vec![
                "fewer than 32 events pending".into(),
                "pinned tick conventions of DESIGN.md Appendix A.2 (hold fires when H ticks elapsed since the press was dequeued; H-since with concurrent-tap-hold)".into(),
            ],
            extra: BTreeMap::new(),
        }
    }
    fn plan(&self, tier: Tier) -> Plan {
        let s = n_schedules(3, 5, exh_n(tier));
        let ncfg = exh_cfgs(tier).len() as u64;
        let random = match tier {
            Tier::Quick => 150_000,
            Tier::Thorough => 3_000_000,
        };
        Plan {
            n_cases: ncfg * s + random,
            exhaustive: false,
            distinct_by_construction: false,
            required_classes: vec![
                "decision:tap", "decision:hold", "decision:timeout", "decision:quicktap", "buffered>=1", "random",
                "exhaustive", "buffered>=2",
            ],
            hang_secs: 60,
        }
    }
    fn gen(&self, tier: Tier, _seed: u64, idx: u64) -> Gen<MCase> {
        let s = n_schedules(3, 5, exh_n(tier));
        thread_local! {
            static CFGS: std::cell::RefCell<Option<(Tier, Vec<MCfg>)>> = const { std::cell::RefCell::new(None) };
        }
        let cfg = CFGS.with(|c| {
            let mut c = c.borrow_mut();
            if c.as_ref().map(|(t, _)| *t != tier).unwrap_or(true) {
                *c = Some((tier, exh_cfgs(tier)));
            }
            c.as_ref().unwrap().1.get((idx / s) as usize).cloned()
        });
        match cfg {
            Some(cfg) => {
                let h = h_of(&cfg)[0] as u32;
                let gaps = [0, 1, h - 1, h, h + 1];
                Gen::Fixed(MCase {
                    hist: schedule(idx % s, &cfg.src, &gaps, exh_n(tier), 1),
                    cfg,
                })
            }
            None => Gen::Strat(0),
        }
    }
    fn strategy(&self, _tier: Tier, _key: u32) -> BoxedStrategy<MCase> {
        (
            0usize..7,
            0usize..7,
            any::<bool>(),
            any::<bool>(),
            prop::sample::select(vec![3u16, 7, 10]),
            prop::sample::select(vec![4u16, 10]),
            prop::sample::select(vec![0u16, 15]),
            any::<bool>(),
            prop::sample::select(vec![0u16, 2, 5]),
        )
            .prop_flat_map(|(v1, v2, hl1, hl2, h1, h2, tt, conc, p)| {
                let mut cfg = th_cfg(VARIANTS[v1], hl1, h1, tt, conc, p);
                // second tap-hold key on c (and on layer 1 too when its own hold is a key)
                cfg.layers[0][2] = th_act(VARIANTS[v2], hl2, h2, tt, "w", "lctl");
                cfg.layers[1][2] = Act::Trans;
                let gaps = vec![0, 1, 1, 2, h1 as u32 - 1, h1 as u32, h1 as u32 + 1, h2 as u32 - 1, h2 as u32, h2 as u32 + 1, 30];
                let h = consistent_history(cfg.src.clone(), gaps, 1..30);
                (Just(cfg), h)
            })
            .prop_map(|(cfg, hist)| MCase { cfg, hist })
            .boxed()
    }
    fn judge(&self, case: &MCase) -> Verdict {
        let hs = h_of(&case.cfg);
        let hmax = hs.iter().copied().max().unwrap_or(0) as u64;
        let settle = 2 * hmax + 80 + 8 * case.hist.len() as u64;
        let run = match run_pair(case, settle, |_| {}) {
            Ok(r) => r,
            Err(v) => return v,
        };
        if run.max_pending >= 32 {
            return Verdict::discard("pending>=32");
        }
        if let Some(why) = run.out_of_domain {
            return Verdict::discard(why);
        }
        let boundary = case.hist.iter().any(|e| match e {
            Ev::Gap(g) => hs.iter().any(|h| *g + 1 >= *h as u32 && *g <= *h as u32 + 1),
            _ => false,
        });
        let nontrivial = run.buffered_at_decision >= 1 || boundary;
        let mut v = Verdict::pass(nontrivial);
        if let Some(d) = diff_outputs(&run.real, &run.model_out) {
            let variants: Vec<String> = case
                .cfg
                .layers
                .iter()
                .flatten()
                .filter_map(|a| if let Act::TapHold(t) = a { Some(format!("{:?}", t.variant)) } else { None })
                .collect();
            v = Verdict::failed(
                "mismatch:tap-hold-output",
                format!("variants {variants:?}; model decisions {:?}\n{d}", run.decisions),
            );
        } else if !run.model_quiescent {
            return Verdict::failed("harness:model-not-quiescent", "settle bound too short");
        } else if !run.real_idle_at_end {
            v = Verdict::failed("mismatch:not-idle-at-end", "all keys released, model quiescent, but kanata is not idle");
        }
        v.classes.push(if hs.len() == 1 { "exhaustive" } else { "random" });
        for (_, _, d) in &run.decisions {
            v.classes.push(match d {
                Decision::Tap => "decision:tap",
                Decision::Hold => "decision:hold",
                Decision::Timeout => "decision:timeout",
                Decision::QuickTap => "decision:quicktap",
            });
        }
        if run.buffered_at_decision >= 1 {
            v.classes.push("buffered>=1");
        }
        if run.buffered_at_decision >= 2 {
            v.classes.push("buffered>=2");
        }
        if boundary {
            v.classes.push("boundary-gap");
        }
        v
    }
}
