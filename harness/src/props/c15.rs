//! C15 — Live reload is all-or-nothing: failure keeps the old config, success = restart.
//!
//! The real `Kanata::start_processing_loop` thread is run on configuration files in a scratch
//! directory, with simulated output, and fed real-time key events. Between reload requests the
//! active configuration is probed by typing (time-insensitive mappings only, events 8 ms apart).
//! Oracle: a reference model of "which file content is active" (unchanged by a failed reload,
//! replaced by a successful one once no output key is down), the probe outputs predicted from
//! that content by a fresh deterministic instance, and the client notifications.
use crate::engine::*;
use crate::sim::{code_of, fmt_outs, parse_out, Out, OutEv, Sim};
use kanata_state_machine::oskbd::{KeyEvent, KeyValue};
use kanata_state_machine::{Kanata, OsCode, ValidatedArgs};
use proptest::prelude::*;
use serde_json::{json, Value};
use std::collections::BTreeMap;
use std::path::PathBuf;
use std::sync::atomic::{AtomicU64, Ordering};

pub struct C15;

/// content of a configuration file
#[derive(Clone, Copy, Debug, PartialEq, Eq, Hash)]
pub enum Content {
    /// a valid configuration of the family, variant 0-7
    Valid(u8),
    /// unbalanced parenthesis
    BrokenSyntax,
    /// parses as s-expressions but is rejected (unknown action)
    Rejected,
    Missing,
    /// a directory in place of the file
    Unreadable,
}

#[derive(Clone, Copy, Debug, PartialEq, Eq, Hash)]
pub enum Step {
    /// rewrite file i with new content (done while kanata runs)
    Write(u8, Content),
    /// tap a reload key: 0 lrld, 1 lrld-next, 2 lrld-prev, 3.. lrld-num (n-2)
    Reload(u8),
    /// tap the reload key while key `a` is held, probe, then release `a`
    ReloadWhileHeld(u8),
    /// two taps of lrld right after each other
    ReloadTwice,
    /// request while another layer is active: 0 the layer-while-held key is held (released
    /// afterwards), 1 after a layer-switch (switched back afterwards if the reload failed)
    ReloadOnOtherLayer(u8, u8),
    /// something going on right before the request: 0 layer key tapped, 1 one-shot tapped, 2 macro started
    Busy(u8),
    Probe,
    /// tap (lrld-num 4) with three files on the command line
    ReloadNumOutOfRange,
}

#[derive(Clone, Debug, PartialEq, Eq, Hash)]
pub struct LCase {
    /// initial contents of the 3 files given on the command line (the first must be valid)
    pub files: Vec<Content>,
    pub steps: Vec<Step>,
}

/// Valid configurations: same defsrc, different outputs, different first-layer names.
/// Variants 4-7 are variants 0-3 with a zippychord dictionary (one chord, q+r).
fn valid_text(v: u8) -> String {
    let zip = v % 8 >= 4;
    let v = v % 4;
    let (o1, o2, o3) = OUTS[v as usize];
    let z = if zip { format!("(defzippy zippy{v}.txt on-first-press-chord-deadline 500 idle-reactivate-time 50)\n") } else { String::new() };
    // an override of the output chord of key k; odd variants release it on activation
    let z = format!("{z}(defoverrides (lsft {o1}) ({o3}))\n");
    let opt = if v % 2 == 1 { " override-release-on-activation yes" } else { "" };
    // dynamic macros: the recording limit differs between the variants
    let limit = 3 + v;
    format!(
        "(defcfg log-layer-changes no{opt} dynamic-macro-max-presses {limit})\n(deflocalkeys-linux lkany 200)\n(defsrc a b c d e f g h i j k l q r m n o p)\n{z}(deflayer base{v} {o1} (layer-while-held nav) (one-shot 60 lsft) lrld lrld-next lrld-prev (lrld-num 1) (lrld-num 2) (lrld-num 3) (macro {o3} 20 {o3}) S-{o1} (layer-switch nav) _ _ (lrld-num 4) (dynamic-macro-record 0) dynamic-macro-record-stop (dynamic-macro-play 0))\n(deflayer nav {o2} _ _ lrld lrld-next lrld-prev (lrld-num 1) (lrld-num 2) (lrld-num 3) _ _ (layer-switch base{v}) _ _ _ _ _ _)\n"
    )
}
const OUTS: [(&str, &str, &str); 4] = [("x", "1", "m"), ("y", "2", "n"), ("z", "3", "o"), ("w", "4", "p")];
/// the dictionary file of variant 4 + v
fn zippy_file(v: u8) -> (String, String) {
    let (o1, _, o3) = OUTS[v as usize % 4];
    (format!("zippy{}.txt", v % 4), format!("qr\t{o1}{o3}{o1}\n"))
}

fn content_json(c: &Content) -> Value {
    match c {
        Content::Valid(v) => json!({"valid": v}),
        Content::BrokenSyntax => json!("broken-syntax"),
        Content::Rejected => json!("rejected"),
        Content::Missing => json!("missing"),
        Content::Unreadable => json!("unreadable"),
    }
}
fn content_from(v: &Value) -> Option<Content> {
    if let Some(s) = v.as_str() {
        return Some(match s {
            "broken-syntax" => Content::BrokenSyntax,
            "rejected" => Content::Rejected,
            "missing" => Content::Missing,
            "unreadable" => Content::Unreadable,
            _ => return None,
        });
    }
    Some(Content::Valid(v["valid"].as_u64()? as u8))
}

impl Case for LCase {
    fn to_json(&self) -> Value {
        json!({"files": self.files.iter().map(content_json).collect::<Vec<_>>(),
            "steps": self.steps.iter().map(|s| match s {
                Step::Write(i, c) => json!({"write": [i, content_json(c)]}),
                Step::Reload(k) => json!({"reload": k}),
                Step::ReloadWhileHeld(k) => json!({"reload-while-held": k}),
                Step::ReloadTwice => json!("reload-twice"),
                Step::ReloadOnOtherLayer(how, k) => json!({"reload-on-other-layer": [how, k]}),
                Step::Busy(k) => json!({"busy": k}),
                Step::Probe => json!("probe"),
                Step::ReloadNumOutOfRange => json!("reload-num-out-of-range"),
            }).collect::<Vec<_>>(),
            "valid_config_family": valid_text(0)})
    }
    fn from_json(v: &Value) -> Option<Self> {
        let mut steps = vec![];
        for s in v["steps"].as_array()? {
            if let Some(t) = s.as_str() {
                steps.push(match t {
                    "reload-twice" => Step::ReloadTwice,
                    "probe" => Step::Probe,
                    "reload-num-out-of-range" => Step::ReloadNumOutOfRange,
                    _ => return None,
                });
                continue;
            }
            let o = s.as_object()?;
            let (k, val) = o.iter().next()?;
            steps.push(match k.as_str() {
                "write" => Step::Write(val[0].as_u64()? as u8, content_from(&val[1])?),
                "reload" => Step::Reload(val.as_u64()? as u8),
                "reload-while-held" => Step::ReloadWhileHeld(val.as_u64()? as u8),
                "busy" => Step::Busy(val.as_u64()? as u8),
                "reload-on-other-layer" => Step::ReloadOnOtherLayer(val[0].as_u64()? as u8, val[1].as_u64()? as u8),
                _ => return None,
            });
        }
        Some(LCase {
            files: v["files"].as_array()?.iter().map(content_from).collect::<Option<Vec<_>>>()?,
            steps,
        })
    }
    fn canon_hash(&self) -> u64 {
        use std::hash::{Hash, Hasher};
        let mut h = rustc_hash::FxHasher::default();
        self.hash(&mut h);
        h.finish()
    }
}

static CASE_NO: AtomicU64 = AtomicU64::new(0);

fn write_file(dir: &PathBuf, i: usize, c: &Content) {
    let p = dir.join(format!("cfg{i}.kbd"));
    let _ = std::fs::remove_file(&p);
    let _ = std::fs::remove_dir_all(&p);
    match c {
        Content::Valid(v) => std::fs::write(&p, valid_text(*v)).expect("write scratch config"),
        Content::BrokenSyntax => std::fs::write(&p, format!("{}(deflayer oops", valid_text(0))).expect("write scratch config"),
        // rejected by the parser: an unknown action (file 0 and 2), or (file 1) a key name that only the
        // valid configurations define with deflocalkeys - a freshly started kanata does not know it
        Content::Rejected if i == 1 => std::fs::write(&p, valid_text(0).replace("(deflocalkeys-linux lkany 200)\n", "").replace("(one-shot 60 lsft)", "lkany")).expect("write scratch config"),
        Content::Rejected => std::fs::write(&p, valid_text(0).replace("(one-shot 60 lsft)", "(no-such-action 1)")).expect("write scratch config"),
        Content::Missing => {}
        Content::Unreadable => std::fs::create_dir_all(&p).expect("scratch dir"),
    }
}

pub struct Live {
    pub k: std::sync::Arc<parking_lot::Mutex<Kanata>>,
    pub tx: std::sync::mpsc::SyncSender<KeyEvent>,
    pub srv_rx: std::sync::mpsc::Receiver<kanata_tcp_protocol::ServerMessage>,
    pub outs: Vec<Out>,
    /// time stretch: 1 normally, larger for the confirmation run
    pub mult: u64,
}

impl Live {
    /// Start the real processing loop on the given configuration files.
    pub fn start(paths: Vec<PathBuf>, mult: u64) -> Result<Live, String> {
        let args = ValidatedArgs {
            paths,
            tcp_server_address: None,
            symlink_path: None,
            nodelay: true,
        };
        let k = Kanata::new_arc(&args).map_err(|e| format!("{e:?}"))?;
        let (tx, rx) = std::sync::mpsc::sync_channel::<KeyEvent>(100);
        let (srv_tx, srv_rx) = std::sync::mpsc::sync_channel(100);
        Kanata::start_processing_loop(k.clone(), rx, Some(srv_tx), true);
        Ok(Live { k, tx, srv_rx, outs: vec![], mult })
    }
    pub fn send_code(&mut self, code: u16, press: bool, then_ms: u64) {
        let code = OsCode::from_u16(code).expect("key");
        let _ = self.tx.send(KeyEvent { code, value: if press { KeyValue::Press } else { KeyValue::Release } });
        if then_ms > 0 {
            std::thread::sleep(std::time::Duration::from_millis(then_ms * self.mult));
        }
    }
    /// wait until no more output arrives for 2 x 25 ms (at most 1 s), return everything new
    pub fn settle(&mut self) -> Vec<Out> {
        let mut all = vec![];
        let mut quiet = 0;
        for _ in 0..40 {
            self.wait(25);
            let new = self.drain();
            if new.is_empty() {
                quiet += 1;
                if quiet >= 2 {
                    break;
                }
            } else {
                quiet = 0;
                all.extend(new);
            }
        }
        all
    }
    fn send(&mut self, key: &str, press: bool) {
        let code = OsCode::from_u16(code_of(key)).expect("key");
        let _ = self.tx.send(KeyEvent { code, value: if press { KeyValue::Press } else { KeyValue::Release } });
        std::thread::sleep(std::time::Duration::from_millis(8 * self.mult));
    }
    fn tap(&mut self, key: &str) {
        self.send(key, true);
        self.send(key, false);
    }
    pub fn wait(&self, ms: u64) {
        std::thread::sleep(std::time::Duration::from_millis(ms * self.mult));
    }
    /// collect the output produced so far; returns the new part
    pub fn drain(&mut self) -> Vec<Out> {
        let mut k = self.k.lock();
        let mut new = vec![];
        for s in k.kbd_out.outputs.events.drain(..) {
            if let Some(ev) = parse_out(&s) {
                new.push(Out { t: 0, ev, direct: false });
            }
        }
        self.outs.extend(new.iter().cloned());
        new
    }
    fn notifications(&mut self) -> Vec<String> {
        let mut v = vec![];
        while let Ok(m) = self.srv_rx.try_recv() {
            v.push(match m {
                kanata_tcp_protocol::ServerMessage::ConfigFileReload { new } => format!("reload:{}", new.rsplit('/').next().unwrap_or("").to_string()),
                kanata_tcp_protocol::ServerMessage::LayerChange { new } => format!("layer:{new}"),
                other => format!("{other:?}"),
            });
        }
        v
    }
}

/// The reload-related part of the notifications: every ConfigFileReload with the message that
/// directly follows it. (LayerChange messages of earlier layer switches may still be arriving.)
fn reload_notes(notes: &[String]) -> Vec<String> {
    let mut out = vec![];
    let mut i = 0;
    while i < notes.len() {
        if notes[i].starts_with("reload:") {
            out.push(notes[i].clone());
            if let Some(n) = notes.get(i + 1) {
                out.push(n.clone());
            }
            i += 2;
        } else {
            i += 1;
        }
    }
    out
}

/// The probe (PROBE): a key held with OS repeats, a dynamic macro of seven taps recorded and played (the recording limit differs between the variants); q+r together (a zippychord chord in variants 4-7); tap a; hold b (layer) and tap a; tap k (output chord, overridden); hold k and tap a (tells override-release-on-activation). Returns the key presses seen.
/// (key, 0 release / 1 press / 2 OS repeat)
const PROBE: [(&str, u8); 38] = [
    ("q", 1), ("r", 1), ("q", 0), ("r", 0),
    // a key held with OS repeats
    ("a", 1), ("a", 2), ("a", 2), ("a", 0),
    ("b", 1), ("a", 1), ("a", 0), ("b", 0),
    ("k", 1), ("k", 0), ("k", 1), ("a", 1), ("a", 0), ("k", 0),
    // a dynamic macro of seven taps recorded and played: the recording limit shows
    ("n", 1), ("n", 0),
    ("a", 1), ("a", 0), ("a", 1), ("a", 0), ("a", 1), ("a", 0), ("a", 1), ("a", 0), ("a", 1), ("a", 0), ("a", 1), ("a", 0), ("a", 1), ("a", 0),
    ("o", 1), ("o", 0), ("p", 1), ("p", 0),
];
fn probe(l: &mut Live) -> Vec<String> {
    l.drain();
    for (key, kind) in PROBE.iter() {
        let code = OsCode::from_u16(code_of(key)).expect("key");
        let value = match kind {
            0 => KeyValue::Release,
            1 => KeyValue::Press,
            _ => KeyValue::Repeat,
        };
        let _ = l.tx.send(KeyEvent { code, value });
        std::thread::sleep(std::time::Duration::from_millis(8 * l.mult));
    }
    // until no more output arrives for 25 ms (at most 1 s)
    let mut all = vec![];
    let mut quiet = 0;
    for _ in 0..40 {
        l.wait(25);
        let new = l.drain();
        if new.is_empty() {
            quiet += 1;
            if quiet >= 2 && !all.is_empty() {
                break;
            }
        } else {
            quiet = 0;
            all.extend(new);
        }
    }
    seq(&all)
}
fn seq(o: &[Out]) -> Vec<String> {
    o.iter()
        .map(|x| match &x.ev {
            OutEv::Down(k) => format!("↓{}", crate::sim::out_name(*k)),
            OutEv::Up(k) => format!("↑{}", crate::sim::out_name(*k)),
            other => format!("{other:?}"),
        })
        .collect()
}
/// what a freshly started instance of the given content answers to the probe. Computed for all
/// variants before the first real-thread instance starts: the zippychord state is global to the
/// process, a second instance would reconfigure it under the running one.
fn fresh_probe(v: u8) -> Vec<String> {
    static FRESH: std::sync::OnceLock<Vec<Vec<String>>> = std::sync::OnceLock::new();
    FRESH.get_or_init(|| (0u8..8).map(fresh_probe_compute).collect())[v as usize % 8].clone()
}
fn fresh_probe_compute(v: u8) -> Vec<String> {
    let files: std::collections::HashMap<String, String> = (0u8..4).map(zippy_file).collect();
    let mut s = Sim::new_with_files(&valid_text(v), files).expect("family config parses");
    for (key, kind) in PROBE.iter() {
        match kind {
            0 => s.release(code_of(key)),
            1 => s.press(code_of(key)),
            _ => {
                s.repeat(code_of(key));
            }
        }
        s.tick_n(8);
    }
    s.tick_n(400);
    seq(&s.outs)
}

fn judge_case(c: &LCase) -> Verdict {
    // real time: a mismatch has to show again with everything three times, then ten times
    // slower (a genuine defect is deterministic; a scheduling hiccup on a loaded machine is not)
    let mut last = judge_once(c, 1);
    for mult in [3u64, 10] {
        match &last.fail {
            Some(f) if !f.sig.starts_with("panic:") && !f.sig.starts_with("harness:") => {
                let mut next = judge_once(c, mult);
                if next.fail.is_none() {
                    next.classes.push("passed-on-slower-rerun");
                }
                last = next;
            }
            _ => break,
        }
    }
    last
}

fn judge_once(c: &LCase, mult: u64) -> Verdict {
    let Some(Content::Valid(v0)) = c.files.first().copied() else {
        return Verdict::discard("first-file-must-be-valid");
    };
    if c.files.len() != 3 {
        return Verdict::discard("three-files");
    }
    let n = CASE_NO.fetch_add(1, Ordering::SeqCst);
    let dir = verif_dir().join("work").join("c15").join(format!("{}-{n}", std::process::id()));
    let _ = std::fs::remove_dir_all(&dir);
    std::fs::create_dir_all(&dir).expect("scratch dir");
    for (i, f) in c.files.iter().enumerate() {
        write_file(&dir, i, f);
    }
    for z in 0u8..4 {
        let (name, text) = zippy_file(z);
        std::fs::write(dir.join(name), text).expect("write scratch dictionary");
    }
    let _ = fresh_probe(0);
    let paths: Vec<PathBuf> = (0..3).map(|i| dir.join(format!("cfg{i}.kbd"))).collect();
    let args = ValidatedArgs {
        paths: paths.clone(),
        tcp_server_address: None,
        symlink_path: None,
        nodelay: true,
    };
    let k = match Kanata::new_arc(&args) {
        Ok(k) => k,
        Err(e) => {
            let _ = std::fs::remove_dir_all(&dir);
            return Verdict::failed("harness:initial-config-rejected", format!("{e:?}"));
        }
    };
    let (tx, rx) = std::sync::mpsc::sync_channel::<KeyEvent>(100);
    let (srv_tx, srv_rx) = std::sync::mpsc::sync_channel(100);
    Kanata::start_processing_loop(k.clone(), rx, Some(srv_tx), true);
    let mut l = Live { k, tx, srv_rx, outs: vec![], mult };
    l.wait(10);
    // reference model
    let mut files = c.files.clone();
    let mut active = v0; // content that is running
    let mut idx = 0usize; // file index the next plain reload uses
    let mut log: Vec<String> = vec![];
    let mut v = Verdict::pass(false);
    let mut fail: Option<(String, String)> = None;
    let reload_key = |k: u8| -> &'static str {
        match k % 6 {
            0 => "d",
            1 => "e",
            2 => "f",
            3 => "g",
            4 => "h",
            _ => "i",
        }
    };
    // the model of one request: returns (new index, Some(content) when the reload succeeds)
    let request = |k: u8, idx: usize, files: &Vec<Content>| -> (usize, Option<u8>) {
        let ni = match k % 6 {
            0 => idx,
            1 => (idx + 1) % 3,
            2 => (idx + 2) % 3,
            n => (n - 3) as usize,
        };
        match files[ni] {
            Content::Valid(v) => (ni, Some(v)),
            _ => (ni, None),
        }
    };
    let mut relative_after_failure = false;
    for st in &c.steps {
        if fail.is_some() {
            break;
        }
        match st {
            Step::Write(i, content) => {
                let i = *i as usize % 3;
                write_file(&dir, i, content);
                files[i] = *content;
                log.push(format!("write cfg{i} := {content:?}"));
            }
            Step::Busy(kind) => {
                match kind % 3 {
                    0 => l.tap("b"),
                    1 => l.tap("c"),
                    _ => l.tap("j"),
                }
                log.push(format!("busy {kind}"));
            }
            Step::Probe => {
                l.wait(130);
                let got = probe(&mut l);
                let want = fresh_probe(active);
                log.push(format!("probe -> {}", got.join(" ")));
                if got != want {
                    fail = Some(("reload:behaviour-differs-from-fresh-instance-of-active-config".into(), format!("active content: variant {active}\nprobe output : {}\nfresh instance: {}", got.join(" "), want.join(" "))));
                }
            }
            Step::Reload(kk) | Step::ReloadWhileHeld(kk) => {
                let held = matches!(st, Step::ReloadWhileHeld(_));
                // relative requests after a failed one depend on whether the index moved: the
                // statement does not say; use absolute ones then
                let kk = if relative_after_failure && matches!(kk % 6, 1 | 2) { 3 + (*kk % 3) } else { *kk };
                let (ni, res) = request(kk, idx, &files);
                l.notifications();
                l.drain();
                if held {
                    l.send("a", true);
                }
                l.tap(reload_key(kk));
                l.wait(40);
                log.push(format!("{} {} (file {ni}: {:?})", if held { "reload-while-a-held" } else { "reload" }, reload_key(kk), files[ni]));
                if held {
                    // the output key of `a` is down: nothing may change yet
                    let notes = reload_notes(&l.notifications());
                    if !notes.is_empty() {
                        fail = Some(("reload:applied-while-output-key-down".into(), format!("notifications while `a` is held: {notes:?}")));
                    }
                    l.send("a", false);
                    l.wait(40);
                }
                let notes = reload_notes(&l.notifications());
                idx = ni;
                match res {
                    Some(nv) => {
                        if active >= 4 && nv < 4 {
                            v.classes.push("dictionary-to-no-dictionary");
                        }
                        active = nv;
                        relative_after_failure = false;
                        let want = vec![format!("reload:cfg{ni}.kbd"), format!("layer:base{}", nv % 4)];
                        if notes != want && fail.is_none() {
                            fail = Some(("reload:notifications-differ".into(), format!("expected {want:?}, got {notes:?}")));
                        }
                        v.classes.push("reload-succeeded");
                    }
                    None => {
                        relative_after_failure = true;
                        if !notes.is_empty() && fail.is_none() {
                            fail = Some(("reload:notification-after-failed-reload".into(), format!("got {notes:?}")));
                        }
                        v.classes.push(match files[ni] {
                            Content::BrokenSyntax => "failed:broken-syntax",
                            Content::Rejected => "failed:rejected",
                            Content::Missing => "failed:missing",
                            _ => "failed:unreadable",
                        });
                    }
                }
                if held {
                    v.classes.push("requested-while-key-held");
                }
                v.classes.push(match kk % 6 {
                    0 => "lrld",
                    1 => "lrld-next",
                    2 => "lrld-prev",
                    _ => "lrld-num",
                });
            }
            Step::ReloadOnOtherLayer(how, kk) => {
                let kk = if relative_after_failure && matches!(kk % 6, 1 | 2) { 3 + (*kk % 3) } else { *kk };
                let (ni, res) = request(kk, idx, &files);
                l.wait(30);
                l.notifications();
                if how % 2 == 0 {
                    l.send("b", true);
                } else {
                    l.tap("l");
                }
                l.wait(30);
                l.notifications();
                l.tap(reload_key(kk));
                l.wait(40);
                let notes = reload_notes(&l.notifications());
                log.push(format!("reload {} on layer nav ({}) (file {ni}: {:?})", reload_key(kk), if how % 2 == 0 { "held" } else { "switched" }, files[ni]));
                idx = ni;
                match res {
                    Some(nv) => {
                        active = nv;
                        relative_after_failure = false;
                        // the first layer of the new configuration is the active one
                        let want = vec![format!("reload:cfg{ni}.kbd"), format!("layer:base{}", nv % 4)];
                        if notes != want && fail.is_none() {
                            fail = Some(("reload:notifications-differ".into(), format!("requested on layer nav: expected {want:?}, got {notes:?}")));
                        }
                        if how % 2 == 0 {
                            l.send("b", false);
                        }
                        v.classes.push("reload-succeeded");
                    }
                    None => {
                        relative_after_failure = true;
                        if !notes.is_empty() && fail.is_none() {
                            fail = Some(("reload:notification-after-failed-reload".into(), format!("got {notes:?}")));
                        }
                        // back to the first layer of the old configuration
                        if how % 2 == 0 {
                            l.send("b", false);
                        } else {
                            l.tap("l");
                        }
                    }
                }
                l.wait(30);
                v.classes.push("requested-on-other-layer");
            }
            Step::ReloadNumOutOfRange => {
                // a file number beyond the command line: what happens is not stated - nothing,
                // or a reload of the current file; either way kanata keeps running, and the
                // notifications tell which it was
                l.notifications();
                l.drain();
                l.tap("m");
                l.wait(40);
                let notes = reload_notes(&l.notifications());
                log.push(format!("reload (lrld-num 4) -> {notes:?}"));
                if !notes.is_empty() {
                    match files[idx] {
                        Content::Valid(nv) if notes == vec![format!("reload:cfg{idx}.kbd"), format!("layer:base{}", nv % 4)] => {
                            active = nv;
                        }
                        _ => {
                            fail = Some(("reload:notifications-differ".into(), format!("lrld-num 4 with three files, current file {idx} ({:?}): got {notes:?}", files[idx])));
                        }
                    }
                }
                v.classes.push("lrld-num-out-of-range");
            }
            Step::ReloadTwice => {
                let (ni, res) = request(0, idx, &files);
                l.notifications();
                l.tap("d");
                l.tap("d");
                l.wait(40);
                let notes = reload_notes(&l.notifications());
                log.push(format!("reload twice (file {ni}: {:?})", files[ni]));
                if let Some(nv) = res {
                    active = nv;
                    let one = vec![format!("reload:cfg{ni}.kbd"), format!("layer:base{}", nv % 4)];
                    let two: Vec<String> = one.iter().chain(one.iter()).cloned().collect();
                    if notes != one && notes != two && fail.is_none() {
                        fail = Some(("reload:notifications-differ".into(), format!("two requests: expected {one:?} once or twice, got {notes:?}")));
                    }
                } else if !notes.is_empty() && fail.is_none() {
                    fail = Some(("reload:notification-after-failed-reload".into(), format!("got {notes:?}")));
                }
                v.classes.push("back-to-back");
            }
        }
    }
    // final probe: the active configuration, nothing left down
    if fail.is_none() {
        l.wait(130);
        let got = probe(&mut l);
        let want = fresh_probe(active);
        log.push(format!("final probe -> {}", got.join(" ")));
        if got != want {
            fail = Some(("reload:behaviour-differs-from-fresh-instance-of-active-config".into(), format!("active content: variant {active}\nprobe output : {}\nfresh instance: {}", got.join(" "), want.join(" "))));
        }
    }
    l.drain();
    let mut os = crate::sim::OsState::default();
    for o in &l.outs {
        os.apply(o);
    }
    if fail.is_none() && os.anything_down() {
        fail = Some(("reload:key-left-down".into(), format!("still down: {:?}", os.keys)));
    }
    // a panic in the processing thread?
    if let Some((loc, msg)) = take_last_panic() {
        fail = Some((format!("panic:{loc}:{}", norm_msg(&msg)), msg));
    }
    // end the processing thread (it ends with a panic on the closed channel: expected)
    let outs_text = fmt_outs(&l.outs);
    drop(l);
    std::thread::sleep(std::time::Duration::from_millis(6));
    let _ = take_last_panic();
    let _ = std::fs::remove_dir_all(&dir);
    if let Some((sig, detail)) = fail {
        return Verdict::failed(&sig, format!("files: {:?}\n{}\n{detail}\nall output: {outs_text}", c.files, log.join("\n")));
    }
    v.classes.sort();
    v.classes.dedup();
    v.nontrivial = v.classes.iter().any(|x| x.starts_with("failed:")) || v.classes.contains(&"requested-while-key-held");
    v
}

impl TypedProp for C15 {
    type C = LCase;
    fn id(&self) -> &'static str {
        "C15"
    }
    fn info(&self) -> PropInfo {
        PropInfo {
            level: "exploration",
            rule: "three configuration files on the command line; contents from a family of eight valid configurations (same defsrc, four sets of outputs and first-layer names, each with and without a zippychord dictionary of one chord, an override of the output chord, override-release-on-activation on in every second one; layer-while-held, one-shot, a macro, an output chord, lrld / lrld-next / lrld-prev / lrld-num 1-4 keys, dynamic-macro record / stop / play keys and a recording limit that differs between the variants) or broken syntax / rejected by the parser (an unknown action, or a key name that only the valid configurations define with deflocalkeys) / missing / a directory. Histories of 2-9 steps: rewrite a file, request a reload (plain, next, prev, num), request it while a key's output is held down (and probe notifications before the release), request it twice back-to-back, request file number 4 of 3 (kanata must keep running; whether the current file is reloaded is read from the notifications), request it while another layer is active (layer-while-held key held, or after a layer-switch), make kanata busy right before (layer tap, one-shot, running macro), probe. Run on the real Kanata::start_processing_loop thread with real-time events 8 ms apart and simulated output. Oracle: a reference model of the active content (unchanged by a failed reload, replaced by a successful one, not before the held key's output is released); every probe (two keys pressed together - the dictionary chord where there is one -, tap, layer-held tap, overridden output chord, a tap while it is held) must equal what a freshly started deterministic instance of the active content answers; a successful reload sends exactly ConfigFileReload(file) then LayerChange(first layer), a failed one nothing; nothing stays down; no panic in the processing thread. Non-trivial: a failed reload or a request while a key is held occurs. Distinct: hash of the case.".into(),
            assumptions: vec![
                "only time-insensitive behaviour is compared (real-time thread): sequences of key events, not their times".into(),
                "after a failed lrld-next / lrld-prev the following requests are absolute (lrld-num): the statement does not say whether the file index advanced".into(),
                "the 'after one idle second' fallback is not exercised".into(),
            ],
            extra: BTreeMap::new(),
        }
    }
    fn plan(&self, tier: Tier) -> Plan {
        Plan {
            n_cases: match tier {
                Tier::Quick => 640,
                Tier::Thorough => 20_000,
            },
            exhaustive: false,
            distinct_by_construction: false,
            required_classes: vec!["reload-succeeded", "failed:broken-syntax", "failed:rejected", "failed:missing", "failed:unreadable", "requested-while-key-held", "requested-on-other-layer", "back-to-back", "dictionary-to-no-dictionary", "lrld-num-out-of-range", "lrld", "lrld-next", "lrld-prev", "lrld-num"],
            hang_secs: 120,
        }
    }
    fn gen(&self, _tier: Tier, _seed: u64, _idx: u64) -> Gen<LCase> {
        Gen::Strat(0)
    }
    fn strategy(&self, _tier: Tier, _key: u32) -> BoxedStrategy<LCase> {
        let content = prop_oneof![
            5 => (0u8..8).prop_map(Content::Valid),
            1 => Just(Content::BrokenSyntax),
            1 => Just(Content::Rejected),
            1 => Just(Content::Missing),
            1 => Just(Content::Unreadable),
        ];
        let step = prop_oneof![
            3 => (0u8..3, content.clone()).prop_map(|(i, c)| Step::Write(i, c)),
            4 => (0u8..6).prop_map(Step::Reload),
            2 => (0u8..6).prop_map(Step::ReloadWhileHeld),
            1 => Just(Step::ReloadTwice),
            2 => (0u8..2, 0u8..6).prop_map(|(h, k)| Step::ReloadOnOtherLayer(h, k)),
            1 => (0u8..3).prop_map(Step::Busy),
            1 => Just(Step::ReloadNumOutOfRange),
            2 => Just(Step::Probe),
        ];
        ((0u8..8), prop::collection::vec(content, 2..=2), prop::collection::vec(step, 2..10))
            .prop_map(|(v0, rest, steps)| {
                let mut files = vec![Content::Valid(v0)];
                files.extend(rest);
                LCase { files, steps }
            })
            .boxed()
    }
    fn judge(&self, case: &LCase) -> Verdict {
        judge_case(case)
    }
    // every evaluation is a real-time run of two to three seconds, and a failing one is
    // confirmed three and ten times slower: a small shrink budget keeps a failing run
    // within minutes
    fn max_shrink_steps(&self) -> usize {
        12
    }
}
