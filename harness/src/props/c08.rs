//! C08 — Macros play exactly their key list, in order, and always end with keys released.
use crate::engine::*;
use crate::gen::hist::*;
use crate::sim::{code_of, fmt_outs, out_name, Out, OutEv, Sim};
use kanata_state_machine::oskbd::KeyValue;
use proptest::prelude::*;
use serde_json::{json, Value};
use std::collections::{BTreeMap, BTreeSet};

pub struct C08;

/// macro key i is on src key SRC[i] and only uses LETTERS[i] and MODS[i]
const SRC: [&str; 6] = ["a", "b", "c", "d", "e", "f"];
// no digit keys: a bare number inside a macro is a delay
const LETTERS: [[&str; 3]; 6] = [["m", "n", "o"], ["p", "q", "r"], ["s", "t", "u"], ["v", "w", "x"], ["y", "z", "comm"], [".", "/", "i"]];
const MODS: [(&str, &str); 6] = [("S-", "lsft"), ("C-", "lctl"), ("A-", "lalt"), ("M-", "lmet"), ("RS-", "rsft"), ("RC-", "rctl")];
const OTHER: [&str; 2] = ["g", "h"];
/// the unicode character of macro i (identifies the macro in the output)
const UNI: [&str; 6] = ["é", "ü", "ö", "ñ", "ç", "ß"];

#[derive(Clone, Debug, PartialEq, Eq, Hash)]
pub enum MI {
    Key(usize),
    Delay(u16),
    Chord(usize),
    Group(Vec<MI>),
    List(Vec<MI>),
    Unicode,
    MouseTap,
}

#[derive(Clone, Debug, PartialEq, Eq, Hash)]
pub struct MacroDef {
    /// 0 macro, 1 macro-release-cancel, 2 macro-cancel-on-press, 3 macro-release-cancel-and-cancel-on-press,
    /// 4 macro-repeat, 5 macro-repeat-release-cancel
    pub variant: u8,
    pub body: Vec<MI>,
}

#[derive(Clone, Debug, PartialEq, Eq, Hash)]
pub struct MCase8 {
    pub macros: Vec<MacroDef>,
    pub hist: Vec<Ev>,
    /// cancellation sweep (0 = off): macro 0 alone is activated and its cancel trigger (release of its
    /// key / press of another key) arrives `sweep - 1` ms later; `hist` is not used
    pub sweep: u16,
}

const VARIANT_NAMES: [&str; 6] = ["macro", "macro-release-cancel", "macro-cancel-on-press", "macro-release-cancel-and-cancel-on-press", "macro-repeat", "macro-repeat-release-cancel"];

fn item_text(i: usize, it: &MI) -> String {
    match it {
        MI::Key(k) => LETTERS[i][*k].to_string(),
        MI::Delay(d) => d.to_string(),
        MI::Chord(k) => format!("{}{}", MODS[i].0, LETTERS[i][*k]),
        MI::Group(v) => format!("{}({})", MODS[i].0, v.iter().map(|x| item_text(i, x)).collect::<Vec<_>>().join(" ")),
        MI::List(v) => format!("({})", v.iter().map(|x| item_text(i, x)).collect::<Vec<_>>().join(" ")),
        MI::Unicode => format!("🔣{}", UNI[i]),
        MI::MouseTap => "mltp".to_string(),
    }
}
fn macro_text(i: usize, m: &MacroDef) -> String {
    format!("({} {})", VARIANT_NAMES[m.variant as usize % 6], m.body.iter().map(|x| item_text(i, x)).collect::<Vec<_>>().join(" "))
}
fn cfg_text(c: &MCase8) -> String {
    let n = c.macros.len();
    let mut s = String::from("(defcfg log-layer-changes no)\n(defsrc");
    for k in SRC.iter().take(n) {
        s.push_str(&format!(" {k}"));
    }
    s.push_str(" g h)\n(deflayer l0");
    for (i, m) in c.macros.iter().enumerate() {
        s.push(' ');
        s.push_str(&macro_text(i, m));
    }
    s.push_str(" 8 9)\n");
    s
}

/// expected step list of one round: Some((down, key)) for key events, None(d) encoded as delay
#[derive(Clone, Debug, PartialEq)]
enum Step {
    Key(bool, u16),
    Delay(u32),
    /// a step that takes a tick but is not a key event (unicode, mouse tap)
    Other,
}
fn expand(i: usize, items: &[MI], out: &mut Vec<Step>) {
    let m = code_of(MODS[i].1);
    for it in items {
        match it {
            MI::Key(k) => {
                let c = code_of(LETTERS[i][*k]);
                out.push(Step::Key(true, c));
                out.push(Step::Key(false, c));
            }
            MI::Delay(d) => out.push(Step::Delay(*d as u32)),
            MI::Chord(k) => {
                let c = code_of(LETTERS[i][*k]);
                out.push(Step::Key(true, m));
                out.push(Step::Key(true, c));
                out.push(Step::Key(false, c));
                out.push(Step::Key(false, m));
            }
            MI::Group(v) => {
                out.push(Step::Key(true, m));
                expand(i, v, out);
                out.push(Step::Key(false, m));
            }
            MI::List(v) => expand(i, v, out),
            MI::Unicode | MI::MouseTap => out.push(Step::Other),
        }
    }
}
/// OS-visible transitions of one round (set semantics: a press of a key that is already down
/// and a release of a key that is already up change nothing), with the minimum delay (ms)
/// that must separate each transition from the previous one.
fn round_transitions(steps: &[Step]) -> Vec<(bool, u16, u32)> {
    let mut down: BTreeSet<u16> = BTreeSet::new();
    let mut out = vec![];
    let mut min_gap = 0u32;
    for s in steps {
        match s {
            Step::Key(d, k) => {
                let changed = if *d { down.insert(*k) } else { down.remove(k) };
                min_gap += 1;
                if changed {
                    out.push((*d, *k, min_gap));
                    min_gap = 0;
                }
            }
            Step::Delay(d) => min_gap += *d,
            Step::Other => min_gap += 1,
        }
    }
    out
}
fn duration(steps: &[Step]) -> u64 {
    steps.iter().map(|s| match s { Step::Delay(d) => *d as u64, _ => 1 }).sum()
}

fn mi_json(it: &MI) -> Value {
    match it {
        MI::Key(k) => json!({"key": k}),
        MI::Delay(d) => json!({"delay": d}),
        MI::Chord(k) => json!({"chord": k}),
        MI::Group(v) => json!({"group": v.iter().map(mi_json).collect::<Vec<_>>()}),
        MI::List(v) => json!({"list": v.iter().map(mi_json).collect::<Vec<_>>()}),
        MI::Unicode => json!("unicode"),
        MI::MouseTap => json!("mousetap"),
    }
}
fn mi_from(v: &Value) -> Option<MI> {
    if let Some(s) = v.as_str() {
        return Some(if s == "unicode" { MI::Unicode } else { MI::MouseTap });
    }
    let o = v.as_object()?;
    let (k, val) = o.iter().next()?;
    Some(match k.as_str() {
        "key" => MI::Key(val.as_u64()? as usize),
        "delay" => MI::Delay(val.as_u64()? as u16),
        "chord" => MI::Chord(val.as_u64()? as usize),
        "group" => MI::Group(val.as_array()?.iter().map(mi_from).collect::<Option<Vec<_>>>()?),
        "list" => MI::List(val.as_array()?.iter().map(mi_from).collect::<Option<Vec<_>>>()?),
        _ => return None,
    })
}
impl Case for MCase8 {
    fn to_json(&self) -> Value {
        json!({"config": cfg_text(self), "macros": self.macros.iter().map(|m| json!({"variant": m.variant, "body": m.body.iter().map(mi_json).collect::<Vec<_>>()})).collect::<Vec<_>>(),
            "events": hist_to_json(&self.hist), "sweep": self.sweep})
    }
    fn from_json(v: &Value) -> Option<Self> {
        Some(MCase8 {
            macros: v["macros"]
                .as_array()?
                .iter()
                .map(|m| {
                    Some(MacroDef {
                        variant: m["variant"].as_u64()? as u8,
                        body: m["body"].as_array()?.iter().map(mi_from).collect::<Option<Vec<_>>>()?,
                    })
                })
                .collect::<Option<Vec<_>>>()?,
            hist: hist_from_json(&v["events"])?,
            sweep: v["sweep"].as_u64().unwrap_or(0) as u16,
        })
    }
    fn canon_hash(&self) -> u64 {
        use std::hash::{Hash, Hasher};
        let mut h = rustc_hash::FxHasher::default();
        self.hash(&mut h);
        h.finish()
    }
}

fn item_strategy() -> BoxedStrategy<MI> {
    let leaf = prop_oneof![
        6 => (0usize..3).prop_map(MI::Key),
        3 => prop_oneof![1u16..4, 4u16..25].prop_map(MI::Delay),
        3 => (0usize..3).prop_map(MI::Chord),
        1 => Just(MI::Unicode),
        1 => Just(MI::MouseTap),
    ];
    leaf.prop_recursive(3, 16, 4, |inner| {
        prop_oneof![
            prop::collection::vec(inner.clone(), 1..4).prop_map(MI::Group),
            prop::collection::vec(inner, 1..4).prop_map(MI::List),
        ]
    })
    .boxed()
}

fn unicode_items(items: &[MI]) -> usize {
    items
        .iter()
        .map(|i| match i {
            MI::Unicode => 1,
            MI::Group(v) | MI::List(v) => unicode_items(v),
            _ => 0,
        })
        .sum()
}

fn has_key_event(items: &[MI]) -> bool {
    items.iter().any(|i| match i {
        MI::Key(_) | MI::Chord(_) => true,
        MI::Group(_) => true,
        MI::List(v) => has_key_event(v),
        _ => false,
    })
}

struct Act8 {
    /// input time (ms) of presses / releases of the macro key
    presses: Vec<u64>,
    releases: Vec<u64>,
}

/// Cancellation at every step: macro 0 (a cancel variant) is activated alone and its cancel trigger
/// arrives x ms later, x swept over the whole run. Reference: the same activation without the
/// trigger gives the tick of every press of the macro; with the trigger the macro must have pressed
/// exactly the keys the reference pressed before tick x + CANCEL_LATENCY (the trigger is taken from the
/// input queue in the next tick, before the macro's step of that tick), and everything is released.
const CANCEL_LATENCY: u64 = 1;
fn judge_sweep(c: &MCase8) -> Verdict {
    let text = cfg_text(c);
    let variant = c.macros[0].variant % 6;
    if !matches!(variant, 1 | 2 | 3 | 5) {
        return Verdict::discard("sweep-needs-a-cancel-variant");
    }
    let x = (c.sweep - 1) as u64;
    let key = code_of(SRC[0]);
    let mut steps = vec![];
    expand(0, &c.macros[0].body, &mut steps);
    let dur = duration(&steps);
    // release-cancel for the variants that have it (3: chosen by the parity of x), else another key's press
    let by_release = match variant {
        1 | 5 => true,
        3 => c.hist.len() % 2 == 0,
        _ => false,
    };
    if !by_release && x == 0 {
        // pressed in the same millisecond as the macro key: the macro is not running yet
        return Verdict::discard("sweep-press-before-the-macro-runs");
    }
    let run = |trigger: bool| -> Result<Vec<Out>, String> {
        let mut sim = Sim::new(&text).map_err(|e| e.to_string())?;
        sim.tick_n(5);
        sim.input(key, KeyValue::Press);
        sim.tick_n(x);
        if trigger {
            if by_release {
                sim.input(key, KeyValue::Release);
            } else {
                sim.input(code_of(OTHER[0]), KeyValue::Press);
            }
        }
        sim.tick_n(dur + 30);
        if !trigger || !by_release {
            sim.input(key, KeyValue::Release);
        }
        if trigger && !by_release {
            sim.input(code_of(OTHER[0]), KeyValue::Release);
        }
        sim.tick_n(dur * 2 + 60);
        Ok(sim.outs.clone())
    };
    let (reference, got) = match (run(false), run(true)) {
        (Ok(a), Ok(b)) => (a, b),
        (Err(e), _) | (_, Err(e)) => return Verdict::failed("harness:macro-config-rejected", format!("{text}\n{e}")),
    };
    let own: Vec<u16> = LETTERS[0].iter().map(|k| code_of(k)).chain([code_of(MODS[0].1)]).collect();
    let is_macro_press = |o: &Out| match &o.ev {
        // (unicode and mouse items reach the OS through a custom event a tick or two after their step: not compared)
        OutEv::Down(k) => own.contains(k),
        _ => false,
    };
    // the trigger was sent after tick 5 + x; the reference's presses in ticks <= 5 + x + CANCEL_LATENCY - 1 survive
    // a press cancels when it arrives (in handle_input_event): the macro's step of the next tick is the
    // first one that does not happen. A release cancels when the layout handles it: it leaves the input
    // queue in the next tick (not before the tick after the press itself was taken out), after that
    // tick's macro step.
    let cutoff = if by_release { (5 + x + 1).max(7) + 1 } else { 5 + x + CANCEL_LATENCY };
    let mut want: Vec<OutEv> = reference.iter().filter(|o| is_macro_press(o) && o.t < cutoff).map(|o| o.ev.clone()).collect();
    if variant == 5 {
        // a repeating macro: only the run(s) up to the trigger
        want = reference.iter().filter(|o| is_macro_press(o) && o.t < cutoff).map(|o| o.ev.clone()).collect();
    }
    let have: Vec<OutEv> = got.iter().filter(|o| is_macro_press(o)).map(|o| o.ev.clone()).collect();
    let mut v = Verdict::pass(true);
    v.classes.push("cancel-sweep");
    v.classes.push(if by_release { "cancel-sweep:by-release" } else { "cancel-sweep:by-press" });
    let total = reference.iter().filter(|o| is_macro_press(o)).count();
    if variant != 5 {
        if want.is_empty() {
            v.classes.push("cancel-sweep:before-the-first-press");
        } else if want.len() == total {
            v.classes.push("cancel-sweep:after-the-last-press");
        } else {
            v.classes.push("cancel-sweep:mid-run");
        }
    }
    let describe = || format!("{text}\ntrigger ({}) {x} ms after the press of {}\nwithout the trigger: {}\nwith the trigger   : {}", if by_release { "release of the macro key" } else { "press of another key" }, SRC[0], fmt_outs(&reference), fmt_outs(&got));
    if have != want {
        return Verdict::failed(
            if have.len() > want.len() { "macro:cancel-sweep:pressed-after-the-cancel-took-effect" } else { "macro:cancel-sweep:cancelled-too-early" },
            format!("{}\nthe macro pressed {} keys, the run without the trigger had pressed {} by the time the cancel takes effect", describe(), have.len(), want.len()),
        );
    }
    let mut os = crate::sim::OsState::default();
    for o in &got {
        os.apply(o);
    }
    if os.anything_down() {
        return Verdict::failed("macro:cancel-sweep:key-left-down", describe());
    }
    v
}

fn judge_case(c: &MCase8) -> Verdict {
    // sweep == u16::MAX marks the flood scenario (see strategy 3): the ordinary judge, without the count of
    // unicode characters (a held repeating macro of unicode items runs ahead of their delivery)
    let flood = c.sweep == u16::MAX;
    if c.sweep > 0 && !flood {
        return judge_sweep(c);
    }
    let text = cfg_text(c);
    let mut sim = match Sim::new(&text) {
        Ok(s) => s,
        Err(e) => return Verdict::failed("harness:macro-config-rejected", format!("{text}\n{e}")),
    };
    let n = c.macros.len();
    let src_codes: Vec<u16> = SRC.iter().take(n).map(|k| code_of(k)).collect();
    let other_codes: Vec<u16> = OTHER.iter().map(|k| code_of(k)).collect();
    let mut acts: Vec<Act8> = (0..n).map(|_| Act8 { presses: vec![], releases: vec![] }).collect();
    let mut all_press_times: Vec<(u64, u16)> = vec![];
    let mut input_times: Vec<u64> = vec![];
    for ev in &c.hist {
        match ev {
            Ev::Press(k) => {
                if let Some(i) = src_codes.iter().position(|c| c == k) {
                    acts[i].presses.push(sim.ticks);
                }
                all_press_times.push((sim.ticks, *k));
                input_times.push(sim.ticks);
                sim.input(*k, KeyValue::Press);
            }
            Ev::Release(k) => {
                if let Some(i) = src_codes.iter().position(|c| c == k) {
                    acts[i].releases.push(sim.ticks);
                }
                input_times.push(sim.ticks);
                sim.input(*k, KeyValue::Release);
            }
            Ev::Gap(g) => sim.tick_n(*g as u64),
            _ => {}
        }
    }
    let steps: Vec<Vec<Step>> = c.macros.iter().enumerate().map(|(i, m)| { let mut v = vec![]; expand(i, &m.body, &mut v); v }).collect();
    let max_dur = steps.iter().map(|s| duration(s)).max().unwrap_or(0);
    sim.tick_n(max_dur * 2 + 60);
    let outs: Vec<Out> = sim.outs.clone();
    let any_cancel_variant = c.macros.iter().any(|m| matches!(m.variant % 6, 1 | 2 | 3 | 5));
    // slack for queue latency: events are dequeued one per tick
    let slack = |t: u64| -> u64 { 3 + input_times.iter().filter(|x| **x + 12 >= t && **x <= t).count() as u64 };
    // running intervals for the concurrency estimate
    let mut intervals: Vec<(u64, u64)> = vec![];
    for (i, a) in acts.iter().enumerate() {
        for p in &a.presses {
            let mut end = *p + duration(&steps[i]) + 4;
            if matches!(c.macros[i].variant % 6, 4 | 5) {
                // a repeating macro keeps running while its key is held (and finishes its round)
                let rel = a.releases.iter().find(|r| **r >= *p).copied().unwrap_or(sim.ticks);
                end = rel + 2 * duration(&steps[i]) + 6;
            }
            intervals.push((*p, end));
        }
    }
    let max_conc = intervals.iter().map(|(s, _)| intervals.iter().filter(|(a, b)| a <= s && s <= b).count()).max().unwrap_or(0);
    let describe = |i: usize, proj: &[Out]| format!("{text}history: {}\nmacro on key {} : output on its keys: {}", hist_to_string(&c.hist), SRC[i], fmt_outs(proj));
    let mut v = Verdict::pass(false);
    let mut nontrivial = false;
    for (i, m) in c.macros.iter().enumerate() {
        let variant = m.variant % 6;
        let keyset: BTreeSet<u16> = LETTERS[i].iter().map(|k| code_of(k)).chain([code_of(MODS[i].1)]).collect();
        let expected = round_transitions(&steps[i]);
        // observable transitions on this macro's keys
        let mut down: BTreeSet<u16> = BTreeSet::new();
        let mut proj: Vec<Out> = vec![];
        for o in &outs {
            match o.ev {
                OutEv::Down(k) if keyset.contains(&k) => {
                    if down.insert(k) {
                        proj.push(o.clone());
                    }
                }
                OutEv::Up(k) if keyset.contains(&k) => {
                    if down.remove(&k) {
                        proj.push(o.clone());
                    }
                }
                _ => {}
            }
        }
        if !down.is_empty() {
            return Verdict::failed("macro:key-left-down", format!("{}\nstill down at the end: {:?}", describe(i, &proj), down.iter().map(|k| out_name(*k)).collect::<Vec<_>>()));
        }
        let a = &acts[i];
        if a.presses.is_empty() {
            if !proj.is_empty() {
                return Verdict::failed("macro:output-without-activation", describe(i, &proj));
            }
            continue;
        }
        if let Some(first) = proj.first() {
            if first.t <= a.presses[0] {
                return Verdict::failed("macro:output-before-trigger", describe(i, &proj));
            }
        }
        // the same macro activated again while it may still be running interleaves two copies
        // on the same keys: outside what this oracle can parse
        let dur = duration(&steps[i]);
        let self_overlap = a.presses.windows(2).any(|w| w[1] < w[0] + dur + 8) || (matches!(variant, 4 | 5) && a.presses.len() > 1);
        // unicode items: every complete run types each of its characters (checked where every
        // activation is a complete run: no cancel variant in the configuration, at most 4 at once)
        let uni_per_round = unicode_items(&m.body);
        let uni_seen = outs.iter().filter(|o| matches!(&o.ev, OutEv::Unicode(s) if s.as_str() == UNI[i])).count();
        if uni_per_round == 0 && uni_seen > 0 {
            return Verdict::failed("macro:unicode-not-in-its-list", format!("{}\n{uni_seen} unicode outputs of a macro that has none", describe(i, &proj)));
        }
        if expected.is_empty() {
            if variant == 0 && !any_cancel_variant && !self_overlap && max_conc <= 4 && uni_per_round > 0 {
                v.classes.push("unicode-items-counted");
                if uni_seen != uni_per_round * a.presses.len() {
                    return Verdict::failed("macro:unicode-item-count", format!("{}\n{} activations of {} unicode items each, but {uni_seen} characters were typed", describe(i, &proj), a.presses.len(), uni_per_round));
                }
            }
            continue;
        }
        if self_overlap {
            v.classes.push("self-overlap-skipped");
            continue;
        }
        if max_conc > 4 {
            // more macros than the documented limit of 4 ran at once: the oldest is evicted and
            // repeating ones restart, so only "nothing before the trigger, nothing left down"
            // (checked above) is demanded
            v.classes.push("structure-skipped-over-4-concurrent");
            continue;
        }
        let cuts_allowed = any_cancel_variant;
        let mut complete_rounds = 0usize;
        let mut partial_rounds = 0usize;
        for (j, p) in a.presses.iter().enumerate() {
            let next_p = a.presses.get(j + 1).copied().unwrap_or(u64::MAX);
            let rel = a.releases.iter().find(|r| **r >= *p).copied();
            let seg: Vec<&Out> = proj.iter().filter(|o| o.t > *p && o.t <= next_p).collect();
            let t0 = seg.first().map(|o| o.t);
            let mut ptr = 0usize;
            let mut cur: BTreeSet<u16> = BTreeSet::new();
            let mut cut = false;
            let mut last_t = 0u64;
            let mut rounds_here = 0usize;
            let mut round_starts: Vec<u64> = vec![];
            for o in &seg {
                let (d, k) = match o.ev {
                    OutEv::Down(k) => (true, k),
                    OutEv::Up(k) => (false, k),
                    _ => continue,
                };
                if cut {
                    // after a run was cut short only the release of what it still holds may follow
                    if !d && cur.remove(&k) {
                        continue;
                    }
                    return Verdict::failed("macro:deviates-from-key-list", format!("{}\nactivation at {p} ms: after the run was cut short, {:?} followed", describe(i, &proj), o));
                }
                let (ed, ek, egap) = expected[ptr];
                let on_time = ptr == 0 || o.t >= last_t + egap as u64;
                if d == ed && k == ek && on_time {
                    if ptr == 0 {
                        round_starts.push(o.t.saturating_sub(egap as u64));
                    }
                    last_t = o.t;
                    if d {
                        cur.insert(k);
                    } else {
                        cur.remove(&k);
                    }
                    ptr += 1;
                    if ptr == expected.len() {
                        ptr = 0;
                        rounds_here += 1;
                    }
                } else if !d && cur.contains(&k) && cuts_allowed {
                    cut = true;
                    cur.remove(&k);
                } else if d && cur.is_empty() && cuts_allowed && matches!(variant, 4 | 5) && (d, k) == (expected[0].0, expected[0].1) {
                    // a repeating macro whose round was cut short exactly where nothing was held
                    // (clean-up coincided with its own next steps) starts over
                    partial_rounds += 1;
                    round_starts.push(o.t.saturating_sub(expected[0].2 as u64));
                    last_t = o.t;
                    cur.insert(k);
                    ptr = 1;
                    if ptr == expected.len() {
                        ptr = 0;
                        rounds_here += 1;
                    }
                } else if d == ed && k == ek {
                    return Verdict::failed("macro:step-too-early", format!("{}\nactivation at {p} ms: step #{ptr} came {} ms after the previous one, at least {egap} required", describe(i, &proj), o.t - last_t));
                } else {
                    return Verdict::failed("macro:deviates-from-key-list", format!("{}\nactivation at {p} ms: expected step #{ptr} {}{} but saw {:?}", describe(i, &proj), if ed { "↓" } else { "↑" }, out_name(ek), o));
                }
            }
            if ptr != 0 || cut {
                partial_rounds += 1;
                if !cuts_allowed {
                    return Verdict::failed("macro:incomplete-run", format!("{}\nactivation at {p} ms stopped after step #{ptr} of {}", describe(i, &proj), expected.len()));
                }
            }
            complete_rounds += rounds_here;
            if !cuts_allowed && matches!(variant, 0 | 4) && rounds_here == 0 {
                return Verdict::failed("macro:incomplete-run", format!("{}\nactivation at {p} ms produced no complete run", describe(i, &proj)));
            }
            if variant == 0 && rounds_here > 1 {
                return Verdict::failed("macro:played-more-than-once", format!("{}\nactivation at {p} ms played {rounds_here} times", describe(i, &proj)));
            }
            // a repeating macro starts a new round only while its key is held
            if matches!(variant, 4 | 5) {
                match rel {
                    Some(r) => {
                        for rs in round_starts.iter().skip(1) {
                            if *rs > r + slack(r) + 1 {
                                return Verdict::failed("macro:repeat-after-release", format!("{}\nkey released at {r} ms but a new round started at about {rs} ms", describe(i, &proj)));
                            }
                        }
                    }
                    None => v.classes.push("repeat-held-to-end"),
                }
            }
            // release-cancel: no macro press once the release (after the activation took effect) was processed
            if matches!(variant, 1 | 3 | 5) {
                if let (Some(r), Some(t0)) = (rel, t0) {
                    if r + 1 >= t0 {
                        if let Some(o) = seg.iter().find(|o| matches!(o.ev, OutEv::Down(_)) && o.t > r + slack(r)) {
                            return Verdict::failed("macro:press-after-release-cancel", format!("{}\nkey released at {r} ms, yet the macro pressed {:?} afterwards", describe(i, &proj), o));
                        }
                    }
                }
            }
            // cancel-on-press: another physical press while it runs stops it
            if matches!(variant, 2 | 3) {
                if let Some(t0) = t0 {
                    for (x, k) in &all_press_times {
                        if *x >= t0 && *x < *p + dur && *k != src_codes[i] {
                            if let Some(o) = seg.iter().find(|o| matches!(o.ev, OutEv::Down(_)) && o.t > *x + slack(*x)) {
                                return Verdict::failed("macro:press-after-cancel-on-press", format!("{}\nanother key was pressed at {x} ms, yet the macro pressed {:?} afterwards", describe(i, &proj), o));
                            }
                        }
                    }
                }
            }
        }
        if !flood && !cuts_allowed && uni_per_round > 0 && partial_rounds == 0 {
            v.classes.push("unicode-items-counted");
            if uni_seen != uni_per_round * complete_rounds {
                return Verdict::failed("macro:unicode-item-count", format!("{}\n{complete_rounds} complete runs of {uni_per_round} unicode items each, but {uni_seen} characters were typed", describe(i, &proj)));
            }
        }
        nontrivial |= has_key_event(&m.body) && (m.body.iter().any(|x| matches!(x, MI::Group(_) | MI::List(_))) || partial_rounds > 0 || max_conc >= 2);
        v.classes.push(match variant {
            0 => "variant:macro",
            1 => "variant:release-cancel",
            2 => "variant:cancel-on-press",
            3 => "variant:release-cancel-and-cancel-on-press",
            4 => "variant:repeat",
            _ => "variant:repeat-release-cancel",
        });
        if partial_rounds > 0 {
            v.classes.push("cancelled-run");
        }
        if complete_rounds >= 2 {
            v.classes.push("rounds>=2");
        }
    }
    if max_conc >= 2 {
        v.classes.push("concurrent>=2");
    }
    if max_conc > 4 {
        v.classes.push("concurrent>4");
    }
    let _ = other_codes;
    v.nontrivial = nontrivial;
    v
}

impl TypedProp for C08 {
    type C = MCase8;
    fn id(&self) -> &'static str {
        "C08"
    }
    fn info(&self) -> PropInfo {
        PropInfo {
            level: "exploration",
            rule: "configs: 1-6 macro keys, each with its own letters and modifier so that the OS output identifies the macro; bodies from the macro grammar (keys, delays, modifier-chorded keys, modifier groups, nested lists, unicode, mouse tap); variants macro / release-cancel / cancel-on-press / both / repeat / repeat-release-cancel. Histories: physically consistent presses and releases of the macro keys and two other keys with gaps {0..5,10,30}. Oracle: the harness expands each body itself; the OS transitions on the macro's keys must parse as complete runs of that list, or (cancel variants, > 4 concurrent macros) a prefix followed by the release of everything it holds; steps >= 1 ms apart and stated delays respected; nothing before the trigger; nothing down at the end; a plain or repeating macro without cancel variants in the config completes every activation; a repeating macro starts no round after its key's release was processed; no macro press after a release-cancel / cancel-on-press trigger was processed. Cancellation sweep (3 cases in 16): one macro of a cancel variant is activated alone and its trigger (release of its key / press of another key) arrives x ms later, x drawn from the whole run: the keys the macro presses must be exactly those the same activation without the trigger has pressed by the tick in which the cancel takes effect (a press cancels on arrival, a release when the layout handles it one tick later), and everything is released. Eviction burst (1 case in 16): 5-6 macros of any variant, each holding its modifier across a 20-60 ms delay, activated within a few milliseconds: nothing may stay down. Flood (1 case in 16): a repeating macro of unicode items and one key held for 150-700 ms, then a plain macro, which must play completely (the unicode characters of the flood are not counted: such a macro runs ahead of their delivery). Non-trivial: the body has a group or nested list, or a run was cut short, or >= 2 macros ran concurrently. Distinct: hash of the case.",
            assumptions: vec![
                "a cancel variant cancels every running macro (documented), so completeness is only demanded in configs without cancel variants".into(),
                "re-activating a macro while a copy of it may still run is skipped (two interleaved copies on the same keys)".into(),
            ],
            extra: BTreeMap::new(),
        }
    }
    fn plan(&self, tier: Tier) -> Plan {
        Plan {
            n_cases: match tier {
                Tier::Quick => 200_000,
                Tier::Thorough => 4_000_000,
            },
            exhaustive: false,
            distinct_by_construction: false,
            required_classes: vec![
                "variant:macro", "variant:release-cancel", "variant:cancel-on-press", "variant:release-cancel-and-cancel-on-press", "variant:repeat",
                "variant:repeat-release-cancel", "cancelled-run", "cancel-sweep:by-release", "cancel-sweep:by-press", "cancel-sweep:mid-run", "cancel-sweep:before-the-first-press", "cancel-sweep:after-the-last-press", "rounds>=2", "concurrent>=2", "concurrent>4",
            ],
            hang_secs: 60,
        }
    }
    fn gen(&self, _tier: Tier, _seed: u64, idx: u64) -> Gen<MCase8> {
        Gen::Strat(match idx % 16 {
            3 | 7 | 11 => 1,
            15 => 2,
            14 => 3,
            _ => 0,
        })
    }
    fn strategy(&self, _tier: Tier, key: u32) -> BoxedStrategy<MCase8> {
        if key == 2 {
            // eviction burst: 5-6 macros of any variant, each holding its modifier across a delay at the start
            // of its body, all activated within a few milliseconds (the ring of running macros has 4 slots):
            // whatever is evicted or cancelled, nothing may stay down
            return (prop::collection::vec((0u8..6, 20u16..60, prop::collection::vec(item_strategy(), 0..3)), 5..=6), any::<u16>(), prop::collection::vec(0u32..3, 6..=6), 60u32..200)
                .prop_map(|(ms, order, gaps, hold)| {
                    let macros: Vec<MacroDef> = ms
                        .into_iter()
                        .map(|(variant, d, rest)| {
                            let mut body = vec![MI::Group(vec![MI::Key(0), MI::Delay(d), MI::Key(1)])];
                            body.extend(rest);
                            MacroDef { variant, body }
                        })
                        .collect();
                    let n = macros.len();
                    let start = crate::engine::pick(order, n);
                    let mut hist = vec![];
                    for j in 0..n {
                        hist.push(Ev::Press(code_of(SRC[(start + j) % n])));
                        hist.push(Ev::Gap(gaps[j]));
                    }
                    hist.push(Ev::Gap(hold));
                    for j in 0..n {
                        hist.push(Ev::Release(code_of(SRC[(start + j) % n])));
                        hist.push(Ev::Gap(1));
                    }
                    MCase8 { macros, hist, sweep: 0 }
                })
                .boxed();
        }
        if key == 3 {
            // flood: a repeating macro of unicode items and one key, held for 150-700 ms (up to a few hundred
            // custom items in total), then a plain macro: it must still play completely, nothing stays down
            return (prop::collection::vec(prop_oneof![3 => Just(MI::Unicode), 1 => (0usize..3).prop_map(MI::Key)], 2..7), prop::collection::vec(item_strategy(), 1..4), 150u32..700)
                .prop_map(|(mut rep, plain, hold)| {
                    rep.insert(0, MI::Key(0));
                    rep.push(MI::Unicode);
                    let macros = vec![MacroDef { variant: 4, body: rep }, MacroDef { variant: 0, body: plain }];
                    let hist = vec![Ev::Press(code_of(SRC[0])), Ev::Gap(hold), Ev::Release(code_of(SRC[0])), Ev::Gap(400), Ev::Press(code_of(SRC[1])), Ev::Gap(5), Ev::Release(code_of(SRC[1]))];
                    MCase8 { macros, hist, sweep: u16::MAX }
                })
                .boxed();
        }
        if key == 1 {
            // cancellation sweep: one cancel-variant macro, the trigger at every millisecond of its run
            return (prop::sample::select(vec![1u8, 2, 3, 5]), prop::collection::vec(item_strategy(), 1..5), any::<u16>(), any::<bool>())
                .prop_map(|(variant, body, sel, by_release)| {
                    let mut steps = vec![];
                    expand(0, &body, &mut steps);
                    let x = crate::engine::pick(sel, duration(&steps) as usize + 5) as u16;
                    MCase8 { macros: vec![MacroDef { variant, body }], hist: if by_release { vec![] } else { vec![Ev::Gap(1)] }, sweep: x + 1 }
                })
                .boxed();
        }
        // either only plain / repeating macros (strict completeness) or any mix
        (any::<bool>(), 1usize..=6)
            .prop_flat_map(|(strict, n)| {
                let variant = if strict { prop_oneof![3 => Just(0u8), 1 => Just(4u8)].boxed() } else { (0u8..6).boxed() };
                let macros = prop::collection::vec((variant, prop::collection::vec(item_strategy(), 1..5)).prop_map(|(variant, body)| MacroDef { variant, body }), n..=n);
                macros.prop_flat_map(|macros| {
                    let mut keys: Vec<u16> = SRC.iter().take(macros.len()).map(|k| code_of(k)).collect();
                    keys.extend(OTHER.iter().map(|k| code_of(k)));
                    // macro keys are weighted higher than the two other keys
                    let mut weighted = keys.clone();
                    weighted.extend(SRC.iter().take(macros.len()).map(|k| code_of(k)));
                    let _ = weighted;
                    let h = consistent_history(keys, vec![0, 1, 1, 2, 3, 5, 10, 30], 1..14);
                    (Just(macros), h)
                })
            })
            .prop_map(|(macros, hist)| MCase8 { macros, hist, sweep: 0 })
            .boxed()
    }
    fn judge(&self, case: &MCase8) -> Verdict {
        judge_case(case)
    }
}
