//! C12 — Sequences: accepted sets are unambiguous; a typed sequence fires its key once.
use crate::engine::*;
use crate::sim::{out_name, code_of, fmt_outs, OsState, OutEv, Sim};
use kanata_parser::trie::GetOrDescendentExistsResult;
use proptest::prelude::*;
use serde_json::{json, Value};
use std::collections::BTreeMap;

pub struct C12;

/// keys of the sequences; plain and chorded items use the first four, O- groups all six
const KEYS: [&str; 6] = ["a", "b", "c", "d", "e", "f"];
const N_PLAIN: usize = 4;
/// prefix text, mask, modifier key typed with the left hand, with the right hand (None: only one)
const PFX: [(&str, u16, &str, Option<&str>); 8] = [
    ("S-", 0x8000, "lsft", Some("rsft")),
    ("C-", 0x4000, "lctl", Some("rctl")),
    ("A-", 0x2000, "lalt", None),
    ("M-", 0x0800, "lmet", Some("rmet")),
    ("RA-", 0x1000, "ralt", None),
    ("RS-", 0x8000, "lsft", Some("rsft")),
    ("RC-", 0x4000, "lctl", Some("rctl")),
    ("RM-", 0x0800, "lmet", Some("rmet")),
];
const VK_OUT: [&str; 6] = ["f13", "f14", "f15", "f16", "f17", "f18"];
const OVERLAP: u16 = 0x0400;

#[derive(Clone, Debug, PartialEq, Eq, Hash)]
pub enum SI {
    Key(usize),
    Mod(usize, usize),
    ModGroup(usize, Vec<usize>),
    Overlap(Vec<usize>),
}

#[derive(Clone, Debug, PartialEq, Eq, Hash)]
pub struct SCase {
    pub seqs: Vec<Vec<SI>>,
    /// 0 visible-backspaced, 1 hidden-suppressed, 2 hidden-delay-type
    pub mode: u8,
    pub timeout: u16,
    pub always_on: bool,
    pub which: u16,
    pub perm: u16,
    pub right_hand: bool,
    /// 0 type it fully; 1 proper prefix then a non-continuing key; 2 pause of T-1 before the
    /// last key; 3 pause of T; 4 pause of T+1
    pub scenario: u8,
    pub cut: u16,
}

fn item_text(i: &SI) -> String {
    match i {
        SI::Key(k) => KEYS[*k].to_string(),
        SI::Mod(p, k) => format!("{}{}", PFX[*p].0, KEYS[*k]),
        SI::ModGroup(p, ks) => format!("{}({})", PFX[*p].0, ks.iter().map(|k| KEYS[*k]).collect::<Vec<_>>().join(" ")),
        SI::Overlap(ks) => format!("O-({})", ks.iter().map(|k| KEYS[*k]).collect::<Vec<_>>().join(" ")),
    }
}
fn cfg_text(c: &SCase) -> String {
    let mode = ["visible-backspaced", "hidden-suppressed", "hidden-delay-type"][c.mode as usize % 3];
    let mut s = format!(
        "(defcfg log-layer-changes no sequence-timeout {} sequence-input-mode {mode}{})\n",
        c.timeout,
        if c.always_on { " sequence-always-on yes" } else { "" }
    );
    s.push_str("(defsrc a b c d e f x l lsft rsft lctl rctl lalt ralt lmet rmet)\n");
    s.push_str("(defvirtualkeys");
    for (i, o) in VK_OUT.iter().enumerate() {
        s.push_str(&format!(" v{i} {o}"));
    }
    s.push_str(")\n(deflayer l0 a b c d e f x sldr lsft rsft lctl rctl lalt ralt lmet rmet)\n(defseq");
    for (i, seq) in c.seqs.iter().enumerate() {
        s.push_str(&format!("\n  v{i} ({})", seq.iter().map(item_text).collect::<Vec<_>>().join(" ")));
    }
    s.push_str(")\n");
    s
}

fn kcode(k: usize) -> u16 {
    code_of(KEYS[k])
}

fn permutations(n: usize) -> Vec<Vec<usize>> {
    if n == 0 {
        return vec![vec![]];
    }
    let mut out = vec![];
    for p in permutations(n - 1) {
        for pos in 0..=p.len() {
            let mut q = p.clone();
            q.insert(pos, n - 1);
            out.push(q);
        }
    }
    out
}

/// All encodings of a sequence (one per combination of overlap-group orders).
fn encodings(seq: &[SI]) -> Vec<Vec<u16>> {
    let mut out: Vec<Vec<u16>> = vec![vec![]];
    for it in seq {
        match it {
            SI::Key(k) => out.iter_mut().for_each(|e| e.push(kcode(*k))),
            SI::Mod(p, k) => {
                let (_, mask, left, _) = PFX[*p];
                out.iter_mut().for_each(|e| {
                    e.push(code_of(left) | mask);
                    e.push(kcode(*k) | mask);
                })
            }
            SI::ModGroup(p, ks) => {
                let (_, mask, left, _) = PFX[*p];
                out.iter_mut().for_each(|e| {
                    e.push(code_of(left) | mask);
                    for k in ks {
                        e.push(kcode(*k) | mask);
                    }
                })
            }
            SI::Overlap(ks) => {
                let mut next = vec![];
                for e in &out {
                    for perm in permutations(ks.len()) {
                        let mut e2 = e.clone();
                        for i in perm {
                            e2.push(kcode(ks[i]) | OVERLAP);
                        }
                        e2.push(OVERLAP);
                        next.push(e2);
                    }
                }
                out = next;
            }
        }
    }
    out
}

fn is_prefix(a: &[u16], b: &[u16]) -> bool {
    a.len() <= b.len() && b[..a.len()] == *a
}

impl Case for SCase {
    fn to_json(&self) -> Value {
        let item = |i: &SI| match i {
            SI::Key(k) => json!({"key": k}),
            SI::Mod(p, k) => json!({"mod": [p, k]}),
            SI::ModGroup(p, ks) => json!({"modgroup": [p, ks]}),
            SI::Overlap(ks) => json!({"overlap": ks}),
        };
        json!({"config": cfg_text(self), "seqs": self.seqs.iter().map(|s| s.iter().map(item).collect::<Vec<_>>()).collect::<Vec<_>>(),
            "mode": self.mode, "timeout": self.timeout, "always_on": self.always_on, "which": self.which, "perm": self.perm,
            "right_hand": self.right_hand, "scenario": self.scenario, "cut": self.cut})
    }
    fn from_json(v: &Value) -> Option<Self> {
        let us = |x: &Value| x.as_u64().map(|y| y as usize);
        let item = |x: &Value| -> Option<SI> {
            let o = x.as_object()?;
            let (k, val) = o.iter().next()?;
            Some(match k.as_str() {
                "key" => SI::Key(us(val)?),
                "mod" => SI::Mod(us(&val[0])?, us(&val[1])?),
                "modgroup" => SI::ModGroup(us(&val[0])?, val[1].as_array()?.iter().map(us).collect::<Option<Vec<_>>>()?),
                "overlap" => SI::Overlap(val.as_array()?.iter().map(us).collect::<Option<Vec<_>>>()?),
                _ => return None,
            })
        };
        Some(SCase {
            seqs: v["seqs"].as_array()?.iter().map(|s| s.as_array()?.iter().map(item).collect::<Option<Vec<_>>>()).collect::<Option<Vec<_>>>()?,
            mode: v["mode"].as_u64()? as u8,
            timeout: v["timeout"].as_u64()? as u16,
            always_on: v["always_on"].as_bool()?,
            which: v["which"].as_u64()? as u16,
            perm: v["perm"].as_u64()? as u16,
            right_hand: v["right_hand"].as_bool()?,
            scenario: v["scenario"].as_u64()? as u8,
            cut: v["cut"].as_u64()? as u16,
        })
    }
    fn canon_hash(&self) -> u64 {
        use std::hash::{Hash, Hasher};
        let mut h = rustc_hash::FxHasher::default();
        self.hash(&mut h);
        h.finish()
    }
}

/// One physical typing step.
#[derive(Clone, Debug)]
enum Step {
    Down(u16),
    Up(u16),
}

/// Physical typing of a sequence: returns the steps and the index (into steps) of every
/// "character" key press (non-modifier), in order.
fn typing(seq: &[SI], perm_sel: u16, right: bool) -> (Vec<Step>, Vec<usize>) {
    let mut steps = vec![];
    let mut chars = vec![];
    let modkey = |p: usize| -> u16 {
        let (_, _, l, r) = PFX[p];
        code_of(if right { r.unwrap_or(l) } else { l })
    };
    let mut sel = perm_sel as usize;
    for it in seq {
        match it {
            SI::Key(k) => {
                chars.push(steps.len());
                steps.push(Step::Down(kcode(*k)));
                steps.push(Step::Up(kcode(*k)));
            }
            SI::Mod(p, k) => {
                steps.push(Step::Down(modkey(*p)));
                chars.push(steps.len());
                steps.push(Step::Down(kcode(*k)));
                steps.push(Step::Up(kcode(*k)));
                steps.push(Step::Up(modkey(*p)));
            }
            SI::ModGroup(p, ks) => {
                steps.push(Step::Down(modkey(*p)));
                for k in ks {
                    chars.push(steps.len());
                    steps.push(Step::Down(kcode(*k)));
                    steps.push(Step::Up(kcode(*k)));
                }
                steps.push(Step::Up(modkey(*p)));
            }
            SI::Overlap(ks) => {
                let perms = permutations(ks.len());
                let perm = &perms[sel % perms.len()];
                sel /= perms.len().max(1);
                for i in perm {
                    chars.push(steps.len());
                    steps.push(Step::Down(kcode(ks[*i])));
                }
                for i in perm {
                    steps.push(Step::Up(kcode(ks[*i])));
                }
            }
        }
    }
    (steps, chars)
}

fn conflict_free(seqs: &[Vec<SI>]) -> bool {
    let mut all: Vec<(usize, Vec<u16>)> = vec![];
    for (i, s) in seqs.iter().enumerate() {
        for e in encodings(s) {
            all.push((i, e));
        }
    }
    // sorted lexicographically, a prefix is immediately followed by one of its extensions
    all.sort_by(|x, y| x.1.cmp(&y.1));
    for w in all.windows(2) {
        if is_prefix(&w[0].1, &w[1].1) {
            return false;
        }
    }
    true
}

fn judge_case(c: &SCase) -> Verdict {
    let text = cfg_text(c);
    let files: rustc_hash::FxHashMap<String, String> = Default::default();
    let model_ok = conflict_free(&c.seqs);
    let shared_first = {
        let firsts: Vec<u16> = c.seqs.iter().filter_map(|s| encodings(s).first().and_then(|e| e.first().copied())).collect();
        firsts.iter().enumerate().any(|(i, f)| firsts.iter().skip(i + 1).any(|g| g == f))
    };
    let has_overlap = c.seqs.iter().flatten().any(|i| matches!(i, SI::Overlap(_)));
    let mut v = Verdict::pass(shared_first || has_overlap);
    if c.seqs.iter().flatten().any(|i| matches!(i, SI::Overlap(ks) if ks.len() >= 5)) {
        v.classes.push("overlap-group-of-5-or-6-keys");
    }
    let parsed = kanata_parser::cfg::new_from_str(&text, files);
    match (&parsed, model_ok) {
        (Err(e), true) => {
            return Verdict::failed("mismatch:defseq-rejected-though-unambiguous", format!("{text}\nno encoding is a prefix of another, yet the parser rejects it:\n{e:?}"));
        }
        (Ok(_), false) => {
            return Verdict::failed("mismatch:defseq-accepted-though-ambiguous", format!("{text}\none encoding is a prefix of another, yet the parser accepts the table"));
        }
        (Err(e), false) => {
            let msg = format!("{e:?}");
            if !msg.contains("conflict") {
                return Verdict::failed("harness:defseq-rejected-for-another-reason", format!("{text}\n{msg}"));
            }
            v.classes.push("rejected-conflict");
            return v;
        }
        (Ok(_), true) => {}
    }
    let cfg = parsed.unwrap();
    v.classes.push("accepted");
    // trie answers
    for (i, s) in c.seqs.iter().enumerate() {
        for e in encodings(s) {
            match cfg.sequences.get_or_descendant_exists(&e) {
                GetOrDescendentExistsResult::HasValue((row, col)) => {
                    if row != 1 || col as usize != i {
                        return Verdict::failed("mismatch:defseq-table-value", format!("{text}\nencoding {e:x?} of sequence {i} maps to virtual key coordinate ({row},{col})"));
                    }
                }
                other => {
                    return Verdict::failed("mismatch:defseq-table-missing", format!("{text}\nencoding {e:x?} of sequence {i} is not a complete entry of the table ({})", match other { GetOrDescendentExistsResult::InTrie => "only a prefix", _ => "absent" }));
                }
            }
            for cut in 1..e.len() {
                if !matches!(cfg.sequences.get_or_descendant_exists(&e[..cut]), GetOrDescendentExistsResult::InTrie) {
                    return Verdict::failed("mismatch:defseq-table-prefix", format!("{text}\nproper prefix {:x?} of sequence {i} is not reported as in-progress", &e[..cut]));
                }
            }
        }
    }
    drop(cfg);
    // typing
    let which = pick(c.which, c.seqs.len());
    let seq = &c.seqs[which];
    // The typing oracle needs a table that is also unambiguous at the level of physical keys:
    // `(b)` and `O-(b c)` have different encodings, but pressing b completes the first one.
    // If another sequence's key projection is a prefix of what will be typed, skip the typing part.
    {
        // key codes only: with sequence-backtrack-modcancel the run time also retries with the
        // modifier bits stripped, and under a held modifier sequential keys look like overlapping ones
        let proj = |e: &Vec<u16>| -> Vec<u16> { e.iter().filter(|x| **x != OVERLAP).map(|x| x & 0x03ff).collect() };
        let mine: Vec<Vec<u16>> = encodings(seq).iter().map(proj).collect();
        for (j, other) in c.seqs.iter().enumerate() {
            if j == which {
                continue;
            }
            for oe in encodings(other).iter().map(proj) {
                for me in &mine {
                    // other completes while typing mine (or any prefix of mine used by the
                    // scenarios), or mine is a prefix of other in key terms
                    let n = oe.len().min(me.len());
                    if oe[..n] == me[..n] {
                        v.classes.push("typing-skipped-physically-ambiguous");
                        return v;
                    }
                }
            }
        }
    }
    let (steps, chars) = typing(seq, c.perm, c.right_hand);
    let mut sim = match Sim::new(&text) {
        Ok(s) => s,
        Err(e) => return Verdict::failed("harness:defseq-config-rejected-by-kanata", format!("{text}\n{e}")),
    };
    let t = c.timeout as u64;
    if !c.always_on {
        sim.press(code_of("l"));
        sim.tick_n(1);
        sim.release(code_of("l"));
        sim.tick_n(1);
    }
    let start_out = sim.outs.len();
    // scenario parameters
    let n_chars = chars.len();
    let last_char_step = *chars.last().unwrap();
    if c.scenario == 5 && n_chars < 2 {
        return Verdict::discard("two-session-scenario-needs-a-proper-prefix");
    }
    let (cut_at, pause_before_last): (Option<usize>, Option<u64>) = match c.scenario {
        1 if n_chars >= 2 => {
            // cut after `k` characters (1 <= k < n): the steps before the (k+1)-th character key
            let k = 1 + pick(c.cut, n_chars - 1);
            (Some(chars[k]), None)
        }
        2 => (None, Some(t.saturating_sub(1))),
        3 => (None, Some(t)),
        4 => (None, Some(t + 1)),
        _ => (None, None),
    };
    if c.scenario == 6 && n_chars < 2 {
        return Verdict::discard("leader-again-scenario-needs-two-characters");
    }
    // scenario 6: the leader is pressed again before this step (documented: ignored in
    // visible-backspaced and hidden-delay-type, resets the typed keys in hidden-suppressed)
    let leader_again_at: Option<usize> = if c.scenario == 6 { Some(chars[1 + pick(c.cut, n_chars - 1)]) } else { None };
    let mut last_press_time: Option<u64> = None;
    let mut down: Vec<u16> = vec![];
    let mut typed_chars = 0usize;
    let mut restarted = false;
    let mut i_next = 0usize;
    while i_next < steps.len() {
        let i = i_next;
        i_next += 1;
        let st = &steps[i];
        if Some(i) == cut_at {
            break;
        }
        if Some(i) == leader_again_at && !restarted {
            if !down.is_empty() {
                return Verdict::discard("leader-again-needs-no-held-key");
            }
            sim.press(code_of("l"));
            sim.tick_n(1);
            sim.release(code_of("l"));
            sim.tick_n(1);
            restarted = true;
            if c.mode % 3 == 1 {
                // hidden-suppressed: the sequence starts over
                i_next = 0;
                typed_chars = 0;
                continue;
            }
        }
        if let (Some(p), true) = (pause_before_last, i == last_char_step) {
            // make the distance between the previous key press and this one exactly p ms
            if let Some(lp) = last_press_time {
                let now = sim.ticks;
                let target = lp + p;
                if target > now {
                    sim.tick_n(target - now);
                }
            }
        }
        match st {
            Step::Down(k) => {
                sim.press(*k);
                last_press_time = Some(sim.ticks);
                down.push(*k);
                if chars.contains(&i) {
                    typed_chars += 1;
                }
            }
            Step::Up(k) => {
                sim.release(*k);
                down.retain(|d| d != k);
            }
        }
        // one event per millisecond (fast enough for every group to fit into T = 10)
        sim.tick_n(1);
    }
    if cut_at.is_some() {
        // release what is held, then a key that continues no sequence
        for k in down.clone() {
            sim.release(k);
            sim.tick_n(2);
        }
        sim.press(code_of("x"));
        sim.tick_n(2);
        sim.release(code_of("x"));
        sim.tick_n(2);
    }
    for k in down.clone() {
        sim.release(k);
        sim.tick_n(2);
    }
    if cut_at.is_some() {
        // the key that continues no sequence has ended sequence mode: the whole sequence typed
        // now, without the leader, is ordinary typing
        for st in steps.iter() {
            match st {
                Step::Down(k) => sim.press(*k),
                Step::Up(k) => sim.release(*k),
            }
            sim.tick_n(1);
        }
    }
    // second session (scenario 5): after the completed sequence, the leader again, a proper
    // prefix and a key that continues no sequence
    let mut second_session_from: Option<usize> = None;
    let mut second_session_chars: Vec<u16> = vec![];
    if c.scenario == 5 {
        sim.tick_n(t + 20);
        sim.press(code_of("l"));
        sim.tick_n(1);
        sim.release(code_of("l"));
        sim.tick_n(1);
        second_session_from = Some(sim.outs.len() - start_out);
        let k = 1 + pick(c.cut, n_chars - 1);
        let mut down2: Vec<u16> = vec![];
        for (i, st) in steps.iter().enumerate() {
            if i == chars[k] {
                break;
            }
            match st {
                Step::Down(kc) => {
                    sim.press(*kc);
                    down2.push(*kc);
                    if chars.contains(&i) {
                        second_session_chars.push(*kc);
                    }
                }
                Step::Up(kc) => {
                    sim.release(*kc);
                    down2.retain(|d| d != kc);
                }
            }
            sim.tick_n(1);
        }
        for kc in down2 {
            sim.release(kc);
            sim.tick_n(2);
        }
        sim.press(code_of("x"));
        sim.tick_n(2);
        sim.release(code_of("x"));
        sim.tick_n(2);
        second_session_chars.push(code_of("x"));
    }
    if c.scenario == 7 {
        // the same sequence a second time: leader, the whole sequence again
        sim.tick_n(t + 20);
        sim.press(code_of("l"));
        sim.tick_n(1);
        sim.release(code_of("l"));
        sim.tick_n(1);
        for st in steps.iter() {
            match st {
                Step::Down(k) => sim.press(*k),
                Step::Up(k) => sim.release(*k),
            }
            sim.tick_n(1);
        }
    }
    sim.tick_n(t + 20);
    let outs = sim.outs[start_out..].to_vec();
    let vk_codes: Vec<u16> = VK_OUT.iter().map(|n| code_of(n)).collect();
    let fired: Vec<usize> = outs.iter().filter_map(|o| if let OutEv::Down(k) = o.ev { vk_codes.iter().position(|c| *c == k) } else { None }).collect();
    let expect_fire = match c.scenario {
        1 if cut_at.is_some() => false,
        // distance between two key presses: < T continues, >= T ends sequence mode (with a single
        // character there is no previous press inside the sequence when always-on is off: the
        // leader's activation counts)
        3 | 4 => false,
        _ => true,
    };
    // pause scenarios with a one-character sequence measure from nothing: skip them
    if matches!(c.scenario, 2 | 3 | 4) && (n_chars < 2 || steps.iter().take(last_char_step).all(|s| matches!(s, Step::Up(_)))) {
        return Verdict::discard("pause-scenario-needs-two-presses");
    }
    let scen = ["full", "prefix-then-other-key-then-full-without-leader", "pause T-1", "pause T", "pause T+1", "full, then leader + prefix + other key", "leader pressed again after a proper prefix"][c.scenario as usize % 7];
    let describe = || format!("{text}typed sequence #{which} {:?} ({scen}, {} hand, mode {}): output {}", seq.iter().map(item_text).collect::<Vec<_>>(), if c.right_hand { "right" } else { "left" }, c.mode, fmt_outs(&outs));
    // F35: an O- group followed by further items cannot be completed when another
    // sequence starts with the same keys, in the typed order, as plain (non-overlapping)
    // items: the standard tracking stays valid through the group, and when it finally
    // fails the overlap tracking only retries with a second end-of-overlap marker; sequence
    // mode is cancelled or backtracks into a different, shorter sequence.
    let has_twin = || -> bool {
        let (steps_all, chars_all) = typing(seq, c.perm, c.right_hand);
        // key codes (with modifier masks ignored: groups have none) typed up to the end of each overlap group
        let mut typed_keys: Vec<u16> = vec![];
        let mut idx = 0usize;
        let mut twin = false;
        for it in seq.iter() {
            let n = match it {
                SI::Key(_) | SI::Mod(..) => 1,
                SI::ModGroup(_, ks) | SI::Overlap(ks) => ks.len(),
            };
            for ci in &chars_all[idx..idx + n] {
                if let Step::Down(k) = steps_all[*ci] {
                    typed_keys.push(k);
                }
            }
            idx += n;
            if matches!(it, SI::Overlap(_)) && idx < chars_all.len() {
                for (j, other) in c.seqs.iter().enumerate() {
                    if j == which {
                        continue;
                    }
                    for oe in encodings(other).iter().map(|e| e.iter().copied().filter(|x| *x != OVERLAP).collect::<Vec<u16>>()) {
                        if oe.len() >= typed_keys.len() && oe[..typed_keys.len()].iter().zip(typed_keys.iter()).all(|(a, b)| a & 0x03ff == *b) {
                            twin = true;
                        }
                    }
                }
            }
        }
        // the mirrored situation: the typed sequence is the plain twin - another sequence has
        // an O- group, and what is typed runs through that group's keys in one of its orders
        if !twin {
            let mods: Vec<u16> = ["lsft", "rsft", "lctl", "rctl", "lalt", "ralt", "lmet", "rmet"].iter().map(|m| code_of(m)).collect();
            let all_typed: Vec<u16> = chars_all.iter().filter_map(|ci| if let Step::Down(k) = steps_all[*ci] { Some(k) } else { None }).collect();
            for (j, other) in c.seqs.iter().enumerate() {
                if j == which || !other.iter().any(|it| matches!(it, SI::Overlap(_))) {
                    continue;
                }
                for oe in encodings(other) {
                    let Some(end) = oe.iter().position(|x| *x == OVERLAP) else { continue };
                    let prefix: Vec<u16> = oe[..end].iter().map(|x| x & 0x03ff).filter(|x| !mods.contains(x)).collect();
                    if !prefix.is_empty() && all_typed.len() >= prefix.len() && all_typed[..prefix.len()] == prefix[..] {
                        twin = true;
                    }
                }
            }
        }
        twin
    };
    if expect_fire {
        if fired != if c.scenario == 7 { vec![which, which] } else { vec![which] } {
            if has_twin() {
                return Verdict::failed("mismatch:overlap-group-then-more-with-twin:not-fired", format!("{}\nvirtual keys fired: {fired:?}, expected exactly [{which}]", describe()));
            }
            return Verdict::failed("mismatch:sequence-not-fired-exactly-once", format!("{}\nvirtual keys fired: {fired:?}, expected exactly [{which}]{}", describe(), if c.scenario == 7 { " twice" } else { "" }));
        }
    } else if !fired.is_empty() {
        if !fired.contains(&which) && has_twin() {
            return Verdict::failed("mismatch:overlap-group-then-more-with-twin:fired-other", format!("{}\nvirtual keys fired: {fired:?}, expected none", describe()));
        }
        return Verdict::failed("mismatch:sequence-fired-unexpectedly", format!("{}\nvirtual keys fired: {fired:?}, expected none", describe()));
    }
    if !sim.k.sequence_state.is_inactive() && !c.always_on {
        return Verdict::failed("mismatch:sequence-mode-not-left", describe());
    }
    let mut os = OsState::default();
    for o in &sim.outs {
        os.apply(o);
    }
    if os.anything_down() {
        return Verdict::failed("mismatch:sequence-key-left-down", format!("{}\nstill down: {:?}", describe(), os.keys));
    }
    if let Some(from) = second_session_from {
        if c.mode % 3 == 2 {
            // hidden-delay-type: a failed sequence types what was typed in it - in this session
            let char_codes: Vec<u16> = KEYS.iter().map(|k| code_of(k)).chain([code_of("x")]).collect();
            let typed_back: Vec<u16> = outs[from..].iter().filter_map(|o| match o.ev { OutEv::Down(k) if char_codes.contains(&k) => Some(k), _ => None }).collect();
            if typed_back != second_session_chars {
                return Verdict::failed(
                    "mismatch:delay-type-types-other-than-this-session",
                    format!("{}\nthe failed second session typed {:?}, the output has {:?}", describe(), second_session_chars.iter().map(|k| out_name(*k)).collect::<Vec<_>>(), typed_back.iter().map(|k| out_name(*k)).collect::<Vec<_>>()),
                );
            }
        }
    }
    if expect_fire && c.scenario == 0 {
        let typed_codes: Vec<u16> = KEYS.iter().map(|k| code_of(k)).chain(["lsft", "rsft", "lctl", "rctl", "lalt", "ralt", "lmet", "rmet"].iter().map(|k| code_of(k))).collect();
        let first_vk = outs.iter().position(|o| matches!(o.ev, OutEv::Down(k) if vk_codes.contains(&k))).unwrap_or(outs.len());
        let before = &outs[..first_vk];
        match c.mode % 3 {
            1 | 2 => {
                if let Some(o) = before.iter().find(|o| matches!(o.ev, OutEv::Down(k) if typed_codes.contains(&k))) {
                    return Verdict::failed("mismatch:hidden-mode-pressed-typed-key", format!("{}\na typed key was pressed at the OS while the sequence was in progress: {:?}", describe(), o));
                }
            }
            _ => {
                let bs = before.iter().filter(|o| matches!(o.ev, OutEv::Down(k) if k == code_of("bspc"))).count();
                if bs != typed_chars {
                    return Verdict::failed("mismatch:visible-backspaced-count", format!("{}\n{bs} backspaces for {typed_chars} typed characters", describe()));
                }
            }
        }
    }
    if c.scenario == 7 {
        v.classes.push("typed-twice");
    }
    v.classes.push(match c.scenario % 7 {
        6 => "leader-again-mid-sequence",
        0 => "typed-full",
        1 => "typed-prefix-then-other",
        2 => "pause-T-1",
        3 => "pause-T",
        4 => "pause-T+1",
        _ => "two-sessions",
    });
    if has_overlap {
        v.classes.push("overlap-group");
    }
    if c.right_hand {
        v.classes.push("right-hand-modifier");
    }
    if seq.iter().any(|i| matches!(i, SI::Mod(p, _) | SI::ModGroup(p, _) if *p >= 5)) {
        v.classes.push("right-hand-prefix-in-table");
    }
    v
}

fn item_strategy() -> BoxedStrategy<SI> {
    let distinct = |n: std::ops::Range<usize>| {
        prop::collection::vec(0usize..N_PLAIN, n).prop_map(|v| {
            let mut out: Vec<usize> = vec![];
            for k in v {
                if !out.contains(&k) {
                    out.push(k);
                }
            }
            out
        })
    };
    prop_oneof![
        5 => (0usize..N_PLAIN).prop_map(SI::Key),
        3 => (0usize..PFX.len(), 0usize..N_PLAIN).prop_map(|(p, k)| SI::Mod(p, k)),
        1 => (0usize..PFX.len(), distinct(1..4)).prop_map(|(p, ks)| SI::ModGroup(p, ks)),
        4 => distinct(2..5).prop_filter_map("group needs 2 keys", |ks| if ks.len() >= 2 { Some(SI::Overlap(ks)) } else { None }),
        // the documented maximum: groups of up to 6 keys (5 or 6 of a-f in a generated order)
        1 => (Just((0..KEYS.len()).collect::<Vec<usize>>()).prop_shuffle(), 5usize..=6).prop_map(|(ks, n)| SI::Overlap(ks[..n].to_vec())),
    ]
    .boxed()
}

impl TypedProp for C12 {
    type C = SCase;
    fn id(&self) -> &'static str {
        "C12"
    }
    fn info(&self) -> PropInfo {
        PropInfo {
            level: "exploration",
            rule: "tables: 1-5 defseq sequences of 1-4 items over keys a-d: plain keys, chorded keys with every modifier prefix (S- C- A- M- RA- RS- RC- RM-), chorded groups, O-(..) groups of 2-4 keys of a-d, one group in five of 5-6 keys of a-f (6 is the maximum the parser accepts); input modes visible-backspaced / hidden-suppressed / hidden-delay-type, sequence-always-on, timeouts {10,50}. Oracle (i): the harness encodes every sequence and every O- permutation itself (documented bit layout) and decides prefix-freedom: the parser must accept iff prefix-free, and the compiled table must answer HasValue(the right virtual key) for every encoding and InTrie for every proper prefix. Oracle (ii): for an accepted table one sequence is typed physically (every O- order, left- or right-hand modifier): fully => its virtual key exactly once, no other, sequence mode left, nothing down; hidden modes press no typed key, visible-backspaced sends one backspace per typed character; a proper prefix followed by a key in no sequence, then the whole sequence again without the leader => no virtual key; the full sequence, then the leader again with a proper prefix and a key in no sequence => the virtual key exactly once, and in hidden-delay-type the failed session types exactly its own keys; the leader pressed again after a proper prefix (no key held) => ignored in visible-backspaced and hidden-delay-type (the rest completes the sequence), a restart in hidden-suppressed (the whole sequence typed again completes it): the virtual key exactly once; a pause of T-1 ms between two key presses still completes, T and T+1 do not; the whole sequence typed a second time after a new leader fires its virtual key a second time. Non-trivial: >= 2 sequences share a first key, or an O- group occurs. Distinct: hash of the case.",
            assumptions: vec!["pinned timeout convention: a key press fewer than T ms after the previous one continues the sequence".into()],
            extra: BTreeMap::new(),
        }
    }
    fn plan(&self, tier: Tier) -> Plan {
        Plan {
            n_cases: match tier {
                Tier::Quick => 250_000,
                Tier::Thorough => 6_000_000,
            },
            exhaustive: false,
            distinct_by_construction: false,
            required_classes: vec!["overlap-group-of-5-or-6-keys", "typed-twice", 
                "accepted", "rejected-conflict", "typed-full", "typed-prefix-then-other", "pause-T-1", "pause-T", "pause-T+1", "two-sessions", "leader-again-mid-sequence", "overlap-group",
                "right-hand-modifier", "right-hand-prefix-in-table",
            ],
            hang_secs: 60,
        }
    }
    fn gen(&self, _tier: Tier, _seed: u64, _idx: u64) -> Gen<SCase> {
        Gen::Strat(0)
    }
    fn strategy(&self, _tier: Tier, _key: u32) -> BoxedStrategy<SCase> {
        (
            prop::collection::vec(prop::collection::vec(item_strategy(), 1..4), 1..6),
            0u8..3,
            prop::sample::select(vec![10u16, 50]),
            prop::bool::weighted(0.15),
            any::<u16>(),
            any::<u16>(),
            any::<bool>(),
            0u8..8,
            any::<u16>(),
        )
            .prop_map(|(mut seqs, mode, timeout, always_on, which, perm, right_hand, scenario, cut)| {
                // one group of 5-6 keys per table (720 orders each; the encodings multiply)
                let mut big = 0;
                for it in seqs.iter_mut().flatten() {
                    if let SI::Overlap(ks) = it {
                        if ks.len() >= 5 {
                            big += 1;
                            if big > 1 {
                                ks.truncate(3);
                            }
                        }
                    }
                }
                // bound the number of encodings of the table (orders multiply within a sequence)
                let fact = |n: usize| (1..=n).product::<usize>();
                loop {
                    let total: usize = seqs.iter().map(|sq| sq.iter().map(|it| if let SI::Overlap(ks) = it { fact(ks.len()) } else { 1 }).product::<usize>()).sum();
                    if total <= 3000 {
                        break;
                    }
                    // shorten the longest group that is not the (first) big one
                    let mut best: Option<(usize, usize, usize)> = None;
                    let mut seen_big = false;
                    for (i, sq) in seqs.iter().enumerate() {
                        for (j, it) in sq.iter().enumerate() {
                            if let SI::Overlap(ks) = it {
                                if ks.len() >= 5 && !seen_big {
                                    seen_big = true;
                                    continue;
                                }
                                if ks.len() > 2 && best.map_or(true, |b| ks.len() > b.2) {
                                    best = Some((i, j, ks.len()));
                                }
                            }
                        }
                    }
                    match best {
                        Some((i, j, _)) => {
                            if let SI::Overlap(ks) = &mut seqs[i][j] {
                                ks.pop();
                            }
                        }
                        None => {
                            // only groups of two are left next to the big one: drop the last item of the longest sequence
                            let i = (0..seqs.len()).max_by_key(|i| seqs[*i].len()).unwrap();
                            if seqs[i].len() > 1 {
                                seqs[i].pop();
                            } else {
                                break;
                            }
                        }
                    }
                }
                SCase {
                seqs,
                mode,
                timeout,
                // (undocumented) sequence-always-on only makes sense with the visible mode: in
                // the hidden modes it hides everything that is ever typed, the virtual key's
                // own output included
                // and every key typed after a failed sequence starts a new one at once, so the
                // negative scenarios are only meaningful without it
                always_on: always_on && mode == 0 && scenario == 0,
                which,
                perm,
                right_hand,
                scenario,
                cut,
            }})
            .boxed()
    }
    fn judge(&self, case: &SCase) -> Verdict {
        judge_case(case)
    }
}
