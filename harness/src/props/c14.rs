//! C14 — OS key-repeat is forwarded for, and only for, keys kanata is holding down.
use crate::engine::*;
use crate::gen::hist::*;
use crate::sim::{code_of, fmt_outs, out_name, OsState, OutEv, Sim};
use kanata_state_machine::oskbd::KeyValue;
use proptest::prelude::*;
use serde_json::{json, Value};
use std::collections::{BTreeMap, BTreeSet};

pub struct C14;

/// physical keys: a, b carry generated actions on layers l0/l1; c holds l1; d is an unmod/unshift key
const POOL: [&str; 30] = [
    "e", "f", "g", "h", "i", "j", "k", "l", "m", "n", "o", "p", "q", "r", "s", "t", "u", "v", "w", "x", "y", "z", "1", "2", "3", "4", "5", "6", "7",
    "8",
];
const MODS: [(&str, &str); 4] = [("S-", "lsft"), ("C-", "lctl"), ("A-", "lalt"), ("RS-", "rsft")];

#[derive(Clone, Debug, PartialEq, Eq, Hash)]
pub enum RA {
    Key(u8),
    Chord(Vec<u8>, u8),
    Multi(Vec<RA>),
    TapHold(u8, Box<RA>, Box<RA>),
    TapDance(bool, Vec<RA>),
    OneShot(Box<RA>),
    Fork(Box<RA>, Box<RA>),
    Switch(Vec<RA>),
    Unmod(u8),
    Unshift(u8),
    UseDefsrc,
    Trans,
    XX,
}

#[derive(Clone, Debug, PartialEq, Eq, Hash)]
pub struct RCase {
    /// cells[layer][key]: key 0 = a, 1 = b
    pub cells: Vec<Vec<RA>>,
    pub d_action: u8,
    pub overrides: bool,
    /// bit 0: a chords-v2 chord over (a b); bit 1: the l1 cells are v1 chord keys;
    /// bits 2-3: 0 = none, 1-3 = key d is a sequence leader (visible-backspaced / hidden-suppressed / hidden-delay-type)
    pub extras: u8,
    pub hist: Vec<Ev>,
}

fn cell_pool(layer: usize, key: usize) -> &'static [&'static str] {
    let c = layer * 2 + key;
    &POOL[c * 6..c * 6 + 6]
}

fn ra_text(a: &RA, pool: &[&str], depth: usize) -> String {
    let k = |i: u8| pool[i as usize % pool.len()];
    match a {
        RA::Key(i) => k(*i).to_string(),
        RA::Chord(ms, i) => {
            let mut s = String::new();
            let mut used = vec![];
            for m in ms {
                let m = *m as usize % MODS.len();
                if !used.contains(&m) {
                    used.push(m);
                    s.push_str(MODS[m].0);
                }
            }
            s.push_str(k(*i));
            s
        }
        RA::Multi(v) => format!("(multi {})", v.iter().map(|x| ra_text(x, pool, depth + 1)).collect::<Vec<_>>().join(" ")),
        RA::TapHold(var, t, h) => {
            let v = *var as usize % 5;
            let name = ["tap-hold", "tap-hold-press", "tap-hold-release", "tap-hold-press-timeout", "tap-hold-release-timeout"][v];
            if v >= 3 {
                // the timeout action is a key of its own
                format!("({name} 0 20 {} {} {})", ra_text(t, pool, depth + 1), ra_text(h, pool, depth + 1), k(5))
            } else {
                format!("({name} 0 20 {} {})", ra_text(t, pool, depth + 1), ra_text(h, pool, depth + 1))
            }
        }
        RA::TapDance(eager, v) => format!(
            "({} 20 ({}))",
            if *eager { "tap-dance-eager" } else { "tap-dance" },
            v.iter().map(|x| ra_text(x, pool, depth + 1)).collect::<Vec<_>>().join(" ")
        ),
        RA::OneShot(x) => format!("(one-shot 40 {})", ra_text(x, pool, depth + 1)),
        RA::Fork(l, r) => format!("(fork {} {} (lctl))", ra_text(l, pool, depth + 1), ra_text(r, pool, depth + 1)),
        RA::Switch(v) => {
            let mut s = String::from("(switch");
            for (i, x) in v.iter().enumerate() {
                let cond = if i + 1 == v.len() { "()".to_string() } else { "(lalt)".to_string() };
                s.push_str(&format!(" {cond} {} break", ra_text(x, pool, depth + 1)));
            }
            s.push(')');
            s
        }
        RA::Unmod(i) => format!("(unmod {})", k(*i)),
        RA::Unshift(i) => format!("(unshift {})", k(*i)),
        RA::UseDefsrc => "use-defsrc".into(),
        RA::Trans => "_".into(),
        RA::XX => "XX".into(),
    }
}

/// no waiting action inside a tap-hold tap position / multi restrictions: sanitise generated ASTs
fn sanitise(a: &RA, allow_waiting: bool, in_tap: bool) -> RA {
    match a {
        RA::Multi(v0) => {
            // nested multis are flattened by the parser: flatten first so that at most one
            // waiting action remains in the whole group
            fn flat(v: &[RA], out: &mut Vec<RA>) {
                for x in v {
                    match x {
                        RA::Multi(inner) => flat(inner, out),
                        o => out.push(o.clone()),
                    }
                }
            }
            let mut v: Vec<RA> = vec![];
            flat(v0, &mut v);
            let mut waiting_used = false;
            let items: Vec<RA> = v
                .iter()
                .map(|x| {
                    let is_w = matches!(x, RA::TapHold(..) | RA::TapDance(false, _));
                    if is_w && (waiting_used || !allow_waiting) {
                        RA::XX
                    } else {
                        if is_w {
                            waiting_used = true;
                        }
                        match sanitise(x, allow_waiting, in_tap) {
                            RA::Multi(inner) => RA::Multi(inner), // nested multis are flattened by the parser
                            o => o,
                        }
                    }
                })
                .collect();
            RA::Multi(items)
        }
        RA::TapHold(var, t, h) => {
            if in_tap || !allow_waiting {
                sanitise(t, false, in_tap)
            } else {
                RA::TapHold(*var, Box::new(sanitise(t, false, true)), Box::new(sanitise(h, false, false)))
            }
        }
        RA::TapDance(e, v) => {
            if !*e && !allow_waiting {
                sanitise(&v[0], false, in_tap)
            } else {
                RA::TapDance(*e, v.iter().map(|x| sanitise(x, false, in_tap)).collect())
            }
        }
        RA::OneShot(x) => match &**x {
            RA::Key(_) | RA::Chord(..) => a.clone(),
            _ => RA::OneShot(Box::new(RA::Key(0))),
        },
        RA::Fork(l, r) => RA::Fork(Box::new(sanitise(l, false, in_tap)), Box::new(sanitise(r, false, in_tap))),
        RA::Switch(v) => RA::Switch(v.iter().map(|x| sanitise(x, false, in_tap)).collect()),
        o => o.clone(),
    }
}

fn seq_mode(c: &RCase) -> u8 {
    (c.extras >> 2) & 3
}
fn cfg_text(c: &RCase) -> String {
    let mut s = String::from("(defcfg log-layer-changes no concurrent-tap-hold yes");
    match seq_mode(c) {
        1 => s.push_str(" sequence-timeout 40 sequence-input-mode visible-backspaced"),
        2 => s.push_str(" sequence-timeout 40 sequence-input-mode hidden-suppressed"),
        3 => s.push_str(" sequence-timeout 40 sequence-input-mode hidden-delay-type"),
        _ => {}
    }
    s.push_str(")\n(defsrc a b c d lctl lalt ralt)\n");
    let d = if seq_mode(c) != 0 {
        "sldr".to_string()
    } else {
        match c.d_action % 6 {
            0 => "(unmod 9)".to_string(),
            1 => "(unshift 9)".to_string(),
            2 => "(unmod (lsft) 9)".to_string(),
            4 => "(unmod (ralt) 9)".to_string(),
            5 => "(unmod (lalt ralt) 9)".to_string(),
            _ => "9".to_string(),
        }
    };
    for (l, cells) in c.cells.iter().enumerate() {
        let mut a = ra_text(&sanitise(&cells[0], true, false), cell_pool(l, 0), 0);
        let mut b = ra_text(&sanitise(&cells[1], true, false), cell_pool(l, 1), 0);
        if l == 1 && c.extras & 2 != 0 {
            a = "(chord cg0 x)".to_string();
            b = "(chord cg0 y)".to_string();
        }
        if l == 0 {
            s.push_str(&format!("(deflayer l0 {a} {b} (layer-while-held l1) {d} lctl lalt ralt)\n"));
        } else {
            s.push_str(&format!("(deflayer l{l} {a} {b} _ _ _ _ _)\n"));
        }
    }
    if c.overrides {
        // an override on the first pool key of cell (l0, a)
        // ... and a chain: the override of the first pool key outputs the second pool key of
        // the same cell, which has an override of its own
        s.push_str(&format!(
            "(defoverrides (lsft {}) (0) (lctl {}) (lalt min) (lalt {}) ({}) (lctl {}) (kp5))\n",
            cell_pool(0, 0)[0],
            cell_pool(0, 1)[0],
            cell_pool(0, 0)[0],
            cell_pool(0, 0)[1],
            cell_pool(0, 0)[1]
        ));
    }
    if c.extras & 1 != 0 {
        s.push_str("(defchordsv2 (a b) kp1 30 all-released ())\n");
    }
    if c.extras & 2 != 0 {
        // v1 chords on l1: singles use the cells' own pool keys, the pair a key of its own
        s.push_str(&format!("(defchords cg0 30 (x) {} (y) {} (x y) S-kp2)\n", cell_pool(1, 0)[0], cell_pool(1, 1)[0]));
    }
    if seq_mode(c) != 0 {
        s.push_str("(defvirtualkeys vk1 kp3)\n(defseq vk1 (a b))\n");
    }
    s
}

fn ra_json(a: &RA) -> Value {
    match a {
        RA::Key(i) => json!({"key": i}),
        RA::Chord(m, i) => json!({"chord": [m, i]}),
        RA::Multi(v) => json!({"multi": v.iter().map(ra_json).collect::<Vec<_>>()}),
        RA::TapHold(x, t, h) => json!({"taphold": [x, ra_json(t), ra_json(h)]}),
        RA::TapDance(e, v) => json!({"tapdance": [e, v.iter().map(ra_json).collect::<Vec<_>>()]}),
        RA::OneShot(x) => json!({"oneshot": ra_json(x)}),
        RA::Fork(l, r) => json!({"fork": [ra_json(l), ra_json(r)]}),
        RA::Switch(v) => json!({"switch": v.iter().map(ra_json).collect::<Vec<_>>()}),
        RA::Unmod(i) => json!({"unmod": i}),
        RA::Unshift(i) => json!({"unshift": i}),
        RA::UseDefsrc => json!("use-defsrc"),
        RA::Trans => json!("_"),
        RA::XX => json!("XX"),
    }
}
fn ra_from(v: &Value) -> Option<RA> {
    if let Some(s) = v.as_str() {
        return Some(match s {
            "use-defsrc" => RA::UseDefsrc,
            "_" => RA::Trans,
            _ => RA::XX,
        });
    }
    let o = v.as_object()?;
    let (k, val) = o.iter().next()?;
    let u8v = |x: &Value| x.as_u64().map(|y| y as u8);
    let list = |x: &Value| -> Option<Vec<RA>> { x.as_array()?.iter().map(ra_from).collect() };
    Some(match k.as_str() {
        "key" => RA::Key(u8v(val)?),
        "chord" => RA::Chord(val[0].as_array()?.iter().map(u8v).collect::<Option<Vec<_>>>()?, u8v(&val[1])?),
        "multi" => RA::Multi(list(val)?),
        "taphold" => RA::TapHold(u8v(&val[0])?, Box::new(ra_from(&val[1])?), Box::new(ra_from(&val[2])?)),
        "tapdance" => RA::TapDance(val[0].as_bool()?, list(&val[1])?),
        "oneshot" => RA::OneShot(Box::new(ra_from(val)?)),
        "fork" => RA::Fork(Box::new(ra_from(&val[0])?), Box::new(ra_from(&val[1])?)),
        "switch" => RA::Switch(list(val)?),
        "unmod" => RA::Unmod(u8v(val)?),
        "unshift" => RA::Unshift(u8v(val)?),
        _ => return None,
    })
}
impl Case for RCase {
    fn to_json(&self) -> Value {
        json!({"config": cfg_text(self), "cells": self.cells.iter().map(|l| l.iter().map(ra_json).collect::<Vec<_>>()).collect::<Vec<_>>(),
            "d_action": self.d_action, "overrides": self.overrides, "extras": self.extras, "events": hist_to_json(&self.hist)})
    }
    fn from_json(v: &Value) -> Option<Self> {
        Some(RCase {
            cells: v["cells"].as_array()?.iter().map(|l| l.as_array()?.iter().map(ra_from).collect::<Option<Vec<_>>>()).collect::<Option<Vec<_>>>()?,
            d_action: v["d_action"].as_u64()? as u8,
            overrides: v["overrides"].as_bool()?,
            extras: v["extras"].as_u64().unwrap_or(0) as u8,
            hist: hist_from_json(&v["events"])?,
        })
    }
    fn canon_hash(&self) -> u64 {
        use std::hash::{Hash, Hasher};
        let mut h = rustc_hash::FxHasher::default();
        self.hash(&mut h);
        h.finish()
    }
}

fn nested_depth(a: &RA) -> usize {
    match a {
        RA::Multi(v) | RA::TapDance(_, v) | RA::Switch(v) => 1 + v.iter().map(nested_depth).max().unwrap_or(0),
        RA::TapHold(_, t, h) => 1 + nested_depth(t).max(nested_depth(h)),
        RA::Fork(l, r) => 1 + nested_depth(l).max(nested_depth(r)),
        RA::OneShot(x) => 1 + nested_depth(x),
        _ => 0,
    }
}

fn ra_strategy() -> BoxedStrategy<RA> {
    let leaf = prop_oneof![
        6 => (0u8..6).prop_map(RA::Key),
        4 => (prop::collection::vec(0u8..4, 1..3), 0u8..6).prop_map(|(m, k)| RA::Chord(m, k)),
        1 => (0u8..6).prop_map(RA::Unmod),
        1 => (0u8..6).prop_map(RA::Unshift),
        1 => Just(RA::UseDefsrc),
        2 => Just(RA::Trans),
    ];
    leaf.prop_recursive(3, 12, 3, |inner| {
        prop_oneof![
            2 => prop::collection::vec(inner.clone(), 2..4).prop_map(RA::Multi),
            2 => (0u8..5, inner.clone(), inner.clone()).prop_map(|(v, t, h)| RA::TapHold(v, Box::new(t), Box::new(h))),
            2 => (any::<bool>(), prop::collection::vec(inner.clone(), 1..4)).prop_map(|(e, v)| RA::TapDance(e, v)),
            1 => inner.clone().prop_map(|x| RA::OneShot(Box::new(x))),
            1 => (inner.clone(), inner.clone()).prop_map(|(l, r)| RA::Fork(Box::new(l), Box::new(r))),
            1 => prop::collection::vec(inner, 1..3).prop_map(RA::Switch),
        ]
    })
    .boxed()
}

fn judge_case(c: &RCase) -> Verdict {
    let text = cfg_text(c);
    let mut sim = match Sim::new(&text) {
        Ok(s) => s,
        Err(e) => return Verdict::failed("harness:repeat-config-rejected", format!("{text}\n{e}")),
    };
    let phys = [code_of("a"), code_of("b"), code_of("c"), code_of("d")];
    let mods: BTreeSet<u16> = ["lsft", "lctl", "lalt", "rsft"].iter().map(|m| code_of(m)).collect();
    // keys that only physical key i can have put down: its pools on every layer, its own code
    // (use-defsrc / transparent on the base layer) and the override outputs of its pool keys
    let mut owned: Vec<BTreeSet<u16>> = vec![BTreeSet::new(), BTreeSet::new()];
    for l in 0..c.cells.len() {
        for k in 0..2 {
            for n in cell_pool(l, k) {
                owned[k].insert(code_of(n));
            }
        }
    }
    owned[0].insert(phys[0]);
    owned[1].insert(phys[1]);
    if c.overrides {
        owned[0].insert(code_of("0"));
        owned[0].insert(code_of("kp5"));
        owned[1].insert(code_of("min"));
    }
    // chord outputs belong to both keys
    if c.extras & 1 != 0 {
        owned[0].insert(code_of("kp1"));
        owned[1].insert(code_of("kp1"));
    }
    if c.extras & 2 != 0 {
        owned[0].insert(code_of("kp2"));
        owned[1].insert(code_of("kp2"));
    }
    let mut os = OsState::default();
    let mut applied = 0usize;
    let mut last_layer_change: Option<u64> = None;
    let mut press_time: [Option<u64>; 4] = [None; 4];
    // physical lctl / lalt keys down
    let mut press_time_mod = [false; 2];
    // F44 classifier: keys that entered kanata's list of pressed keys in a tick that began in
    // a hidden sequence mode (their press is not sent to the OS) and have stayed there since
    let mut suppressed: BTreeSet<u16> = BTreeSet::new();
    let mut deferred: Option<Verdict> = None;
    let mut v = Verdict::pass(false);
    let mut any_repeat_out = false;
    let mut any_complete = false;
    let describe = |sim: &Sim| format!("{text}history: {}\noutput: {}", hist_to_string(&c.hist), fmt_outs(&sim.outs));
    for ev in &c.hist {
        match ev {
            Ev::Press(k) => {
                if let Some(i) = phys.iter().position(|p| p == k) {
                    press_time[i] = Some(sim.ticks);
                    if i == 2 {
                        last_layer_change = Some(sim.ticks);
                    }
                }
                if *k == code_of("lctl") {
                    press_time_mod[0] = true;
                }
                if *k == code_of("lalt") {
                    press_time_mod[1] = true;
                }
                sim.input(*k, KeyValue::Press);
            }
            Ev::Release(k) => {
                if *k == code_of("lctl") {
                    press_time_mod[0] = false;
                }
                if *k == code_of("lalt") {
                    press_time_mod[1] = false;
                }
                if let Some(i) = phys.iter().position(|p| p == k) {
                    press_time[i] = None;
                    if i == 2 {
                        last_layer_change = Some(sim.ticks);
                    }
                }
                sim.input(*k, KeyValue::Release);
            }
            Ev::Gap(g) => {
                for _ in 0..*g {
                    let was_active = seq_mode(c) >= 2 && !sim.k.sequence_state.is_inactive();
                    let before: Vec<u16> = sim.k.prev_keys.iter().map(|k| u16::from(kanata_state_machine::OsCode::from(*k))).collect();
                    sim.tick();
                    let after: Vec<u16> = sim.k.prev_keys.iter().map(|k| u16::from(kanata_state_machine::OsCode::from(*k))).collect();
                    suppressed.retain(|k| after.contains(k));
                    for k in &after {
                        if !before.contains(k) && was_active {
                            suppressed.insert(*k);
                        }
                    }
                }
            }
            Ev::Repeat(k) => {
                for o in &sim.outs[applied..] {
                    os.apply(o);
                }
                applied = sim.outs.len();
                let before = sim.outs.len();
                let seq_active_before = !sim.k.sequence_state.is_inactive();
                sim.input(*k, KeyValue::Repeat);
                let produced: Vec<_> = sim.outs[before..].to_vec();
                applied = sim.outs.len();
                // safety
                if produced.len() > 1 {
                    return Verdict::failed("repeat:more-than-one-event", format!("{}\nthe repeat of {} produced {}", describe(&sim), out_name(*k), fmt_outs(&produced)));
                }
                if seq_mode(c) >= 2 && seq_active_before && !produced.is_empty() {
                    return Verdict::failed("repeat:forwarded-during-hidden-sequence", format!("{}\nthe repeat of {} produced {} while a hidden sequence mode was active", describe(&sim), out_name(*k), fmt_outs(&produced)));
                }
                if let Some(o) = produced.first() {
                    any_repeat_out = true;
                    match o.ev {
                        OutEv::Down(rk) => {
                            if !os.keys.contains(&rk) {
                                // F21: the check that the key is "active" looks at the layout's keys,
                                // not at what is down at the OS after unmod / unshift removed a modifier
                                // F44: a key pressed while a hidden sequence mode was active is never
                                // pressed at the OS, yet it counts as held once the mode has ended
                                let in_hidden_seq = suppressed.contains(&rk);
                                let sig = if in_hidden_seq {
                                    "repeat:for-key-that-is-up:pressed-during-hidden-sequence"
                                } else if mods.contains(&rk) && (text.contains("(unmod") || text.contains("(unshift")) {
                                    "repeat:for-key-that-is-up:modifier-removed-by-unmod"
                                } else {
                                    "repeat:for-key-that-is-up"
                                };
                                let f = Verdict::failed(sig, format!("{}\nthe repeat of {} was forwarded as {} which is not down at the OS (down: {:?})", describe(&sim), out_name(*k), out_name(rk), os.keys.iter().map(|x| out_name(*x)).collect::<Vec<_>>()));
                                if in_hidden_seq {
                                    // a known finding: keep judging the rest of the history, report
                                    // this one only if nothing else fails
                                    if deferred.is_none() {
                                        deferred = Some(f);
                                    }
                                    continue;
                                }
                                return f;
                            }
                        }
                        _ => {
                            return Verdict::failed("repeat:not-a-key-press", format!("{}\nthe repeat of {} produced {}", describe(&sim), out_name(*k), fmt_outs(&produced)));
                        }
                    }
                }
                // completeness, physical modifier keys (mapped to themselves): while the key's
                // own modifier is down at the OS and nothing is pending, its repeat is forwarded
                if [code_of("lctl"), code_of("lalt"), code_of("ralt")].contains(k) && os.keys.contains(k) {
                    let settled = sim.k.layout.b().queue.is_empty()
                        && sim.k.layout.b().waiting.is_none()
                        && sim.k.sequence_state.is_inactive()
                        && sim.k.layout.b().chords_v2.as_ref().map(|c| c.is_idle_chv2()).unwrap_or(true);
                    if settled && !seq_active_before {
                        any_complete = true;
                        match produced.first().map(|o| &o.ev) {
                            Some(OutEv::Down(rk)) if rk == k => {}
                            other => {
                                return Verdict::failed(
                                    "repeat:not-forwarded:modifier-key",
                                    format!("{}
the modifier key {} is held and down at the OS, its repeat gave {:?}", describe(&sim), out_name(*k), other),
                                );
                            }
                        }
                    }
                }
                // completeness
                if let Some(i) = phys.iter().position(|p| p == k) {
                    if i < 2 {
                        // its own output keys that went down since this press (a key stuck from
                        // earlier in the history is not what this press put down)
                        let since = press_time[i].unwrap_or(0);
                        let down_owned: Vec<u16> = os
                            .keys
                            .iter()
                            .filter(|x| owned[i].contains(x))
                            .filter(|x| sim.outs.iter().rev().find(|o| o.ev == OutEv::Down(**x) && !o.direct).map(|o| o.t > since).unwrap_or(false))
                            .copied()
                            .collect();
                        // the layers active when the key was pressed are still the active ones: no
                        // layer change since well before the press (a tap-dance / tap-hold begun
                        // under another layer may still own the key)
                        let layers_stable = press_time[i].map(|p| last_layer_change.map(|lc| p > lc + 45).unwrap_or(true)).unwrap_or(false);
                        let settled = sim.k.layout.b().queue.is_empty()
                            && sim.k.layout.b().waiting.is_none()
                            && sim.k.sequence_state.is_inactive()
                            && sim.k.layout.b().chords_v2.as_ref().map(|c| c.is_idle_chv2()).unwrap_or(true);
                        if !down_owned.is_empty() && layers_stable && settled {
                            any_complete = true;
                            match produced.first().map(|o| &o.ev) {
                                None => {
                                    return Verdict::failed("repeat:not-forwarded", format!("{}\nkey {} holds {:?} down at the OS, but its repeat was not forwarded", describe(&sim), out_name(*k), down_owned.iter().map(|x| out_name(*x)).collect::<Vec<_>>()));
                                }
                                Some(OutEv::Down(rk)) => {
                                    let non_mod_down = down_owned.iter().any(|x| !mods.contains(x));
                                    if !owned[i].contains(rk) && !mods.contains(rk) {
                                        return Verdict::failed("repeat:forwarded-for-another-keys-output", format!("{}\nthe repeat of {} came out as {}, which that key did not press", describe(&sim), out_name(*k), out_name(*rk)));
                                    }
                                    if mods.contains(rk) && non_mod_down {
                                        // F39: the modifier is held down by its own physical key as well
                                        let held_elsewhere = (*rk == code_of("lctl") && press_time_mod[0]) || (*rk == code_of("lalt") && press_time_mod[1]);
                                        return Verdict::failed(if held_elsewhere { "repeat:modifier-preferred-over-key:modifier-held-by-its-own-key" } else { "repeat:modifier-preferred-over-key" }, format!("{}\nthe repeat of {} came out as the modifier {} although {:?} are down", describe(&sim), out_name(*k), out_name(*rk), down_owned.iter().map(|x| out_name(*x)).collect::<Vec<_>>()));
                                    }
                                }
                                _ => {}
                            }
                        }
                    }
                }
            }
            Ev::Tap(_) => {}
        }
    }
    let nested = c.cells.iter().flatten().any(|a| nested_depth(a) >= 2);
    let has_trans = c.cells.iter().skip(1).flatten().any(|a| matches!(a, RA::Trans));
    v.nontrivial = (nested || has_trans) && (any_repeat_out || any_complete);
    if any_repeat_out {
        v.classes.push("repeat-forwarded");
    }
    if any_complete {
        v.classes.push("completeness-checked");
    }
    if nested {
        v.classes.push("nested>=2");
    }
    if has_trans {
        v.classes.push("transparent-fallthrough");
    }
    if c.extras & 1 != 0 {
        v.classes.push("chords-v2");
    }
    if c.extras & 2 != 0 {
        v.classes.push("chords-v1");
    }
    if seq_mode(c) != 0 {
        v.classes.push("sequence-leader");
    }
    if c.overrides {
        v.classes.push("overrides");
    }
    if let Some(mut f) = deferred {
        f.nontrivial = v.nontrivial;
        f.classes = v.classes.clone();
        return f;
    }
    v
}

impl TypedProp for C14 {
    type C = RCase;
    fn id(&self) -> &'static str {
        "C14"
    }
    fn info(&self) -> PropInfo {
        PropInfo {
            level: "exploration",
            rule: "configs: two physical keys whose cells on 1-2 layers are generated from every key-producing action form (key, output chord, multi, tap-hold variants, lazy/eager tap-dance, one-shot, fork, switch, unmod, unshift, use-defsrc, transparent) nested up to depth 3, every (key, layer) cell with its own disjoint output keys so the output identifies its origin; a layer-while-held key, an unmod/unshift key (all modifiers, or lsft / ralt / lalt+ralt only), the physical modifier keys lctl lalt ralt, optional overrides, optionally a chords-v2 chord over the two keys, v1 chord keys on the held layer, and a sequence leader with a defseq over the two keys in each of the three input modes. Histories: physically consistent presses/releases with OS repeat events injected for keys that are down (also while a tap-hold is pending). Oracle: safety - one repeat input yields at most one output event, and it is a press of a key that is down at the OS; completeness - when the layers have not changed since the press and nothing is pending, a key that holds some of its own output keys down gets exactly one repeat, for one of them, a non-modifier in preference to a chord's modifiers; a physical modifier key whose modifier is down at the OS gets its repeat forwarded. Non-trivial: an action nested >= 2 deep or a transparent fall-through, and a repeat was forwarded or demanded. Distinct: hash of the case.",
            assumptions: vec!["'down at the OS' is derived from the simulated output (repeats do not change it)".into()],
            extra: BTreeMap::new(),
        }
    }
    fn plan(&self, tier: Tier) -> Plan {
        Plan {
            n_cases: match tier {
                Tier::Quick => 150_000,
                Tier::Thorough => 3_000_000,
            },
            exhaustive: false,
            distinct_by_construction: false,
            required_classes: vec!["repeat-forwarded", "completeness-checked", "nested>=2", "transparent-fallthrough"],
            hang_secs: 60,
        }
    }
    fn gen(&self, _tier: Tier, _seed: u64, _idx: u64) -> Gen<RCase> {
        Gen::Strat(0)
    }
    fn strategy(&self, _tier: Tier, _key: u32) -> BoxedStrategy<RCase> {
        let keys: Vec<u16> = ["a", "b", "c", "d", "lctl", "lalt", "ralt"].iter().map(|k| code_of(k)).collect();
        (
            prop::collection::vec(prop::collection::vec(ra_strategy(), 2..=2), 2..=2),
            0u8..6,
            any::<bool>(),
            // extras: mostly none; each extra alone or combined
            prop_oneof![6 => Just(0u8), 1 => Just(1u8), 1 => Just(2u8), 1 => 1u8..4, 1 => (1u8..4).prop_map(|m| m << 2), 1 => 0u8..16],
            prop::collection::vec((any::<u16>(), any::<u16>(), 0u8..4), 2..24),
        )
            .prop_map(move |(cells, d_action, overrides, extras, steps)| {
                let gaps = [0u32, 1, 1, 2, 5, 21, 60];
                let mut down = vec![false; keys.len()];
                let mut hist = vec![];
                for (ks, gs, kind) in steps {
                    // a/b weighted
                    let ki = [0usize, 0, 1, 1, 2, 3, 4, 5][pick(ks, 8)];
                    let g = gaps[pick(gs, gaps.len())];
                    if g > 0 {
                        hist.push(Ev::Gap(g));
                    }
                    if kind == 0 && down[ki] {
                        hist.push(Ev::Repeat(keys[ki]));
                        continue;
                    }
                    if kind == 1 {
                        // repeat of some key that is down
                        if let Some(j) = (0..keys.len()).find(|j| down[*j]) {
                            hist.push(Ev::Repeat(keys[j]));
                        }
                    }
                    hist.push(if down[ki] { Ev::Release(keys[ki]) } else { Ev::Press(keys[ki]) });
                    down[ki] = !down[ki];
                }
                for (i, d) in down.iter().enumerate() {
                    if *d {
                        hist.push(Ev::Gap(2));
                        hist.push(Ev::Repeat(keys[i]));
                        hist.push(Ev::Release(keys[i]));
                    }
                }
                RCase {
                    cells,
                    d_action,
                    overrides,
                    extras,
                    hist,
                }
            })
            .boxed()
    }
    fn judge(&self, case: &RCase) -> Verdict {
        judge_case(case)
    }
}
