//! C04 — Layered remapping fidelity (model::core, full timestamped equality).
use super::mcase::*;
use crate::engine::*;
use crate::gen::hist::*;
use crate::gen::kc;
use crate::model::*;
use proptest::prelude::*;
use std::collections::BTreeMap;

pub struct C04;

const EXH_GAPS: [u32; 3] = [0, 1, 2];

fn out_keys() -> Vec<u16> {
    ["x", "y", "z", "1", "2", "lsft", "lctl"].iter().map(|n| kc(n)).collect()
}
fn mods() -> Vec<u16> {
    ["lsft", "lctl", "lalt", "rsft"].iter().map(|n| kc(n)).collect()
}

fn leaf(n_layers: usize) -> BoxedStrategy<Act> {
    let ok = out_keys();
    let ok2 = ok.clone();
    let ok3 = ok.clone();
    let md = mods();
    let nl = n_layers;
    prop_oneof![
        8 => any::<u16>().prop_map(move |s| Act::Key(ok[pick(s, ok.len())])),
        2 => (any::<u16>(), any::<u16>(), any::<bool>(), any::<u16>()).prop_map(move |(a, b, two, k)| {
            let m1 = md[pick(a, md.len())];
            let m2 = md[pick(b, md.len())];
            let key = ok2[pick(k, 5)];
            let mut v = vec![m1];
            if two && m2 != m1 { v.push(m2); }
            v.push(key);
            Act::Chord(v)
        }),
        1 => Just(Act::XX),
        4 => Just(Act::Trans),
        1 => Just(Act::UseDefsrc),
        3 => any::<u16>().prop_map(move |s| if nl > 1 { Act::LayerHeld(1 + pick(s, nl - 1)) } else { Act::XX }),
        1 => any::<u16>().prop_map(move |s| Act::LayerSwitch(pick(s, nl))),
        1 => any::<u16>().prop_map(move |s| Act::ReleaseKey(ok3[pick(s, ok3.len())])),
        1 => any::<u16>().prop_map(move |s| Act::ReleaseLayer(pick(s, nl))),
    ]
    .boxed()
}

fn cell(n_layers: usize) -> BoxedStrategy<Act> {
    prop_oneof![
        6 => leaf(n_layers),
        1 => prop::collection::vec(leaf(n_layers), 2..4).prop_map(Act::Multi),
    ]
    .boxed()
}

fn cfg_strategy(src: Vec<u16>, n_layers: std::ops::RangeInclusive<usize>) -> BoxedStrategy<MCfg> {
    (n_layers, any::<bool>(), any::<bool>(), any::<bool>(), any::<bool>(), (0u8..3, any::<u16>()))
        .prop_flat_map(move |(nl, to_base, delegate, block, proc_unmapped, (lm_sel, lm))| {
            let src = src.clone();
            let n = src.len();
            prop::collection::vec(prop::collection::vec(cell(nl), n..=n), nl..=nl).prop_map(move |layers| MCfg {
                src: src.clone(),
                layers,
                layer_stack: !to_base,
                delegate,
                block_unmapped: block,
                process_unmapped: proc_unmapped || block,
                concurrent_tap_hold: false,
                rapid_event_delay: None,
                // one configuration in three writes some layers as deflayermap
                layermap: if lm_sel == 0 { lm } else { 0 },
                chords_v2: vec![],
            })
        })
        .boxed()
}

fn src3() -> Vec<u16> {
    vec![kc("a"), kc("b"), kc("c")]
}

fn k(n: &str) -> Act {
    Act::Key(kc(n))
}

/// Hand-written configs for the exhaustive part (3 keys a b c).
fn fixed_cfgs() -> Vec<MCfg> {
    let base = |layers: Vec<Vec<Act>>, layer_stack: bool, delegate: bool| MCfg {
        src: src3(),
        layers,
        layer_stack,
        delegate,
        block_unmapped: false,
        process_unmapped: false,
        concurrent_tap_hold: false,
        rapid_event_delay: None,
        layermap: 0,
        chords_v2: vec![],
    };
    let sft_x = Act::Chord(vec![kc("lsft"), kc("x")]);
    vec![
        // 0: one held layer with a transparent cell
        base(vec![vec![Act::LayerHeld(1), k("x"), k("y")], vec![Act::Trans, k("1"), Act::Trans]], true, false),
        // 1: two held layers stacked, transparent through both
        base(
            vec![
                vec![Act::LayerHeld(1), Act::LayerHeld(2), k("x")],
                vec![Act::Trans, Act::Trans, k("1")],
                vec![Act::Trans, Act::Trans, Act::Trans],
            ],
            true,
            false,
        ),
        // 2: layer-switch and back, with delegate-to-first-layer
        base(
            vec![vec![Act::LayerSwitch(1), k("x"), k("y")], vec![Act::LayerSwitch(0), Act::Trans, k("2")]],
            true,
            true,
        ),
        // 3: output chords and multi with nested transparent
        base(
            vec![
                vec![Act::LayerHeld(1), sft_x.clone(), k("y")],
                vec![Act::Trans, Act::Multi(vec![k("lctl"), Act::Trans]), sft_x.clone()],
            ],
            true,
            false,
        ),
        // 4: release-key / release-layer
        base(
            vec![
                vec![Act::LayerHeld(1), k("x"), Act::ReleaseKey(kc("x"))],
                vec![Act::Trans, Act::ReleaseLayer(1), k("1")],
            ],
            true,
            false,
        ),
        // 5: use-defsrc, XX and same output key from two inputs
        base(
            vec![vec![Act::LayerHeld(1), k("x"), k("x")], vec![Act::XX, Act::UseDefsrc, Act::Trans]],
            true,
            false,
        ),
    ]
}

fn exh_cfgs(seed: u64) -> Vec<MCfg> {
    let mut v = fixed_cfgs();
    // six generated configs chosen by the seed
    let strat = cfg_strategy(src3(), 2..=3);
    let mut i = 0u64;
    while v.len() < 12 {
        let mut runner = runner_for("C04-exh-cfg", seed, i);
        let mut c = strat.new_tree(&mut runner).expect("cfg").current();
        c.block_unmapped = false;
        c.process_unmapped = false;
        v.push(c);
        i += 1;
    }
    v
}

fn exh_n(tier: Tier) -> u32 {
    match tier {
        Tier::Quick => 5,
        Tier::Thorough => 7,
    }
}

impl TypedProp for C04 {
    type C = MCase;
    fn id(&self) -> &'static str {
        "C04"
    }
    fn info(&self) -> PropInfo {
        PropInfo {
            level: "exploration",
            rule: "exhaustive part: every toggle schedule of 1..N events over keys a,b,c with gaps {0,1,2} ms on 12 small layered configs (6 hand-written, 6 drawn by the seed); random part: generated configs (1-4 layers, 2-6 keys, both transparent-key-resolution settings, delegate-to-first-layer, block/process-unmapped-keys; one in three writes some of its layers as deflayermap: every cell listed, `_` for the most frequent action at a random position, or transparent cells left out) with physically consistent histories of up to 40 events. Oracle: reference model, full timestamped output equality. Non-trivial: an event was processed while a layer was held or switched, or a transparent cell was resolved through >= 2 levels. Distinct: hash of (config, history).",
            assumptions: vec![
                "fewer than 32 events pending (cases with more are discarded and counted)".into(),
                "tick conventions of DESIGN.md Appendix A.1 are part of the oracle".into(),
            ],
            extra: BTreeMap::new(),
        }
    }
    fn plan(&self, tier: Tier) -> Plan {
        let s = n_schedules(3, 3, exh_n(tier));
        let random = match tier {
            Tier::Quick => 60_000,
            Tier::Thorough => 1_500_000,
        };
        Plan {
            n_cases: 12 * s + random,
            exhaustive: false,
            distinct_by_construction: false,
            required_classes: vec!["exhaustive", "random", "trans_depth>=2", "to-base-layer", "delegate", "multi-nested-trans", "deflayermap", "deflayermap-wildcard"],
            hang_secs: 60,
        }
    }
    fn gen(&self, tier: Tier, seed: u64, idx: u64) -> Gen<MCase> {
        let s = n_schedules(3, 3, exh_n(tier));
        if idx < 12 * s {
            thread_local! {
                static CFGS: std::cell::RefCell<Option<(u64, Vec<MCfg>)>> = const { std::cell::RefCell::new(None) };
            }
            let cfg = CFGS.with(|c| {
                let mut c = c.borrow_mut();
                if c.as_ref().map(|(s, _)| *s != seed).unwrap_or(true) {
                    *c = Some((seed, exh_cfgs(seed)));
                }
                c.as_ref().unwrap().1[(idx / s) as usize].clone()
            });
            let keys = src3();
            Gen::Fixed(MCase {
                cfg,
                hist: schedule(idx % s, &keys, &EXH_GAPS, exh_n(tier), 1),
            })
        } else {
            Gen::Strat(0)
        }
    }
    fn strategy(&self, _tier: Tier, _key: u32) -> BoxedStrategy<MCase> {
        let pool: Vec<u16> = ["a", "b", "c", "d", "e", "f"].iter().map(|n| kc(n)).collect();
        (2usize..=6)
            .prop_flat_map(move |n| cfg_strategy(pool[..n].to_vec(), 1..=4))
            .prop_flat_map(|cfg| {
                let mut keys = cfg.src.clone();
                if cfg.process_unmapped {
                    keys.push(kc("q"));
                }
                let h = consistent_history(keys, vec![0, 1, 1, 1, 2, 3, 10], 0..40);
                (Just(cfg), h)
            })
            .prop_map(|(cfg, hist)| MCase { cfg, hist })
            .boxed()
    }
    fn judge(&self, case: &MCase) -> Verdict {
        let settle = 45 + case.hist.len() as u64;
        let run = match run_pair(case, settle, |_| {}) {
            Ok(r) => r,
            Err(v) => return v,
        };
        if run.max_pending >= 32 {
            return Verdict::discard("pending>=32");
        }
        // keyberon searches at most 10 held layers (MAX_ACTIVE_LAYERS - 2): configurations whose
        // `_` chains stack more layer states than that are outside the unbounded model
        if run.max_held_layers >= 11 {
            return Verdict::discard("active-layer-capacity");
        }
        if let Some(why) = run.out_of_domain {
            // the 64-entry state vector (capacity, known finding F31) is outside the model
            if why == "state-vector-capacity" {
                return Verdict::discard(why);
            }
            return Verdict::failed("harness:model-out-of-domain", why);
        }
        let nontrivial = run.layer_active_on_event || run.trans_depth >= 2;
        let mut v = Verdict::pass(nontrivial);
        if let Some(d) = diff_outputs(&run.real, &run.model_out) {
            let mut sig = "mismatch:layered-output";
            if !case.cfg.layer_stack {
                // Is this exactly the known deviation F18 (`_` on a held layer
                // skips the base layer in to-base-layer mode)?  Re-run the model
                // with that one rule changed; only an exact match counts.
                if let Ok(r2) = run_pair(case, settle, |m| m.legacy_skips_base = true) {
                    if diff_outputs(&r2.real, &r2.model_out).is_none() {
                        sig = "mismatch:layered-output:to-base-layer-skips-base";
                    }
                }
            }
            v = Verdict::failed(sig, d);
        } else if !run.real_idle_at_end {
            v = Verdict::failed("mismatch:not-idle-at-end", "all keys released and queue drained but kanata is not idle");
        }
        let exhaustive = case.cfg.src.len() == 3 && !case.cfg.process_unmapped && !case.cfg.block_unmapped && case.hist.len() <= 2 * 7 + 6;
        v.classes.push(if exhaustive { "exhaustive" } else { "random" });
        if run.trans_depth >= 2 {
            v.classes.push("trans_depth>=2");
        }
        if !case.cfg.layer_stack {
            v.classes.push("to-base-layer");
        }
        if case.cfg.delegate {
            v.classes.push("delegate");
        }
        if case.cfg.layers.iter().flatten().any(|a| matches!(a, Act::Multi(m) if m.contains(&Act::Trans))) {
            v.classes.push("multi-nested-trans");
        }
        if case.cfg.layermap & ((1 << case.cfg.layers.len().min(8)) - 1) != 0 {
            v.classes.push("deflayermap");
            if (case.cfg.layermap >> 8) % 3 == 1 {
                v.classes.push("deflayermap-wildcard");
            }
        }
        v
    }
}
