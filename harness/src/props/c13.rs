//! C13 — Global overrides substitute exactly the configured combination, then let go.
use crate::engine::*;
use crate::gen::hist::*;
use crate::sim::{code_of, out_name, OsState, Sim};
use kanata_keyberon::key_code::KeyCode;
use kanata_parser::cfg::OverrideStates;
use kanata_state_machine::OsCode;
use proptest::prelude::*;
use serde_json::{json, Value};
use std::collections::{BTreeMap, BTreeSet};

pub struct C13;

const MODS: [&str; 8] = ["lctl", "lsft", "lalt", "lmet", "rctl", "rsft", "ralt", "rmet"];
const INS: [&str; 4] = ["a", "b", "c", "d"];
const OUTS: [&str; 5] = ["w", "x", "y", "z", "a"];

/// override: (input mod mask, input key idx) -> (output mod mask, output key idx)
#[derive(Clone, Debug, PartialEq, Eq, Hash)]
pub struct Ovr {
    pub in_mods: u8,
    pub in_key: usize,
    pub out_mods: u8,
    pub out_key: usize,
}

#[derive(Clone, Debug, PartialEq, Eq, Hash)]
pub struct OCase {
    pub table: Vec<Ovr>,
    /// pure part: active key list, entries 0..8 = modifiers, 8..12 = input keys
    pub list: Option<Vec<u8>>,
    /// pipeline part
    pub hist: Vec<Ev>,
    pub release_on_activation: bool,
    /// the first entry is made invalid: 0 two non-modifier keys on the input side, 1 two on the
    /// output side, 2 none on the input side, 3 none on the output side; the parser must reject
    pub invalid: Option<u8>,
}

fn uni_name(i: u8) -> &'static str {
    if i < 8 {
        MODS[i as usize]
    } else {
        INS[i as usize - 8]
    }
}

fn table_text(t: &[Ovr], invalid: Option<u8>) -> String {
    let mut s = String::from("(defoverrides");
    for (i, o) in t.iter().enumerate() {
        let im: Vec<&str> = (0..8).filter(|b| o.in_mods & (1 << b) != 0).map(|b| MODS[b]).collect();
        let om: Vec<&str> = (0..8).filter(|b| o.out_mods & (1 << b) != 0).map(|b| MODS[b]).collect();
        let (mut ik, mut ok) = (INS[o.in_key].to_string(), OUTS[o.out_key].to_string());
        if i == 0 {
            match invalid {
                Some(0) => ik = format!("{ik} {}", INS[(o.in_key + 1) % INS.len()]),
                Some(1) => ok = format!("{ok} {}", OUTS[(o.out_key + 1) % OUTS.len()]),
                Some(2) => ik = String::new(),
                Some(3) => ok = String::new(),
                _ => {}
            }
        }
        s.push_str(&format!("\n  ({} {ik}) ({} {ok})", im.join(" "), om.join(" ")));
    }
    s.push_str(")\n");
    s
}
fn cfg_text(c: &OCase) -> String {
    let keys: Vec<&str> = MODS.iter().chain(INS.iter()).copied().collect();
    format!(
        "(defcfg log-layer-changes no{})\n(defsrc {})\n(deflayer l0 {})\n{}",
        if c.release_on_activation { " override-release-on-activation yes" } else { "" },
        keys.join(" "),
        keys.join(" "),
        table_text(&c.table, c.invalid)
    )
}

impl Case for OCase {
    fn to_json(&self) -> Value {
        json!({"config": cfg_text(self),
            "table": self.table.iter().map(|o| json!([o.in_mods, o.in_key, o.out_mods, o.out_key])).collect::<Vec<_>>(),
            "list": self.list.as_ref().map(|l| l.iter().map(|i| uni_name(*i)).collect::<Vec<_>>()),
            "list_idx": self.list, "events": hist_to_json(&self.hist), "release_on_activation": self.release_on_activation, "invalid": self.invalid})
    }
    fn from_json(v: &Value) -> Option<Self> {
        Some(OCase {
            table: v["table"]
                .as_array()?
                .iter()
                .map(|o| {
                    Some(Ovr {
                        in_mods: o[0].as_u64()? as u8,
                        in_key: o[1].as_u64()? as usize,
                        out_mods: o[2].as_u64()? as u8,
                        out_key: o[3].as_u64()? as usize,
                    })
                })
                .collect::<Option<Vec<_>>>()?,
            list: if v["list_idx"].is_null() { None } else { Some(v["list_idx"].as_array()?.iter().map(|x| x.as_u64().map(|y| y as u8)).collect::<Option<Vec<_>>>()?) },
            hist: hist_from_json(&v["events"])?,
            release_on_activation: v["release_on_activation"].as_bool().unwrap_or(false),
            invalid: v["invalid"].as_u64().map(|x| x as u8),
        })
    }
    fn canon_hash(&self) -> u64 {
        use std::hash::{Hash, Hasher};
        let mut h = rustc_hash::FxHasher::default();
        self.hash(&mut h);
        h.finish()
    }
}

fn kc_of(name: &str) -> KeyCode {
    KeyCode::from(OsCode::from_u16(code_of(name)).unwrap())
}

/// Reference: the set of keys the OS should see for an ordered list of keys about to be held.
/// `only_preceding_mods`: count only modifiers that come before the key in the list (the
/// reading the statement leaves open; both are accepted where they differ).
fn reference(table: &[Ovr], list: &[u8], only_preceding_mods: bool) -> Vec<BTreeSet<u16>> {
    // returns the set of acceptable results (ties between overrides with equally many
    // modifiers are not decided by the statement)
    let mut results: Vec<(BTreeSet<u8>, BTreeSet<u16>)> = vec![(BTreeSet::new(), BTreeSet::new())]; // (removed universe idx, added codes)
    let all_mods: u8 = list.iter().filter(|i| **i < 8).fold(0, |a, i| a | (1 << i));
    let mut seen_mods: u8 = 0;
    for item in list {
        if *item < 8 {
            seen_mods |= 1 << item;
            continue;
        }
        let key = *item as usize - 8;
        let held = if only_preceding_mods { seen_mods } else { all_mods };
        let matching: Vec<&Ovr> = table.iter().filter(|o| o.in_key == key && o.in_mods & held == o.in_mods).collect();
        if matching.is_empty() {
            continue;
        }
        let best = matching.iter().map(|o| o.in_mods.count_ones()).max().unwrap();
        let winners: Vec<&&Ovr> = matching.iter().filter(|o| o.in_mods.count_ones() == best).collect();
        let mut next = vec![];
        for (rem, add) in &results {
            for w in &winners {
                let mut r = rem.clone();
                let mut a = add.clone();
                r.insert(*item);
                for b in 0..8u8 {
                    if w.in_mods & (1 << b) != 0 {
                        r.insert(b);
                    }
                    if w.out_mods & (1 << b) != 0 {
                        a.insert(code_of(MODS[b as usize]));
                    }
                }
                a.insert(code_of(OUTS[w.out_key]));
                next.push((r, a));
            }
        }
        next.dedup();
        if next.len() > 16 {
            next.truncate(16);
        }
        results = next;
    }
    results
        .into_iter()
        .map(|(rem, add)| {
            let mut s: BTreeSet<u16> = list.iter().filter(|i| !rem.contains(i)).map(|i| code_of(uni_name(*i))).collect();
            s.extend(add);
            s
        })
        .collect()
}

/// all lists of <= 4 distinct entries of the 12-key universe, in every order
fn n_lists() -> u64 {
    1 + 12 + 12 * 11 + 12 * 11 * 10 + 12 * 11 * 10 * 9
}
fn list_at(mut idx: u64) -> Vec<u8> {
    let sizes = [1u64, 12, 132, 1320, 11880];
    let mut len = 0;
    while idx >= sizes[len] {
        idx -= sizes[len];
        len += 1;
    }
    let mut avail: Vec<u8> = (0..12).collect();
    let mut out = vec![];
    let mut div: u64 = (0..len).map(|i| 12 - i as u64).product();
    for i in 0..len {
        div /= 12 - i as u64;
        let pos = (idx / div) as usize;
        idx %= div;
        out.push(avail.remove(pos));
    }
    out
}

fn ovr_strategy() -> BoxedStrategy<Ovr> {
    (
        prop_oneof![Just(0u8), (0u8..8).prop_map(|b| 1 << b), any::<u8>(), (0u8..8, 0u8..8).prop_map(|(a, b)| (1 << a) | (1 << b))],
        0usize..INS.len(),
        prop_oneof![Just(0u8), (0u8..8).prop_map(|b| 1 << b), any::<u8>()],
        0usize..OUTS.len(),
    )
        .prop_map(|(im, ik, om, ok)| Ovr {
            in_mods: im,
            in_key: ik,
            out_mods: om,
            out_key: ok,
        })
        .boxed()
}
fn table_strategy() -> BoxedStrategy<Vec<Ovr>> {
    prop::collection::vec(ovr_strategy(), 1..7)
        .prop_map(|mut t| {
            // identical (mods, key) inputs twice make the winner arbitrary: keep the first
            let mut seen: Vec<(u8, usize)> = vec![];
            t.retain(|o| {
                let k = (o.in_mods, o.in_key);
                if seen.contains(&k) {
                    false
                } else {
                    seen.push(k);
                    true
                }
            });
            t
        })
        .boxed()
}

fn n_tables(tier: Tier) -> u64 {
    match tier {
        Tier::Quick => 40,
        Tier::Thorough => 900,
    }
}

fn tables(tier: Tier, seed: u64) -> std::rc::Rc<Vec<Vec<Ovr>>> {
    thread_local! {
        static T: std::cell::RefCell<Option<(Tier, u64, std::rc::Rc<Vec<Vec<Ovr>>>)>> = const { std::cell::RefCell::new(None) };
    }
    T.with(|t| {
        let mut t = t.borrow_mut();
        if let Some((ti, s, v)) = t.as_ref() {
            if *ti == tier && *s == seed {
                return v.clone();
            }
        }
        let strat = table_strategy();
        let mut v = vec![];
        // two hand-written tables first: sub-/super-set modifier combinations on one key
        v.push(vec![
            Ovr { in_mods: 0b10, in_key: 0, out_mods: 0, out_key: 0 },
            Ovr { in_mods: 0b11, in_key: 0, out_mods: 0b100, out_key: 1 },
            Ovr { in_mods: 0, in_key: 0, out_mods: 0b10, out_key: 2 },
        ]);
        v.push(vec![
            Ovr { in_mods: 0b0010_0000, in_key: 1, out_mods: 0, out_key: 3 },
            Ovr { in_mods: 0b0010_0010, in_key: 1, out_mods: 0b1, out_key: 0 },
            Ovr { in_mods: 0b10, in_key: 2, out_mods: 0, out_key: 1 },
        ]);
        let mut i = 0u64;
        while (v.len() as u64) < n_tables(tier) {
            let mut runner = runner_for("C13-table", seed, i);
            v.push(strat.new_tree(&mut runner).expect("table").current());
            i += 1;
        }
        let rc = std::rc::Rc::new(v);
        *t = Some((tier, seed, rc.clone()));
        rc
    })
}

impl TypedProp for C13 {
    type C = OCase;
    fn id(&self) -> &'static str {
        "C13"
    }
    fn info(&self) -> PropInfo {
        PropInfo {
            level: "exploration",
            rule: "pure part (exhaustive per table): for each override table (2 hand-written + tables drawn by the seed over 4 non-modifier keys and all subsets of the 8 modifiers) every ordered list of up to 4 distinct keys of the 12-key universe is given to the real Overrides::override_keys (table compiled by the real parser) and the resulting key set compared with the reference (most modifiers wins, modifiers and key replaced by the outputs, other keys untouched). Where a modifier is listed after the key the statement does not say whether it counts: both readings are accepted there. Pipeline part: random press/release histories over the 12 keys (half of them over the keys of one override's combination plus one more modifier and one more key only, so that the combination is formed and abandoned repeatedly) through the whole state machine, override-release-on-activation on/off: at every quiescent point the OS key set equals the reference applied to the keys the layout holds; at every millisecond a key that goes down at the OS without having been physically down in the 8 ms before (plus one ms per input event of the last 40 ms: events are handled one per tick) is the output of an override whose whole input combination was physically down in that window; keys that were all pressed after the last moment at which an override's combination was physically complete come out exactly as pressed; nothing is down at the end. Non-trivial: >= 2 overrides share the non-modifier key of the list / history, or a modifier outside every matching combination is held. Distinct: hash of (table, list | history).",
            assumptions: vec!["ties between overrides with equally many modifiers are not decided by the statement: any of them is accepted".into()],
            extra: BTreeMap::new(),
        }
    }
    fn plan(&self, tier: Tier) -> Plan {
        Plan {
            n_cases: n_tables(tier) * n_lists()
                + match tier {
                    Tier::Quick => 60_000,
                    Tier::Thorough => 1_000_000,
                },
            exhaustive: false,
            distinct_by_construction: false,
            required_classes: vec!["pure", "pipeline", "override-applied", "shared-key", "mod-after-key", "release-on-activation", "invalid-entry-rejected"],
            hang_secs: 60,
        }
    }
    fn gen(&self, tier: Tier, seed: u64, idx: u64) -> Gen<OCase> {
        let nl = n_lists();
        if idx < n_tables(tier) * nl {
            let t = tables(tier, seed);
            return Gen::Fixed(OCase {
                table: t[(idx / nl) as usize].clone(),
                list: Some(list_at(idx % nl)),
                hist: vec![],
                release_on_activation: false,
                invalid: None,
            });
        }
        Gen::Strat((idx % 2) as u32)
    }
    fn strategy(&self, _tier: Tier, key: u32) -> BoxedStrategy<OCase> {
        if key == 1 {
            // focused histories: only the keys of one override's input combination, one more modifier and
            // one more key, so that the combination is formed, abandoned (modifier first / key first) and
            // formed again many times within one history
            return (table_strategy(), any::<u16>(), any::<u16>(), any::<bool>())
                .prop_flat_map(|(table, pick_e, pick_x, r)| {
                    let mut focus: Vec<u16> = vec![];
                    if let Some(e) = table.get(crate::engine::pick(pick_e, table.len().max(1))) {
                        focus.extend((0..8).filter(|b| e.in_mods & (1 << b) != 0).map(|b| code_of(MODS[b])));
                        focus.push(code_of(INS[e.in_key % INS.len()]));
                    }
                    let extra_mod = code_of(MODS[crate::engine::pick(pick_x, 8)]);
                    let extra_key = code_of(INS[crate::engine::pick(pick_x / 8, 4)]);
                    for k in [extra_mod, extra_key] {
                        if !focus.contains(&k) {
                            focus.push(k);
                        }
                    }
                    (Just(table), crate::gen::hist::consistent_history(focus, vec![0, 1, 1, 2, 3, 12], 4..30), Just(r))
                })
                .prop_map(|(table, hist, r)| OCase { invalid: None, table, list: None, hist, release_on_activation: r })
                .boxed();
        }
        let keys: Vec<u16> = MODS.iter().chain(INS.iter()).map(|n| code_of(n)).collect();
        (table_strategy(), crate::gen::hist::consistent_history(keys, vec![0, 1, 1, 2, 3], 1..24), any::<bool>(), prop_oneof![19 => Just(None), 1 => (0u8..4).prop_map(Some)])
            .prop_map(|(table, hist, r, invalid)| OCase {
                invalid: if table.is_empty() { None } else { invalid },
                table,
                list: None,
                hist,
                release_on_activation: r,
            })
            .boxed()
    }
    fn judge(&self, case: &OCase) -> Verdict {
        let text = cfg_text(case);
        if let Some(kind) = case.invalid {
            // an entry without exactly one non-modifier key on each side is rejected, not
            // silently cut down to something else
            let files: rustc_hash::FxHashMap<String, String> = Default::default();
            return match kanata_parser::cfg::new_from_str(&text, files) {
                Err(_) => {
                    let mut v = Verdict::pass(true);
                    v.classes.push("invalid-entry-rejected");
                    v
                }
                Ok(_) => Verdict::failed(
                    "mismatch:override-entry-accepted",
                    format!("{text}\nthe first entry has {} and was accepted", ["two non-modifier keys on the input side", "two non-modifier keys on the output side", "no non-modifier key on the input side", "no non-modifier key on the output side"][kind as usize % 4]),
                ),
            };
        }
        match &case.list {
            Some(list) => {
                let files: rustc_hash::FxHashMap<String, String> = Default::default();
                let parsed = match kanata_parser::cfg::new_from_str(&text, files) {
                    Ok(p) => p,
                    Err(e) => return Verdict::failed("harness:override-config-rejected", format!("{text}\n{e:?}")),
                };
                let mut kcs: Vec<KeyCode> = list.iter().map(|i| kc_of(uni_name(*i))).collect();
                let mut st = OverrideStates::new();
                parsed.overrides.override_keys(&mut kcs, &mut st);
                let got: BTreeSet<u16> = kcs.iter().map(|k| *k as u16).collect();
                let a = reference(&case.table, list, true);
                let b = reference(&case.table, list, false);
                let readings_differ = a != b;
                let ok = a.contains(&got) || b.contains(&got);
                let keys_in_list: Vec<usize> = list.iter().filter(|i| **i >= 8).map(|i| *i as usize - 8).collect();
                let shared = keys_in_list.iter().any(|k| case.table.iter().filter(|o| o.in_key == *k).count() >= 2);
                let plain: BTreeSet<u16> = list.iter().map(|i| code_of(uni_name(*i))).collect();
                let applied = got != plain;
                let mut v = Verdict::pass(shared || (applied && list.iter().filter(|i| **i < 8).count() >= 2));
                if !ok {
                    v = Verdict::failed(
                        "mismatch:override-keys",
                        format!(
                            "{}active keys {:?} -> {:?}; reference allows {:?}",
                            table_text(&case.table, None),
                            list.iter().map(|i| uni_name(*i)).collect::<Vec<_>>(),
                            got.iter().map(|c| out_name(*c)).collect::<Vec<_>>(),
                            a.iter().chain(b.iter()).map(|s| s.iter().map(|c| out_name(*c)).collect::<Vec<_>>()).collect::<Vec<_>>()
                        ),
                    );
                }
                v.classes.push("pure");
                if applied {
                    v.classes.push("override-applied");
                }
                if shared {
                    v.classes.push("shared-key");
                }
                if readings_differ {
                    v.classes.push("mod-after-key");
                }
                v
            }
            None => {
                let mut sim = match Sim::new(&text) {
                    Ok(s) => s,
                    Err(e) => return Verdict::failed("harness:override-config-rejected", format!("{text}\n{e}")),
                };
                let mut os = OsState::default();
                let mut applied = 0usize;
                let mut any_override = false;
                let mut fail: Option<Fail> = None;
                let universe: Vec<u16> = MODS.iter().chain(INS.iter()).map(|n| code_of(n)).collect();
                // physical truth: which universe keys are down
                let mut phys: BTreeSet<u16> = BTreeSet::new();
                let mut phys_fail: Option<Fail> = None;
                let mut check = |sim: &mut Sim, os: &mut OsState, applied: &mut usize, when: &str| {
                    // settle: queue drained
                    for _ in 0..40 {
                        if sim.k.layout.b().queue.is_empty() {
                            break;
                        }
                        sim.tick();
                    }
                    sim.tick();
                    sim.tick();
                    for o in &sim.outs[*applied..] {
                        os.apply(o);
                    }
                    *applied = sim.outs.len();
                    // keys the layout is about to hold, in state order
                    let held: Vec<u8> = sim
                        .k
                        .layout
                        .b()
                        .keycodes()
                        .filter_map(|kc| universe.iter().position(|c| *c == kc as u16).map(|p| p as u8))
                        .collect();
                    let mut dedup: Vec<u8> = vec![];
                    for h in held {
                        if !dedup.contains(&h) {
                            dedup.push(h);
                        }
                    }
                    let a = reference(&case.table, &dedup, true);
                    let b = reference(&case.table, &dedup, false);
                    let plain: BTreeSet<u16> = dedup.iter().map(|i| universe[*i as usize]).collect();
                    let got: BTreeSet<u16> = os.keys.clone();
                    if got != plain {
                        any_override = true;
                    }
                    if !(a.contains(&got) || b.contains(&got)) && fail.is_none() {
                        fail = Some(Fail {
                            sig: "mismatch:override-pipeline One generated table in 20 gets a first entry without exactly one non-modifier key on one side (two, or none): the parser must reject it.".into(),
                            detail: format!(
                                "{text}after {when}: layout holds {:?}, OS sees {:?}, reference allows {:?}",
                                dedup.iter().map(|i| uni_name(*i)).collect::<Vec<_>>(),
                                got.iter().map(|c| out_name(*c)).collect::<Vec<_>>(),
                                a.iter().map(|s| s.iter().map(|c| out_name(*c)).collect::<Vec<_>>()).collect::<Vec<_>>()
                            ),
                        });
                    }
                };
                // (tick, keys physically down from then on)
                let mut phys_log: Vec<(u64, BTreeSet<u16>)> = vec![(0, BTreeSet::new())];
                // physical truth beyond modifiers: the tick until which some override's whole input combination
                // was physically down, and when each key that is down was pressed
                let combos: Vec<Vec<u16>> = case.table.iter().map(|e| (0..8).filter(|b| e.in_mods & (1 << b) != 0).map(|b| code_of(MODS[b])).chain([code_of(INS[e.in_key % INS.len()])]).collect()).collect();
                let mut last_combo_time: Option<u64> = None;
                let mut pressed_at: std::collections::BTreeMap<u16, u64> = Default::default();
                let mut fresh_fail: Option<Fail> = None;
                for (i, ev) in case.hist.iter().enumerate() {
                    if matches!(ev, Ev::Press(_) | Ev::Release(_)) && combos.iter().any(|c| c.iter().all(|k| phys.contains(k))) {
                        last_combo_time = Some(sim.ticks);
                    }
                    if let Ev::Press(k) = ev {
                        pressed_at.insert(*k, sim.ticks);
                    }
                    match ev {
                        Ev::Press(k) => {
                            phys.insert(*k);
                            phys_log.push((sim.ticks, phys.clone()));
                            sim.press(*k)
                        }
                        Ev::Release(k) => {
                            phys.remove(k);
                            phys_log.push((sim.ticks, phys.clone()));
                            sim.release(*k)
                        }
                        Ev::Gap(g) => {
                            for _ in 0..*g {
                                sim.tick();
                            }
                            continue;
                        }
                        _ => continue,
                    }
                    // check only where the next event is not in the same millisecond
                    let next_is_gap = matches!(case.hist.get(i + 1), Some(Ev::Gap(_)) | None);
                    if next_is_gap && !case.release_on_activation {
                        check(&mut sim, &mut os, &mut applied, &format!("event #{i}"));
                    }
                    // keys pressed after the last moment at which any override's combination was physically
                    // complete are outside every combination: the OS sees exactly them
                    if next_is_gap
                        && !combos.iter().any(|c| c.iter().all(|k| phys.contains(k)))
                        && phys.iter().all(|k| last_combo_time.map_or(true, |t| pressed_at.get(k).copied().unwrap_or(0) > t))
                    {
                        for _ in 0..40 {
                            if sim.k.layout.b().queue.is_empty() {
                                break;
                            }
                            sim.tick();
                        }
                        sim.tick_n(3);
                        for o in &sim.outs[applied..] {
                            os.apply(o);
                        }
                        applied = sim.outs.len();
                        if os.keys != phys && fresh_fail.is_none() {
                            fresh_fail = Some(Fail {
                                sig: "mismatch:override-touches-keys-outside-every-combination".into(),
                                detail: format!(
                                    "{text}after event #{i} the keys {:?} are physically held, all pressed after the last moment an override's combination was complete, but the OS sees {:?}\noutput: {}",
                                    phys.iter().map(|c| out_name(*c)).collect::<Vec<_>>(),
                                    os.keys.iter().map(|c| out_name(*c)).collect::<Vec<_>>(),
                                    crate::sim::fmt_outs(&sim.outs)
                                ),
                            });
                        }
                    }
                    // "when the combination ends ... modifiers that are still held come back":
                    // with no non-modifier key physically held no override can be active, so the OS
                    // must see exactly the modifiers that are physically held
                    let mods: Vec<u16> = MODS.iter().map(|n| code_of(n)).collect();
                    if next_is_gap && phys.iter().all(|k| mods.contains(k)) {
                        for _ in 0..40 {
                            if sim.k.layout.b().queue.is_empty() {
                                break;
                            }
                            sim.tick();
                        }
                        sim.tick_n(3);
                        for o in &sim.outs[applied..] {
                            os.apply(o);
                        }
                        applied = sim.outs.len();
                        if os.keys != phys && phys_fail.is_none() {
                            phys_fail = Some(Fail {
                                sig: "mismatch:override-held-modifiers-not-restored".into(),
                                detail: format!(
                                    "{text}after event #{i} only modifiers {:?} are physically held, but the OS sees {:?}",
                                    phys.iter().map(|c| out_name(*c)).collect::<Vec<_>>(),
                                    os.keys.iter().map(|c| out_name(*c)).collect::<Vec<_>>()
                                ),
                            });
                        }
                    }
                }
                // transient invariant (every millisecond, not only quiescent points): a key that goes down at
                // the OS without having been physically down in the last 8 ms is an override's output, and that
                // override's whole input combination was physically down in that window
                let mut transient_fail: Option<Fail> = None;
                for o in &sim.outs {
                    if let crate::sim::OutEv::Down(k) = o.ev {
                        // input events are handled one per tick: a burst of events in the same millisecond
                        // reaches the OS that many ticks later, so the window grows with the events of the last 40 ms
                        let burst = phys_log.iter().filter(|(t0, _)| *t0 + 40 >= o.t && *t0 <= o.t).count() as u64;
                        let lo = o.t.saturating_sub(8 + burst);
                        let mut recent: BTreeSet<u16> = BTreeSet::new();
                        for (n, (t0, set)) in phys_log.iter().enumerate() {
                            let t1 = phys_log.get(n + 1).map(|x| x.0).unwrap_or(u64::MAX);
                            if *t0 <= o.t && t1 >= lo {
                                recent.extend(set.iter().copied());
                            }
                        }
                        if recent.contains(&k) {
                            continue;
                        }
                        let explained = case.table.iter().any(|e| {
                            let outs: Vec<u16> = (0..8).filter(|b| e.out_mods & (1 << b) != 0).map(|b| code_of(MODS[b])).chain([code_of(OUTS[e.out_key % OUTS.len()])]).collect();
                            let ins: Vec<u16> = (0..8).filter(|b| e.in_mods & (1 << b) != 0).map(|b| code_of(MODS[b])).chain([code_of(INS[e.in_key % INS.len()])]).collect();
                            outs.contains(&k) && ins.iter().all(|c| recent.contains(c))
                        });
                        if !explained && transient_fail.is_none() {
                            transient_fail = Some(Fail {
                                sig: "mismatch:override-output-without-its-combination".into(),
                                detail: format!("{text}{} goes down at tick {} although neither it nor the input combination of an override that outputs it was physically down in the window before (physically down then: {:?})\noutput: {}", out_name(k), o.t, recent.iter().map(|c| out_name(*c)).collect::<Vec<_>>(), crate::sim::fmt_outs(&sim.outs)),
                            });
                        }
                    }
                }
                sim.tick_n(30);
                for o in &sim.outs[applied..] {
                    os.apply(o);
                }
                let mut v = Verdict::pass(any_override || case.release_on_activation);
                if let Some(f) = fail {
                    v.fail = Some(f);
                } else if let Some(f) = phys_fail {
                    v.fail = Some(f);
                } else if let Some(f) = fresh_fail {
                    v.fail = Some(f);
                } else if let Some(f) = transient_fail {
                    v.fail = Some(f);
                } else if os.anything_down() {
                    v = Verdict::failed(
                        "mismatch:override-output-stays-down",
                        format!("{text}all keys released but the OS still sees {:?}", os.keys.iter().map(|c| out_name(*c)).collect::<Vec<_>>()),
                    );
                }
                v.classes.push("pipeline");
                if any_override {
                    v.classes.push("override-applied");
                }
                if case.release_on_activation {
                    v.classes.push("release-on-activation");
                }
                v
            }
        }
    }
}
