//! C10 — switch and fork conditions evaluate exactly as written (translation validation).
use crate::engine::*;
use crate::sim::{code_of, OutEv, Sim};
use kanata_keyberon::action::Action;
use kanata_keyberon::key_code::KeyCode;
use kanata_keyberon::layout::HistoricalEvent;
use kanata_state_machine::OsCode;
use proptest::prelude::*;
use serde_json::{json, Value};
use std::collections::BTreeMap;

pub struct C10;

const KEYS: [&str; 6] = ["a", "b", "c", "d", "lsft", "1"];
const OUTS: [&str; 12] = ["f13", "f14", "f15", "f16", "f17", "f18", "f19", "f20", "f21", "f22", "f23", "f24"];
const N_LAYERS: usize = 3;
const N_VKEYS: usize = 3;

#[derive(Clone, Debug, PartialEq, Eq, Hash)]
pub enum Leaf {
    Key(usize),
    KeyHist(usize, u8),
    Timing(u8, bool, u16),
    Input(bool, usize),
    InputHist(bool, usize, u8),
    Layer(usize),
    BaseLayer(usize),
}

#[derive(Clone, Debug, PartialEq, Eq, Hash)]
pub enum Expr {
    L(Leaf),
    And(Vec<Expr>),
    Or(Vec<Expr>),
    Not(Vec<Expr>),
}

#[derive(Clone, Debug, PartialEq, Eq, Hash)]
pub struct Env {
    pub active_keys: Vec<usize>,
    /// (virtual?, index)
    pub active_inputs: Vec<(bool, usize)>,
    pub hist_keys: Vec<(usize, u16)>,
    pub hist_inputs: Vec<(bool, usize, u16)>,
    pub layers: Vec<usize>,
    pub base: usize,
}

#[derive(Clone, Debug, PartialEq, Eq, Hash)]
pub struct SwCase {
    /// cases: (top-level condition items, break?)
    pub cases: Vec<(Vec<Expr>, bool)>,
    pub envs: Vec<Env>,
    /// also run through the full pipeline (keys only)
    pub pipeline: bool,
    /// fork instead of switch: (trigger key indices)
    pub fork: Option<Vec<usize>>,
    /// the environment is built by typing (key and input histories, timing, held inputs)
    pub hist: Option<HistCase>,
}

/// Typing before the switch key is pressed, and the leaves its cases test (one leaf per case,
/// every case with `fallthrough`, so that one press reports the truth of every leaf).
#[derive(Clone, Debug, PartialEq, Eq, Hash)]
pub struct HistCase {
    pub chords_v2: bool,
    /// (key 0-9 = a-j, 10 = the layer-while-held key; gap before it; held until the end?)
    pub taps: Vec<(u8, u8, bool)>,
    pub final_gap: u8,
    /// (kind 0 key-history / 1 input-history / 2 key-timing / 3 input real, key, recency 1-8, selector)
    pub leaves: Vec<(u8, u8, u8, u8)>,
    /// the switch is the hold action of (tap-hold 60 60 XX ..) and the key z is pressed 10 ms after the
    /// switch key, while the decision is pending: it has arrived (input history) but is not processed yet
    pub under_taphold: bool,
}
const HKEYS: [&str; 12] = ["a", "b", "c", "d", "e", "f", "g", "h", "i", "j", "l", "s"];
const HGAPS: [u64; 4] = [3, 10, 40, 100];
const HDELTA: [i64; 4] = [-40, -20, 20, 40];

fn leaf_text(l: &Leaf) -> String {
    match l {
        Leaf::Key(k) => KEYS[*k].to_string(),
        Leaf::KeyHist(k, r) => format!("(key-history {} {r})", KEYS[*k]),
        Leaf::Timing(r, lt, ms) => format!("(key-timing {r} {} {ms})", if *lt { "lt" } else { "gt" }),
        Leaf::Input(virt, i) => {
            if *virt {
                format!("(input virtual v{i})")
            } else {
                format!("(input real {})", KEYS[*i])
            }
        }
        Leaf::InputHist(virt, i, r) => {
            if *virt {
                format!("(input-history virtual v{i} {r})")
            } else {
                format!("(input-history real {} {r})", KEYS[*i])
            }
        }
        Leaf::Layer(l) => format!("(layer l{l})"),
        Leaf::BaseLayer(l) => format!("(base-layer l{l})"),
    }
}
fn expr_text(e: &Expr) -> String {
    let list = |name: &str, v: &Vec<Expr>| format!("({name} {})", v.iter().map(expr_text).collect::<Vec<_>>().join(" "));
    match e {
        Expr::L(l) => leaf_text(l),
        Expr::And(v) => list("and", v),
        Expr::Or(v) => list("or", v),
        Expr::Not(v) => list("not", v),
    }
}
fn depth(e: &Expr) -> usize {
    match e {
        Expr::L(_) => 0,
        Expr::And(v) | Expr::Or(v) | Expr::Not(v) => 1 + v.iter().map(depth).max().unwrap_or(0),
    }
}
fn nodes(e: &Expr) -> usize {
    match e {
        Expr::L(_) => 1,
        Expr::And(v) | Expr::Or(v) | Expr::Not(v) => 1 + v.iter().map(nodes).sum::<usize>(),
    }
}

fn decompress_compress(t: u16) -> u16 {
    // documented resolution: 1 ms below 256, 8 ms (rounded down) below 2304, 128 ms above
    match t {
        0..=255 => t,
        256..=2303 => (t - 255) / 8 * 8 + 255,
        _ => (t - 2303) / 128 * 128 + 2303,
    }
}

fn key_code_of(k: usize) -> u16 {
    code_of(KEYS[k])
}

fn eval_leaf(l: &Leaf, env: &Env) -> bool {
    match l {
        Leaf::Key(k) => env.active_keys.contains(k),
        Leaf::KeyHist(k, r) => env.hist_keys.get(*r as usize - 1).map(|(hk, _)| hk == k).unwrap_or(false),
        Leaf::Timing(r, lt, ms) => env
            .hist_keys
            .get(*r as usize - 1)
            .map(|(_, ticks)| {
                let th = decompress_compress(*ms);
                if *lt {
                    *ticks <= th
                } else {
                    *ticks > th
                }
            })
            .unwrap_or(false),
        Leaf::Input(v, i) => env.active_inputs.contains(&(*v, *i)),
        Leaf::InputHist(v, i, r) => env.hist_inputs.get(*r as usize - 1).map(|(hv, hi, _)| hv == v && hi == i).unwrap_or(false),
        Leaf::Layer(l) => env.layers.first() == Some(l),
        Leaf::BaseLayer(l) => env.base == *l,
    }
}
fn eval(e: &Expr, env: &Env) -> bool {
    match e {
        Expr::L(l) => eval_leaf(l, env),
        Expr::And(v) => v.iter().all(|x| eval(x, env)),
        Expr::Or(v) => v.iter().any(|x| eval(x, env)),
        // `not` = none of its operands is true
        Expr::Not(v) => !v.iter().any(|x| eval(x, env)),
    }
}
fn expected_fired(c: &SwCase, env: &Env) -> Vec<usize> {
    let mut out = vec![];
    for (i, (items, brk)) in c.cases.iter().enumerate() {
        // the top-level list of a case is an `or`; the empty list is the default case (true)
        let t = items.is_empty() || items.iter().any(|e| eval(e, env));
        if t {
            out.push(i);
            if *brk {
                break;
            }
        }
    }
    out
}

fn cfg_text(c: &SwCase) -> String {
    let mut s = String::from("(defcfg log-layer-changes no)\n");
    s.push_str(&format!("(defsrc {} z m)\n", KEYS.join(" ")));
    s.push_str("(defvirtualkeys");
    for i in 0..N_VKEYS {
        s.push_str(&format!(" v{i} XX"));
    }
    s.push_str(")\n");
    let mut action = String::new();
    if let Some(tr) = &c.fork {
        action.push_str(&format!("(fork {} {} ({}))", OUTS[0], OUTS[1], tr.iter().map(|k| KEYS[*k]).collect::<Vec<_>>().join(" ")));
    } else {
        action.push_str("(switch");
        for (i, (items, brk)) in c.cases.iter().enumerate() {
            action.push_str(&format!(
                " ({}) {} {}",
                items.iter().map(expr_text).collect::<Vec<_>>().join(" "),
                OUTS[i],
                if *brk { "break" } else { "fallthrough" }
            ));
        }
        action.push(')');
    }
    for l in 0..N_LAYERS {
        // m: a macro that holds lsft for 60 ms (a key can also be active because a macro holds it)
        if l == 0 {
            s.push_str(&format!("(deflayer l0 {} {action} (macro S-(f24 60 f24)))\n", KEYS.join(" ")));
        } else {
            s.push_str(&format!("(deflayer l{l} {} {action} _)\n", KEYS.iter().map(|_| "_").collect::<Vec<_>>().join(" ")));
        }
    }
    s
}

// ---------- JSON ----------
fn leaf_json(l: &Leaf) -> Value {
    json!(leaf_text(l))
}
fn expr_json(e: &Expr) -> Value {
    match e {
        Expr::L(l) => leaf_json(l),
        Expr::And(v) => json!({"and": v.iter().map(expr_json).collect::<Vec<_>>()}),
        Expr::Or(v) => json!({"or": v.iter().map(expr_json).collect::<Vec<_>>()}),
        Expr::Not(v) => json!({"not": v.iter().map(expr_json).collect::<Vec<_>>()}),
    }
}
fn leaf_from(s: &str) -> Option<Leaf> {
    let key = |n: &str| KEYS.iter().position(|k| *k == n);
    if let Some(k) = key(s) {
        return Some(Leaf::Key(k));
    }
    let inner = s.strip_prefix('(')?.strip_suffix(')')?;
    let p: Vec<&str> = inner.split_whitespace().collect();
    Some(match p[0] {
        "key-history" => Leaf::KeyHist(key(p[1])?, p[2].parse().ok()?),
        "key-timing" => Leaf::Timing(p[1].parse().ok()?, p[2] == "lt", p[3].parse().ok()?),
        "input" => {
            if p[1] == "virtual" {
                Leaf::Input(true, p[2].strip_prefix('v')?.parse().ok()?)
            } else {
                Leaf::Input(false, key(p[2])?)
            }
        }
        "input-history" => {
            if p[1] == "virtual" {
                Leaf::InputHist(true, p[2].strip_prefix('v')?.parse().ok()?, p[3].parse().ok()?)
            } else {
                Leaf::InputHist(false, key(p[2])?, p[3].parse().ok()?)
            }
        }
        "layer" => Leaf::Layer(p[1].strip_prefix('l')?.parse().ok()?),
        "base-layer" => Leaf::BaseLayer(p[1].strip_prefix('l')?.parse().ok()?),
        _ => return None,
    })
}
fn expr_from(v: &Value) -> Option<Expr> {
    if let Some(s) = v.as_str() {
        return Some(Expr::L(leaf_from(s)?));
    }
    let o = v.as_object()?;
    let (k, val) = o.iter().next()?;
    let items = val.as_array()?.iter().map(expr_from).collect::<Option<Vec<_>>>()?;
    Some(match k.as_str() {
        "and" => Expr::And(items),
        "or" => Expr::Or(items),
        "not" => Expr::Not(items),
        _ => return None,
    })
}
fn env_json(e: &Env) -> Value {
    json!({"active_keys": e.active_keys.iter().map(|k| KEYS[*k]).collect::<Vec<_>>(),
        "active_inputs": e.active_inputs.iter().map(|(v, i)| if *v { format!("v{i}") } else { KEYS[*i].to_string() }).collect::<Vec<_>>(),
        "hist_keys": e.hist_keys.iter().map(|(k, t)| json!([KEYS[*k], t])).collect::<Vec<_>>(),
        "hist_inputs": e.hist_inputs.iter().map(|(v, i, t)| json!([if *v { format!("v{i}") } else { KEYS[*i].to_string() }, t])).collect::<Vec<_>>(),
        "layers": e.layers, "base": e.base})
}
fn env_from(v: &Value) -> Option<Env> {
    let key = |n: &str| KEYS.iter().position(|k| *k == n);
    let inp = |s: &str| -> Option<(bool, usize)> {
        if let Some(i) = s.strip_prefix('v').and_then(|x| x.parse::<usize>().ok()) {
            if key(s).is_none() {
                return Some((true, i));
            }
        }
        Some((false, key(s)?))
    };
    Some(Env {
        active_keys: v["active_keys"].as_array()?.iter().map(|x| key(x.as_str()?)).collect::<Option<Vec<_>>>()?,
        active_inputs: v["active_inputs"].as_array()?.iter().map(|x| inp(x.as_str()?)).collect::<Option<Vec<_>>>()?,
        hist_keys: v["hist_keys"].as_array()?.iter().map(|x| Some((key(x[0].as_str()?)?, x[1].as_u64()? as u16))).collect::<Option<Vec<_>>>()?,
        hist_inputs: v["hist_inputs"]
            .as_array()?
            .iter()
            .map(|x| {
                let (a, b) = inp(x[0].as_str()?)?;
                Some((a, b, x[1].as_u64()? as u16))
            })
            .collect::<Option<Vec<_>>>()?,
        layers: v["layers"].as_array()?.iter().map(|x| x.as_u64().map(|y| y as usize)).collect::<Option<Vec<_>>>()?,
        base: v["base"].as_u64()? as usize,
    })
}

impl Case for SwCase {
    fn to_json(&self) -> Value {
        json!({"config": cfg_text(self),
            "cases": self.cases.iter().map(|(items, b)| json!({"items": items.iter().map(expr_json).collect::<Vec<_>>(), "break": b})).collect::<Vec<_>>(),
            "envs": self.envs.iter().map(env_json).collect::<Vec<_>>(), "pipeline": self.pipeline,
            "fork": self.fork.as_ref().map(|t| t.iter().map(|k| KEYS[*k]).collect::<Vec<_>>()),
            "hist": self.hist.as_ref().map(|h| json!({"config": hist_cfg_text(h), "chords_v2": h.chords_v2, "taps": h.taps.iter().map(|(k, g, hold)| json!([k, g, hold])).collect::<Vec<_>>(), "final_gap": h.final_gap, "under_taphold": h.under_taphold,
                "leaves": h.leaves.iter().map(|(a, b, c, d)| json!([a, b, c, d])).collect::<Vec<_>>()}))})
    }
    fn from_json(v: &Value) -> Option<Self> {
        Some(SwCase {
            cases: v["cases"]
                .as_array()?
                .iter()
                .map(|c| Some((c["items"].as_array()?.iter().map(expr_from).collect::<Option<Vec<_>>>()?, c["break"].as_bool()?)))
                .collect::<Option<Vec<_>>>()?,
            envs: v["envs"].as_array()?.iter().map(env_from).collect::<Option<Vec<_>>>()?,
            pipeline: v["pipeline"].as_bool().unwrap_or(false),
            fork: if v["fork"].is_null() {
                None
            } else {
                Some(v["fork"].as_array()?.iter().map(|x| KEYS.iter().position(|k| Some(*k) == x.as_str())).collect::<Option<Vec<_>>>()?)
            },
            hist: if v["hist"].is_object() {
                let h = &v["hist"];
                Some(HistCase {
                    chords_v2: h["chords_v2"].as_bool()?,
                    taps: h["taps"].as_array()?.iter().map(|t| Some((t[0].as_u64()? as u8, t[1].as_u64()? as u8, t[2].as_bool()?))).collect::<Option<Vec<_>>>()?,
                    final_gap: h["final_gap"].as_u64()? as u8,
                    under_taphold: h["under_taphold"].as_bool().unwrap_or(false),
                    leaves: h["leaves"].as_array()?.iter().map(|t| Some((t[0].as_u64()? as u8, t[1].as_u64()? as u8, t[2].as_u64()? as u8, t[3].as_u64()? as u8))).collect::<Option<Vec<_>>>()?,
                })
            } else {
                None
            },
        })
    }
    fn canon_hash(&self) -> u64 {
        use std::hash::{Hash, Hasher};
        let mut h = rustc_hash::FxHasher::default();
        self.hash(&mut h);
        h.finish()
    }
}

// ---------- exhaustive enumeration of expression shapes ----------
const MAXN: usize = 8;
struct Counts {
    expr: [u64; MAXN],
    forest: [[u64; MAXN]; 4],
}
fn counts() -> &'static Counts {
    static C: std::sync::OnceLock<Counts> = std::sync::OnceLock::new();
    C.get_or_init(|| {
        let mut c = Counts { expr: [0; MAXN], forest: [[0; MAXN]; 4] };
        c.forest[0][0] = 1;
        for n in 1..MAXN {
            // exprs with exactly n nodes
            let mut e = 0u64;
            if n == 1 {
                e = 3;
            } else {
                for k in 1..=3usize {
                    e += 3 * c.forest[k][n - 1];
                }
            }
            c.expr[n] = e;
            // forests: sequences of k exprs with total n nodes (uses expr[1..=n])
            for k in 1..=3usize {
                let mut f = 0u64;
                for first in 1..=n {
                    f += c.expr[first] * c.forest[k - 1][n - first];
                }
                c.forest[k][n] = f;
            }
        }
        c
    })
}
fn unrank_expr(n: usize, mut idx: u64) -> Expr {
    let c = counts();
    if n == 1 {
        return Expr::L(Leaf::Key(idx as usize));
    }
    for op in 0..3 {
        for k in 1..=3usize {
            let cnt = c.forest[k][n - 1];
            if idx < cnt {
                let f = unrank_forest(k, n - 1, idx);
                return match op {
                    0 => Expr::And(f),
                    1 => Expr::Or(f),
                    _ => Expr::Not(f),
                };
            }
            idx -= cnt;
        }
    }
    unreachable!("rank out of range")
}
fn unrank_forest(k: usize, n: usize, mut idx: u64) -> Vec<Expr> {
    let c = counts();
    if k == 0 {
        return vec![];
    }
    for first in 1..=n {
        let cnt = c.expr[first] * c.forest[k - 1][n - first];
        if idx < cnt {
            let rest = c.forest[k - 1][n - first];
            let mut v = vec![unrank_expr(first, idx / rest)];
            v.extend(unrank_forest(k - 1, n - first, idx % rest));
            return v;
        }
        idx -= cnt;
    }
    unreachable!("forest rank out of range")
}
fn exh_total(max_nodes: usize) -> u64 {
    (1..=max_nodes).map(|n| counts().expr[n]).sum()
}
fn exh_expr(max_nodes: usize, mut idx: u64) -> Expr {
    for n in 1..=max_nodes {
        if idx < counts().expr[n] {
            return unrank_expr(n, idx);
        }
        idx -= counts().expr[n];
    }
    unreachable!()
}
fn all_assignments() -> Vec<Env> {
    (0..8u8)
        .map(|m| Env {
            active_keys: (0..3).filter(|k| m & (1 << k) != 0).collect(),
            active_inputs: vec![],
            hist_keys: vec![],
            hist_inputs: vec![],
            layers: vec![0],
            base: 0,
        })
        .collect()
}

// ---------- random strategies ----------
fn leaf_strategy() -> BoxedStrategy<Leaf> {
    prop_oneof![
        4 => (0usize..KEYS.len()).prop_map(Leaf::Key),
        2 => (0usize..KEYS.len(), 1u8..=8).prop_map(|(k, r)| Leaf::KeyHist(k, r)),
        2 => (1u8..=8, any::<bool>(), prop_oneof![0u16..=300, 250u16..=2400, 2200u16..=9000, Just(65535u16), Just(0u16), Just(255u16), Just(256u16), Just(2303u16), Just(2304u16)])
            .prop_map(|(r, lt, ms)| Leaf::Timing(r, lt, ms)),
        2 => (any::<bool>(), 0usize..3).prop_map(|(v, i)| Leaf::Input(v, i)),
        1 => (any::<bool>(), 0usize..3, 1u8..=8).prop_map(|(v, i, r)| Leaf::InputHist(v, i, r)),
        1 => (0usize..N_LAYERS).prop_map(Leaf::Layer),
        1 => (0usize..N_LAYERS).prop_map(Leaf::BaseLayer),
    ]
    .boxed()
}
fn expr_strategy() -> BoxedStrategy<Expr> {
    leaf_strategy().prop_map(Expr::L).prop_recursive(7, 200, 4, |inner| {
        prop_oneof![
            prop::collection::vec(inner.clone(), 1..4).prop_map(Expr::And),
            prop::collection::vec(inner.clone(), 1..4).prop_map(Expr::Or),
            prop::collection::vec(inner, 1..4).prop_map(Expr::Not),
        ]
    })
    .boxed()
}
fn env_strategy() -> BoxedStrategy<Env> {
    let ticks = prop_oneof![0u16..=300, 240u16..=2400, 2200u16..=9000, Just(65535u16)];
    (
        prop::collection::vec(0usize..KEYS.len(), 0..4),
        prop::collection::vec((any::<bool>(), 0usize..3), 0..4),
        prop::collection::vec((0usize..KEYS.len(), ticks.clone()), 0..=8),
        prop::collection::vec((any::<bool>(), 0usize..3, ticks), 0..=8),
        prop::collection::vec(0usize..N_LAYERS, 1..4),
        0usize..N_LAYERS,
    )
        .prop_map(|(ak, ai, mut hk, mut hi, layers, base)| {
            // ages are non-decreasing from most recent to oldest
            let mut acc = 0u16;
            for h in hk.iter_mut() {
                acc = acc.max(h.1);
                h.1 = acc;
            }
            let mut acc = 0u16;
            for h in hi.iter_mut() {
                acc = acc.max(h.2);
                h.2 = acc;
            }
            Env {
                active_keys: ak,
                active_inputs: ai,
                hist_keys: hk,
                hist_inputs: hi,
                layers,
                base,
            }
        })
        .boxed()
}

fn run_switch(c: &SwCase) -> Verdict {
    let text = cfg_text(c);
    let files: rustc_hash::FxHashMap<String, String> = Default::default();
    let max_depth = c.cases.iter().flat_map(|(i, _)| i.iter()).map(depth).max().unwrap_or(0);
    let parsed = match kanata_parser::cfg::new_from_str(&text, files) {
        Ok(p) => p,
        Err(e) => {
            if max_depth >= 8 {
                return Verdict::discard("too-deep-rejected");
            }
            return Verdict::failed("harness:switch-config-rejected", format!("{text}\n{e:?}"));
        }
    };
    let z = code_of("z") as usize;
    let action = parsed.layout.b().layers[0][0][z];
    let Action::Switch(sw) = action else {
        return Verdict::failed("harness:not-a-switch", format!("{action:?}"));
    };
    let out_codes: Vec<u16> = OUTS.iter().map(|n| code_of(n)).collect();
    let mut v = Verdict::pass(true);
    for env in &c.envs {
        let ak: Vec<KeyCode> = env.active_keys.iter().map(|k| KeyCode::from(OsCode::from_u16(key_code_of(*k)).unwrap())).collect();
        let coord = |virt: bool, i: usize| -> (u8, u16) {
            if virt {
                (1, i as u16)
            } else {
                (0, key_code_of(i))
            }
        };
        let ai: Vec<(u8, u16)> = env.active_inputs.iter().map(|(v, i)| coord(*v, *i)).collect();
        let hk: Vec<HistoricalEvent<KeyCode>> = env
            .hist_keys
            .iter()
            .map(|(k, t)| HistoricalEvent {
                event: KeyCode::from(OsCode::from_u16(key_code_of(*k)).unwrap()),
                ticks_since_occurrence: *t,
            })
            .collect();
        let hi: Vec<HistoricalEvent<(u8, u16)>> = env
            .hist_inputs
            .iter()
            .map(|(v, i, t)| HistoricalEvent {
                event: coord(*v, *i),
                ticks_since_occurrence: *t,
            })
            .collect();
        let layers: Vec<u16> = env.layers.iter().map(|l| *l as u16).collect();
        let fired: Vec<usize> = sw
            .actions(ak.iter().copied(), ai.iter().copied(), hk.iter().copied(), hi.iter().copied(), layers.iter().copied(), env.base as u16)
            .filter_map(|a| match a {
                Action::KeyCode(kc) => out_codes.iter().position(|c| *c == *kc as u16),
                _ => None,
            })
            .collect();
        let want = expected_fired(c, env);
        if fired != want {
            let kinds: Vec<&str> = c
                .cases
                .iter()
                .flat_map(|(i, _)| i.iter())
                .map(|e| match e {
                    Expr::L(_) => "leaf",
                    Expr::And(_) => "and",
                    Expr::Or(_) => "or",
                    Expr::Not(_) => "not",
                })
                .collect();
            let has_nested_not = text.contains("(not (") || text.contains(" (not ");
            let _ = kinds;
            v = Verdict::failed(
                if has_nested_not { "mismatch:switch-evaluation:with-not" } else { "mismatch:switch-evaluation" },
                format!("switch: {text}\nenvironment: {}\nfired cases {fired:?}, the written conditions give {want:?}", env_json(env)),
            );
            break;
        }
    }
    v.classes.push("switch-direct");
    if max_depth >= 6 {
        v.classes.push("depth>=6");
    }
    if c.cases.len() >= 8 {
        v.classes.push("cases>=8");
    }
    if c.cases.iter().flat_map(|(i, _)| i.iter()).any(|e| nodes(e) >= 20) {
        v.classes.push("nodes>=20");
    }
    v
}


/// The times (ms) at which the keys of a typed history are pressed, and the switch key.
fn hist_plan(h: &HistCase) -> (Vec<(usize, u64, bool)>, u64) {
    let mut t = 0u64;
    let mut held = [false; 12];
    let mut presses = vec![];
    for (k, g, hold) in &h.taps {
        let k = (*k as usize) % 11;
        if held[k] {
            continue;
        }
        t += HGAPS[*g as usize % 4];
        let hold = *hold || k == 10;
        presses.push((k, t, hold));
        if hold {
            held[k] = true;
        } else {
            t += 3;
        }
    }
    t += HGAPS[h.final_gap as usize % 4];
    (presses, t)
}
/// Text of leaf i (key-timing thresholds are placed 20 or 40 ms away from the true age).
fn hist_leaf(h: &HistCase, i: usize) -> (String, bool) {
    let (presses, ts) = hist_plan(h);
    let (kind, key, rec, sel) = h.leaves[i];
    let key = key as usize % 12;
    let r = (rec as usize % 8) + 1;
    // most recent first
    let mut inputs: Vec<usize> = presses.iter().map(|p| p.0).collect();
    inputs.push(11);
    if h.under_taphold {
        // the key pressed while the tap-hold is pending (z, in no leaf) is the most recent input
        inputs.push(99);
    }
    inputs.reverse();
    // (the age of a key press grows while the tap-hold waits: no timing leaves there)
    let kind = if h.under_taphold && kind % 4 == 2 { 1 } else { kind };
    let keys: Vec<(usize, u64)> = presses.iter().rev().filter(|p| p.0 < 10).map(|p| (p.0, p.1)).collect();
    match kind % 4 {
        0 => {
            let key = key % 10;
            (format!("(key-history {} {r})", HKEYS[key]), keys.get(r - 1).map(|x| x.0 == key).unwrap_or(false))
        }
        1 => (format!("(input-history real {} {r})", HKEYS[key]), inputs.get(r - 1).map(|x| *x == key).unwrap_or(false)),
        2 => {
            let r = if keys.is_empty() { 1 } else { (rec as usize % keys.len().min(8)) + 1 };
            match keys.get(r - 1) {
                Some((_, tp)) => {
                    let age = (ts - tp) as i64;
                    let mut d = HDELTA[sel as usize % 4];
                    if age + d < 1 {
                        d = 20;
                    }
                    let lt = sel & 4 == 0;
                    (format!("(key-timing {r} {} {})", if lt { "lt" } else { "gt" }, age + d), if lt { d > 0 } else { d < 0 })
                }
                // nothing typed yet: not generated as a timing test
                None => (format!("(input real {})", HKEYS[key % 11]), presses.iter().any(|p| p.0 == key % 11 && p.2)),
            }
        }
        // (whether the switch key itself counts as an active input while its own switch is
        // evaluated is not documented: not asked)
        _ => (format!("(input real {})", HKEYS[key % 11]), presses.iter().any(|p| p.0 == key % 11 && p.2)),
    }
}
fn hist_cfg_text(h: &HistCase) -> String {
    let mut s = String::from("(defcfg log-layer-changes no");
    if h.chords_v2 {
        s.push_str(" concurrent-tap-hold yes");
    }
    s.push_str(")\n(defsrc a b c d e f g h i j l s y z)\n(deflayer base a b c d e f g h i j (layer-while-held nav) ");
    if h.under_taphold {
        s.push_str("(tap-hold 60 60 XX ");
    }
    s.push_str("(switch");
    for i in 0..h.leaves.len() {
        s.push_str(&format!(" ({}) {} fallthrough", hist_leaf(h, i).0, OUTS[i]));
    }
    if h.under_taphold {
        s.push(')');
    }
    s.push_str(") y z)\n(deflayer nav _ _ _ _ _ _ _ _ _ _ _ _ _ _)\n");
    if h.chords_v2 {
        s.push_str("(defchordsv2 (y z) x 50 all-released ())\n");
    }
    s
}
fn run_hist(h: &HistCase) -> Verdict {
    if h.leaves.is_empty() || h.leaves.len() > 7 {
        return Verdict::discard("leaf-count");
    }
    let text = hist_cfg_text(h);
    let mut sim = match Sim::new(&text) {
        Ok(s) => s,
        Err(e) => return Verdict::failed("harness:switch-config-rejected", format!("{text}\n{e}")),
    };
    let (presses, ts) = hist_plan(h);
    for (k, t, hold) in &presses {
        sim.tick_n(*t - sim.ticks);
        sim.press(code_of(HKEYS[*k]));
        if !*hold {
            sim.tick_n(3);
            sim.release(code_of(HKEYS[*k]));
        }
    }
    sim.tick_n(ts - sim.ticks);
    let before = sim.outs.len();
    sim.press(code_of("s"));
    if h.under_taphold {
        sim.tick_n(10);
        sim.press(code_of("z"));
        sim.tick_n(60);
    }
    sim.tick_n(14);
    let out_codes: Vec<u16> = OUTS.iter().map(|n| code_of(n)).collect();
    let mut fired: Vec<usize> = sim.outs[before..].iter().filter_map(|o| if let OutEv::Down(k) = o.ev { out_codes.iter().position(|c| *c == k) } else { None }).collect();
    fired.sort();
    fired.dedup();
    sim.release(code_of("s"));
    sim.tick_n(5);
    if h.under_taphold {
        sim.release(code_of("z"));
        sim.tick_n(5);
    }
    for (k, _, hold) in presses.iter().rev() {
        if *hold {
            sim.release(code_of(HKEYS[*k]));
            sim.tick_n(2);
        }
    }
    sim.tick_n(20);
    let want: Vec<usize> = (0..h.leaves.len()).filter(|i| hist_leaf(h, *i).1).collect();
    let mut v = Verdict::pass(true);
    if fired != want {
        let typed: Vec<String> = presses.iter().map(|(k, t, hold)| format!("{}{}@{t}", HKEYS[*k], if *hold { "(held)" } else { "" })).collect();
        return Verdict::failed(
            "mismatch:switch-typed-history",
            format!("{text}typed {typed:?}, switch key at {ts} ms: cases {fired:?} fired, the written conditions are true for {want:?}\noutput {}", crate::sim::fmt_outs(&sim.outs)),
        );
    }
    v.classes.push("typed-history");
    if h.under_taphold {
        v.classes.push("typed-history-switch-under-pending-tap-hold");
    }
    if h.chords_v2 {
        v.classes.push("typed-history-with-chords-v2");
    }
    if presses.iter().filter(|p| p.0 < 10).count() >= 8 {
        v.classes.push("typed-history>=8-keys");
    }
    if presses.iter().any(|p| p.0 == 10) {
        v.classes.push("typed-history-layer-key-held");
    }
    v
}

fn run_pipeline(c: &SwCase) -> Verdict {
    // hold the active keys physically, then press the switch / fork key; compare output
    let text = cfg_text(c);
    let mut sim = match Sim::new(&text) {
        Ok(s) => s,
        Err(e) => return Verdict::failed("harness:switch-config-rejected", format!("{text}\n{e}")),
    };
    let env = &c.envs[0];
    // hist_inputs non-empty marks "lsft is held by a macro instead of physically"
    let macro_hold = !env.hist_inputs.is_empty() && env.active_keys.contains(&4);
    for k in &env.active_keys {
        if macro_hold && *k == 4 {
            continue;
        }
        sim.press(key_code_of(*k));
        sim.tick_n(2);
    }
    sim.tick_n(5);
    if macro_hold {
        sim.press(code_of("m"));
        sim.tick_n(8);
    }
    let before = sim.outs.len();
    sim.press(code_of("z"));
    sim.tick_n(30);
    let out_codes: Vec<u16> = OUTS.iter().map(|n| code_of(n)).collect();
    let fired: Vec<usize> = sim.outs[before..].iter().filter_map(|o| if let OutEv::Down(k) = o.ev { out_codes.iter().position(|c| *c == k) } else { None }).collect();
    let want: Vec<usize> = match &c.fork {
        Some(tr) => vec![if tr.iter().any(|k| env.active_keys.contains(k)) { 1 } else { 0 }],
        None => {
            // environment as the pipeline creates it: active keys = held keys, inputs = same,
            // history = the presses in order (most recent first), layer l0
            let mut e2 = env.clone();
            e2.hist_inputs.clear();
            e2.active_inputs = env.active_keys.iter().filter(|k| !(macro_hold && **k == 4)).map(|k| (false, *k)).collect();
            e2.layers = vec![0];
            e2.base = 0;
            expected_fired(c, &e2)
        }
    };
    let mut v = Verdict::pass(true);
    if macro_hold {
        v.classes.push("trigger-held-by-macro");
    }
    let mut fs = fired.clone();
    fs.dedup();
    if fs != want {
        v = Verdict::failed(
            if c.fork.is_some() { "mismatch:fork-branch" } else { "mismatch:switch-pipeline" },
            format!("{text}\nheld keys {:?}: output selects {fired:?}, written conditions give {want:?}", env.active_keys.iter().map(|k| KEYS[*k]).collect::<Vec<_>>()),
        );
    }
    v.classes.push(if c.fork.is_some() { "fork-pipeline" } else { "switch-pipeline" });
    v
}

fn exh_nodes(tier: Tier) -> usize {
    match tier {
        Tier::Quick => 6,
        Tier::Thorough => 7,
    }
}

impl TypedProp for C10 {
    type C = SwCase;
    fn id(&self) -> &'static str {
        "C10"
    }
    fn info(&self) -> PropInfo {
        PropInfo {
            level: "translation_validation",
            rule: "programs: switch condition expressions printed from an AST, compiled by the real parser, and evaluated by the real Switch::actions on generated environments (active keys, active inputs real/virtual, key and input histories with ages, layer stack, base layer); compared with a reference evaluation of the written expression (not = none of, top-level list = or, empty list = default case, cases top to bottom, break stops, key-timing at the documented rounded-down resolution, lt = at most, gt = more than). Exhaustive part: every expression shape of up to N nodes (N=6 quick, 7 thorough; and/or/not with 1-3 operands over key leaves a,b,c) x all 8 truth assignments. Random part: expressions up to 200 nodes / depth 7 over all seven leaf kinds, 1-12 cases with break/fallthrough, 6 environments each. Pipeline part: held keys + press of the switch / fork key through the whole state machine. Typed-history part (a quarter of the random cases): 0-12 keys are typed (tapped or held, among them a layer-while-held key, gaps 3-100 ms, with or without a defchordsv2 block in the configuration), then a switch key whose 1-6 cases each test one key-history / input-history / key-timing / input-real leaf with fallthrough; the cases that fire must be exactly the leaves that are true of what was typed (recency 1 of input-history = the switch key itself; key-timing thresholds 20 or 40 ms away from the true age); in a quarter of these the switch is the hold action of a tap-hold and another key is pressed while that decision is pending: it has arrived, so it is the most recent input, but is not in the key history yet. Non-trivial: every program (each is a distinct compiled expression).",
            assumptions: vec!["the environment handed to Switch::actions is generated directly, so history ages and the lossy key-timing ranges are exercised without waiting".into()],
            extra: BTreeMap::new(),
        }
    }
    fn plan(&self, tier: Tier) -> Plan {
        let e = exh_total(exh_nodes(tier));
        Plan {
            n_cases: e
                + match tier {
                    Tier::Quick => 250_000,
                    Tier::Thorough => 5_000_000,
                },
            exhaustive: false,
            distinct_by_construction: false,
            required_classes: vec!["switch-direct", "switch-pipeline", "fork-pipeline", "trigger-held-by-macro", "typed-history", "typed-history-with-chords-v2", "typed-history>=8-keys", "typed-history-layer-key-held", "typed-history-switch-under-pending-tap-hold", "depth>=6", "cases>=8", "nodes>=20", "exhaustive-shape"],
            hang_secs: 60,
        }
    }
    fn gen(&self, tier: Tier, _seed: u64, idx: u64) -> Gen<SwCase> {
        let e = exh_total(exh_nodes(tier));
        if idx < e {
            let expr = exh_expr(exh_nodes(tier), idx);
            return Gen::Fixed(SwCase {
                cases: vec![(vec![expr], true), (vec![], true)],
                envs: all_assignments(),
                pipeline: false,
                fork: None,
                hist: None,
            });
        }
        match (idx - e) % 8 {
            0 => Gen::Strat(1),
            1 | 5 => Gen::Strat(2),
            _ => Gen::Strat(0),
        }
    }
    fn strategy(&self, _tier: Tier, key: u32) -> BoxedStrategy<SwCase> {
        if key == 2 {
            return (
                any::<bool>(),
                prop::collection::vec((0u8..11, 0u8..4, prop::bool::weighted(0.2)), 0..13),
                0u8..4,
                prop::collection::vec((0u8..4, 0u8..12, 0u8..8, 0u8..8), 1..7),
                prop::bool::weighted(0.25),
            )
                .prop_map(|(chords_v2, taps, final_gap, leaves, under_taphold)| SwCase {
                    cases: vec![],
                    envs: vec![],
                    pipeline: false,
                    fork: None,
                    hist: Some(HistCase {
                        chords_v2: chords_v2 && !under_taphold,
                        taps,
                        final_gap,
                        leaves,
                        under_taphold,
                    }),
                })
                .boxed();
        }
        if key == 1 {
            // pipeline cases: key leaves only
            let kexpr = (0usize..5).prop_map(|k| Expr::L(Leaf::Key(k))).prop_recursive(4, 24, 3, |inner| {
                prop_oneof![
                    prop::collection::vec(inner.clone(), 1..4).prop_map(Expr::And),
                    prop::collection::vec(inner.clone(), 1..4).prop_map(Expr::Or),
                    prop::collection::vec(inner, 1..4).prop_map(Expr::Not),
                ]
            });
            return (
                prop::collection::vec((prop::collection::vec(kexpr, 0..3), any::<bool>()), 1..6),
                prop::collection::vec(0usize..5, 0..4),
                prop::option::weighted(0.3, prop::collection::vec(0usize..5, 1..3)),
                prop::bool::weighted(0.4),
            )
                .prop_map(|(cases, mut held, fork, macro_hold)| {
                    held.sort();
                    held.dedup();
                    SwCase {
                        cases,
                        envs: vec![Env {
                            hist_keys: held.iter().rev().map(|k| (*k, 0)).collect(),
                            hist_inputs: if macro_hold { vec![(false, 0, 0)] } else { vec![] },
                            active_inputs: vec![],
                            active_keys: held,
                            layers: vec![0],
                            base: 0,
                        }],
                        pipeline: true,
                        fork,
                        hist: None,
                    }
                })
                .boxed();
        }
        // expressions, some of them wrapped into a deep chain of operators (up to the maximum
        // nesting depth 8, occasionally 9 to see it rejected rather than mis-evaluated)
        let deep = (expr_strategy(), prop::collection::vec((0u8..3, prop::option::weighted(0.4, leaf_strategy())), 0..9), 0u8..60).prop_map(|(e, wraps, sel)| {
            if sel > 10 {
                return e;
            }
            // mostly up to the maximum accepted depth; rarely beyond it (must be rejected)
            let limit = if sel < 10 { 7 } else { 9 };
            let mut cur = e;
            for (op, sib) in wraps {
                if depth(&cur) >= limit {
                    break;
                }
                let mut items = vec![cur];
                if let Some(l) = sib {
                    if op % 2 == 0 {
                        items.push(Expr::L(l));
                    } else {
                        items.insert(0, Expr::L(l));
                    }
                }
                cur = match op {
                    0 => Expr::And(items),
                    1 => Expr::Or(items),
                    _ => Expr::Not(items),
                };
            }
            cur
        });
        (
            prop::collection::vec((prop::collection::vec(deep, 0..3), any::<bool>()), 1..=12),
            prop::collection::vec(env_strategy(), 6..=6),
        )
            .prop_map(|(cases, envs)| SwCase {
                cases,
                envs,
                pipeline: false,
                fork: None,
                hist: None,
            })
            .boxed()
    }
    fn judge(&self, case: &SwCase) -> Verdict {
        if let Some(h) = &case.hist {
            return run_hist(h);
        }
        if case.pipeline {
            return run_pipeline(case);
        }
        let mut v = run_switch(case);
        if case.envs.len() == 8 && case.cases.len() == 2 {
            v.classes.push("exhaustive-shape");
        }
        v
    }
    fn extra_coverage(&self, classes: &BTreeMap<String, u64>, evals: u64) -> BTreeMap<String, Value> {
        let mut m = BTreeMap::new();
        m.insert("programs".into(), json!(evals));
        m.insert("disagreements_checked".into(), json!(evals));
        m.insert("exhaustive_shapes".into(), json!(classes.get("exhaustive-shape").copied().unwrap_or(0)));
        m
    }
}
