//! C01 — No stuck output: once all keys are up, kanata releases everything and goes idle.
use super::gcase::*;
use crate::engine::*;
use crate::gen::cfg::{Profile, Tape};
use crate::gen::hist::*;
use crate::gen::kc;
use crate::sim::{fmt_outs, OsState, OutEv, Sim};
use proptest::prelude::*;
use std::collections::BTreeMap;

pub struct C01;

const BURST_KEYS: [&str; 40] = [
    "a", "b", "c", "d", "e", "f", "g", "h", "i", "j", "k", "l", "m", "n", "o", "p", "q", "r", "s", "t", "u", "v", "w", "x",
    "y", "z", "1", "2", "3", "4", "5", "6", "7", "8", "9", "0", "f1", "f2", "f3", "f4",
];

/// Capacity cases: many distinct keys carrying the same kind of action, all
/// pressed (nearly) at once, then all released.
fn burst_case(t: &mut Tape) -> GCase {
    let kind = t.pick(8);
    let n = match kind {
        0 | 6 => t.range(33, 40), // queue overflow
        1 => t.range(22, 30),     // > 64 states with 3 keys each
        2 => t.range(9, 14),      // > 8 tap-holds
        3 => t.range(17, 22),     // > 16 one-shots
        _ => t.range(5, 8),       // > 4 macros
    };
    let keys: Vec<&str> = BURST_KEYS[..n].to_vec();
    let mut cfg = String::from("(defcfg log-layer-changes no concurrent-tap-hold yes");
    if t.chance(1, 2) {
        cfg.push_str(" rapid-event-delay 0");
    }
    cfg.push_str(")\n(defsrc ");
    cfg.push_str(&keys.join(" "));
    cfg.push_str(")\n(deflayer l0");
    let outs = if kind == 7 { ["x", "y", "z", "u", "v", "w", "q", "r", "s"] } else { ["x", "y", "z", "lsft", "lctl", "lalt", "rsft", "ralt", "lmet"] };
    let mut timeouts = vec![];
    let mut macro_ticks = 0u64;
    let mut features = vec!["burst".to_string()];
    for (i, _) in keys.iter().enumerate() {
        let o = outs[i % outs.len()];
        let o2 = outs[(i + 1) % outs.len()];
        let o3 = outs[(i + 2) % outs.len()];
        let a = match kind {
            0 => match i % 5 {
                0 => "mlft".to_string(),
                1 => format!("(multi {o} mrgt)"),
                2 => format!("(mwheel-up 10 120)"),
                _ => o.to_string(),
            },
            1 => format!("(multi {o} {o2} {o3})"),
            2 => {
                let h = 10 + (i as u32 % 3) * 5;
                timeouts.push(h);
                let v = ["tap-hold", "tap-hold-press", "tap-hold-release"][i % 3];
                format!("({v} 0 {h} {o} {o2})")
            }
            3 => {
                timeouts.push(30);
                let v = ["one-shot", "one-shot-release", "one-shot-press-pcancel"][t.pick(3)];
                format!("({v} 30 {})", ["lsft", "lctl", "lalt", "rsft", "ralt", "lmet", "rctl", "rmet"][i % 8])
            }
            4 => {
                macro_ticks += 40;
                format!("(macro S-({o} 5 {o2}) 5 C-{o3} 10 {o})")
            }
            5 => {
                macro_ticks += 40;
                // any variant at any position (the fifth concurrent macro evicts the oldest: which
                // variant does the evicting matters)
                let v = ["macro-release-cancel", "macro-cancel-on-press", "macro-repeat", "macro", "macro-repeat-release-cancel"][t.pick(5)];
                format!("({v} A-({o} 8 {o2}) 4 {o3})")
            }
            7 => {
                // only variants that never cancel other macros (a cancel clears every macro's
                // keys and would hide a key left behind by an evicted macro)
                macro_ticks += 40;
                let v = ["macro", "macro-repeat"][t.pick(2)];
                // a modifier of its own per macro: a release by another macro must not clean up
                let m = ["S-", "C-", "A-", "M-", "RS-", "RC-", "RA-", "RM-"][i % 8];
                format!("({v} {m}({o} 8 {o2}) 4 {o3})")
            }
            _ => match i % 4 {
                0 => format!("(tap-hold 0 12 {o} {o2})"),
                1 => format!("(one-shot 20 {})", ["lsft", "lctl"][i % 2]),
                2 => format!("(macro {o} 3 {o2})"),
                _ => "mmid".to_string(),
            },
        };
        cfg.push(' ');
        cfg.push_str(&a);
    }
    cfg.push_str(")\n");
    if kind == 6 {
        timeouts.extend([12, 20]);
        macro_ticks += 50;
    }
    // history: press all, release all
    let mut events = vec![];
    let press_gap = *t.choose(&[0u32, 0, 1]);
    let order_rev = t.chance(1, 2);
    let rel_gap = *t.choose(&[0u32, 0, 1, 2]);
    if t.chance(1, 4) {
        // every key tapped, one after the other (one-shots stack instead of being held)
        for k in &keys {
            if press_gap > 0 {
                events.push(Ev::Gap(press_gap));
            }
            events.push(Ev::Press(kc(k)));
            if rel_gap > 0 {
                events.push(Ev::Gap(rel_gap.min(1)));
            }
            events.push(Ev::Release(kc(k)));
        }
        features.push("burst-of-taps".to_string());
    } else {
        for k in &keys {
            if press_gap > 0 {
                events.push(Ev::Gap(press_gap));
            }
            events.push(Ev::Press(kc(k)));
        }
        events.push(Ev::Gap(*t.choose(&[0u32, 1, 5, 40])));
        let mut ks: Vec<&&str> = keys.iter().collect();
        if order_rev {
            ks.reverse();
        }
        for k in ks {
            if rel_gap > 0 {
                events.push(Ev::Gap(rel_gap));
            }
            events.push(Ev::Release(kc(k)));
        }
    }
    features.push(format!("burst-kind-{kind}"));
    GCase {
        cfg,
        files: vec![],
        events,
        loop_emu: true,
        settle_hint: timeouts.iter().map(|t| *t as u64).sum::<u64>() + macro_ticks + 1200,
        features,
    }
}

/// A configuration that deliberately latches output (press-vkey / toggle-vkey without the
/// paired release on the same key) is outside the statement; shrinking must not drift there.
fn latching(cfg: &str) -> bool {
    use crate::sexpr::{parse, Node};
    let Some(forms) = parse(cfg) else { return false };
    fn op(n: &Node) -> Option<(String, String, String)> {
        let l = n.as_list()?;
        let h = l.first()?.as_atom()?;
        if (h == "on-press" || h == "on-release") && l.len() == 3 {
            return Some((h.to_string(), l[1].as_atom()?.to_string(), l[2].as_atom()?.to_string()));
        }
        None
    }
    fn walk(n: &Node, parent: Option<&Vec<Node>>, bad: &mut bool) {
        if let Some((trig, kind, vk)) = op(n) {
            if kind == "toggle-vkey" || kind == "toggle-virtualkey" {
                *bad = true;
            }
            if kind == "press-vkey" || kind == "press-virtualkey" {
                let paired = trig == "on-press"
                    && parent
                        .map(|p| {
                            p.first().and_then(|x| x.as_atom()) == Some("multi")
                                && p.iter().any(|s| matches!(op(s), Some((t, k, v)) if t == "on-release" && k.starts_with("release-v") && v == vk))
                        })
                        .unwrap_or(false);
                if !paired {
                    *bad = true;
                }
            }
        }
        if let Node::List(l) = n {
            for c in l {
                walk(c, Some(l), bad);
            }
        }
    }
    let mut bad = false;
    for f in &forms {
        walk(f, None, &mut bad);
    }
    bad
}

/// The case a tape of choices denotes (every tape denotes one: generation by construction). Also
/// the decoder of the coverage-guided tier (fuzz/fuzz_targets/tape_c01.rs).
pub fn case_from_tape(tape: &[u16]) -> GCase {
    let mut head = Tape::new(tape);
    if head.chance(1, 16) {
        let mut t = Tape::new(&tape[1.min(tape.len())..]);
        return burst_case(&mut t);
    }
    let rest = &tape[1.min(tape.len())..];
    let (cfg_tape, ev_tape) = rest.split_at(rest.len() * 2 / 3);
    let b = build_cfg(cfg_tape, Profile::Plausible, false);
    let mut t = Tape::new(ev_tape);
    let gaps = gap_set(&b, &[50, 1200]);
    let events = consistent_events(&mut t, &b, &gaps, 40, true, false);
    gcase_from(b, events, true)
}

impl TypedProp for C01 {
    type C = GCase;
    fn id(&self) -> &'static str {
        "C01"
    }
    fn info(&self) -> PropInfo {
        PropInfo {
            level: "exploration",
            rule: "configs: grammar-generated from the whole action grammar (layers, all tap-hold variants, tap-dance, one-shot variants, chords v1/v2, all macro variants, fork/switch, multi, release-key/layer, unmod, caps-word, mouse buttons/wheel/move, sequences, overrides, zippychord, virtual keys in balanced use only: tap, paired press/release, hold-for-duration, on-idle tap) with small timeouts; plus capacity configs (33-40 keys pressed within one tick, > 64 states, > 8 tap-holds, > 16 one-shots, > 4 macros). Histories: physically consistent press/release/repeat with gaps at T-1/T/T+1 of every timeout, every pressed key released. Oracle (invariant): after the settle bound S = sum(timeouts)+macro lengths+1200 ticks, for 300 further ticks (300 + the sum of the configured timeouts for zippychord configurations and one case in eight of the others: idle has to last): no key or mouse button down at the OS, no further output of any kind, is_idle() and the can-block decision true. Non-trivial: an output press happened and a probe saw a pending decision, an active one-shot, a running macro, sequence mode, a pending v2 chord or a capacity limit. Distinct: hash of (config, history).",
            assumptions: vec![
                "latching constructs (press-vkey / toggle-vkey without release, dynamic macro recording, live reload) are excluded by construction, as the statement allows".into(),
                "the loop is emulated by calling can_block_update_idle_waiting(1) after every 1 ms tick (blocking disabled), which is what makes on-idle actions run".into(),
            ],
            extra: BTreeMap::new(),
        }
    }
    fn plan(&self, tier: Tier) -> Plan {
        Plan {
            n_cases: match tier {
                Tier::Quick => 300_000,
                Tier::Thorough => 6_000_000,
            },
            exhaustive: false,
            distinct_by_construction: false,
            required_classes: vec!["waiting", "oneshot", "macro-running", "queue>=30", "sequence-mode", "chords-v2-pending", "burst", "output-press"],
            hang_secs: 90,
        }
    }
    fn gen(&self, _tier: Tier, _seed: u64, _idx: u64) -> Gen<GCase> {
        Gen::Strat(0)
    }
    fn strategy(&self, _tier: Tier, _key: u32) -> BoxedStrategy<GCase> {
        prop::collection::vec(any::<u16>(), 0..600).prop_map(|tape| case_from_tape(&tape)).boxed()
    }
    fn judge(&self, case: &GCase) -> Verdict {
        let files: std::collections::HashMap<String, String> = case.files.iter().cloned().collect();
        let mut sim = match Sim::new_with_files(&case.cfg, files) {
            Ok(s) => s,
            Err(_) => return Verdict::discard("gen_rejected"),
        };
        // the statement quantifies over histories in which every pressed key is released
        {
            let mut down: std::collections::BTreeSet<u16> = Default::default();
            for e in &case.events {
                let ok = match e {
                    Ev::Press(k) => down.insert(*k),
                    Ev::Release(k) => down.remove(k),
                    Ev::Repeat(k) => down.contains(k),
                    Ev::Tap(_) => false,
                    Ev::Gap(_) => true,
                };
                if !ok {
                    return Verdict::discard("inconsistent-history");
                }
            }
            if !down.is_empty() {
                return Verdict::discard("inconsistent-history");
            }
        }
        if latching(&case.cfg) {
            return Verdict::discard("latching-config");
        }
        let mut seen: [bool; 6] = [false; 6];
        // Observable classifier for the known findings F28 / F6: the layout hands kanata at
        // most one custom event per tick, and none for an event processed by queue overflow.
        // A tick in which two or more custom-action states appear/disappear, or an input call
        // during which one does, therefore loses a custom press/release handler.
        let mut multi_custom_tick = false;
        let mut custom_change_in_input = false;
        let mut queue_overflowed = false;
        let mut overflow_left_decision_pending = false;
        let mut states_full = false;
        // the queue was seen full after a tick: the layout's own pushes (virtual key taps of a
        // macro, chord replays) then evict events just like an input does
        let mut queue_full_seen = false;
        fn customs(s: &Sim) -> Vec<(u8, u16, usize)> {
            use kanata_keyberon::layout::State;
            s.k.layout
                .b()
                .states
                .iter()
                .filter_map(|st| match st {
                    State::Custom { value, coord } => Some((coord.0, coord.1, *value as *const _ as usize)),
                    _ => None,
                })
                .collect()
        }
        fn diff(a: &[(u8, u16, usize)], b: &[(u8, u16, usize)]) -> usize {
            let mut b2 = b.to_vec();
            let mut changes = 0;
            for x in a {
                match b2.iter().position(|y| y == x) {
                    Some(i) => {
                        b2.swap_remove(i);
                    }
                    None => changes += 1,
                }
            }
            changes + b2.len()
        }
        // ... or one of two or more custom-action states that share a key coordinate goes away:
        // the release of that coordinate produces a custom event for each of them (also for one
        // that a one-shot keeps alive), and only one is delivered
        fn shared_coord_removed(a: &[(u8, u16, usize)], b: &[(u8, u16, usize)]) -> bool {
            a.iter().any(|x| !b.contains(x) && a.iter().filter(|y| (y.0, y.1) == (x.0, x.1)).count() >= 2)
        }
        let mut probe = |s: &Sim| {
            let l = s.k.layout.b();
            if l.states.len() >= 64 {
                states_full = true;
            }
            if l.queue.len() >= 32 {
                queue_full_seen = true;
            }
            if l.waiting.is_some() {
                seen[0] = true;
            }
            if !l.oneshot.keys.is_empty() {
                seen[1] = true;
            }
            if !l.active_sequences.is_empty() {
                seen[2] = true;
            }
            if l.queue.len() >= 30 || l.states.len() >= 60 {
                seen[3] = true;
            }
            if !s.k.sequence_state.is_inactive() {
                seen[4] = true;
            }
            if let Some(c) = &l.chords_v2 {
                if !c.is_idle_chv2() {
                    seen[5] = true;
                }
            }
        };
        {
            use kanata_state_machine::oskbd::KeyValue;
            for ev in &case.events {
                match ev {
                    Ev::Press(k) | Ev::Release(k) | Ev::Repeat(k) | Ev::Tap(k) => {
                        let before = customs(&sim);
                        if sim.k.layout.b().queue.len() >= 32 {
                            queue_overflowed = true;
                        }
                        let val = match ev {
                            Ev::Press(_) => KeyValue::Press,
                            Ev::Release(_) => KeyValue::Release,
                            Ev::Repeat(_) => KeyValue::Repeat,
                            _ => KeyValue::Tap,
                        };
                        // what F6 describes: on overflow every pending decision is forced. An
                        // overflow after which the very same tap-hold decision is still pending
                        // is not that known behaviour, and is not attributed to it.
                        fn pending_tap_hold(s: &Sim) -> Option<String> {
                            let l = s.k.layout.b();
                            let w = l.waiting.as_ref()?;
                            let d = format!("{w:?}");
                            if !d.contains("config: HoldTap(") {
                                return None;
                            }
                            let i = d.find("coord: (")?;
                            let j = d[i..].find(')')?;
                            Some(d[i..i + j + 1].to_string())
                        }
                        let was_full = sim.k.layout.b().queue.len() >= 32;
                        let pending_before = if was_full { pending_tap_hold(&sim) } else { None };
                        sim.input(*k, val);
                        if was_full && pending_before.is_some() && pending_tap_hold(&sim) == pending_before {
                            overflow_left_decision_pending = true;
                        }
                        if diff(&before, &customs(&sim)) > 0 {
                            custom_change_in_input = true;
                        }
                        probe(&sim);
                    }
                    Ev::Gap(g) => {
                        for _ in 0..*g {
                            let before = customs(&sim);
                            sim.tick();
                            let _ = sim.k.can_block_update_idle_waiting(1);
                            let after = customs(&sim);
                            if diff(&before, &after) >= 2 || shared_coord_removed(&before, &after) {
                                multi_custom_tick = true;
                            }
                            probe(&sim);
                        }
                    }
                }
            }
        }
        // Adaptive settle: run until kanata has been completely quiet (nothing down at the OS,
        // no output, is_idle and can-block true) for 300 consecutive ticks. The hard bound is a
        // generous multiple of the configured timeouts and macro lengths (constructs may chain:
        // an on-idle action tapping a virtual key whose macro enters sequence mode, ...).
        let hard_bound = (case.settle_hint * 6 + 6000).min(400_000);
        let mut os = OsState::default();
        let mut any_press = false;
        let mut applied = 0usize;
        let mut quiet = 0u64;
        let mut settle = 0u64;
        let mut not_idle_at: Option<u64> = None;
        let mut cannot_block_at: Option<u64> = None;
        let mut n_before = sim.outs.len();
        // Idle must also last: with zippychord configured (its deadline and reactivation timers run on
        // after the last release) and for one case in eight of the others the quiet period has to be as
        // long as the configured timeouts add up to, not just 300 ticks.
        let quiet_needed: u64 = if case.cfg.contains("(defzippy") || case.events.len() % 8 == 0 { 300 + case.settle_hint.min(2500) } else { 300 };
        while settle < hard_bound && quiet < quiet_needed {
            settle += 1;
            let before = if settle < 3000 { Some(customs(&sim)) } else { None };
            let n0 = sim.outs.len();
            sim.tick();
            if let Some(b) = before {
                let after = customs(&sim);
                if diff(&b, &after) >= 2 || shared_coord_removed(&b, &after) {
                    multi_custom_tick = true;
                }
            }
            let cb = sim.k.can_block_update_idle_waiting(1);
            probe(&sim);
            for o in &sim.outs[applied..] {
                if matches!(o.ev, OutEv::Down(_) | OutEv::BtnDown(_)) {
                    any_press = true;
                }
                os.apply(o);
            }
            applied = sim.outs.len();
            let idle = sim.k.is_idle();
            if sim.outs.len() == n0 && !os.anything_down() && idle && cb {
                quiet += 1;
            } else {
                if quiet == 0 || sim.outs.len() != n0 {
                    n_before = n0;
                }
                quiet = 0;
                not_idle_at = if idle { None } else { Some(settle) };
                cannot_block_at = if cb { None } else { Some(settle) };
            }
        }
        let settled = quiet >= quiet_needed;
        if settled {
            not_idle_at = None;
            cannot_block_at = None;
            n_before = sim.outs.len();
        } else {
            // what was produced in the last 300 ticks before giving up
            n_before = sim.outs.iter().position(|o| o.t + 300 > sim.ticks).unwrap_or(sim.outs.len());
        }
        let late: Vec<_> = sim.outs[n_before..].to_vec();
        let nontrivial = any_press && seen.iter().any(|x| *x);
        let mut v = Verdict::pass(nontrivial);
        let tail = |sim: &Sim| {
            let from = sim.outs.len().saturating_sub(40);
            fmt_outs(&sim.outs[from..])
        };
        if os.anything_down() {
            let l = sim.k.layout.b();
            let what = if !os.keys.is_empty() { "key" } else { "mouse-button" };
            v = Verdict::failed(
                format!("stuck:{what}-down-after-settle"),
                format!(
                    "after all keys were released and {settle} settle ticks the OS still sees down: keys {:?} buttons {:?}; layout states={} queue={} waiting={} oneshot_keys={} active_sequences={}; last outputs: {}",
                    os.keys.iter().map(|k| crate::sim::out_name(*k)).collect::<Vec<_>>(),
                    os.btns,
                    l.states.len(),
                    l.queue.len(),
                    l.waiting.is_some(),
                    l.oneshot.keys.len(),
                    l.active_sequences.len(),
                    tail(&sim)
                ),
            );
        } else if !late.is_empty() {
            v = Verdict::failed(
                "stuck:output-after-settle",
                format!("output still being produced {settle}+ ticks after the last release: {}", fmt_outs(&late[..late.len().min(20)])),
            );
        } else if let Some(i) = not_idle_at {
            v = Verdict::failed("stuck:not-idle-after-settle", format!("is_idle() false {i} ticks after the settle bound {settle}; last outputs: {}", tail(&sim)));
        } else if let Some(i) = cannot_block_at {
            v = Verdict::failed("stuck:cannot-block-after-settle", format!("can_block_update_idle_waiting false {i} ticks after the settle bound {settle}"));
        }
        let max_run = {
            let mut m = 0usize;
            let mut cur = 0usize;
            for e in &case.events {
                if matches!(e, Ev::Gap(_)) {
                    cur = 0;
                } else {
                    cur += 1;
                    m = m.max(cur);
                }
            }
            m
        };
        // most input events within any 8 ms window
        let dense_window = {
            let mut times: Vec<u64> = vec![];
            let mut now = 0u64;
            for e in &case.events {
                match e {
                    Ev::Gap(g) => now += *g as u64,
                    _ => times.push(now),
                }
            }
            let mut best = 0usize;
            let mut lo = 0usize;
            for hi in 0..times.len() {
                while times[hi] - times[lo] >= 8 {
                    lo += 1;
                }
                best = best.max(hi - lo + 1);
            }
            best
        };
        let (aq_len, waiting_now, nstates, seqs_now) = {
            let l = sim.k.layout.b();
            (l.action_queue.len(), l.waiting.is_some(), l.states.len(), l.active_sequences.len())
        };
        if v.fail.is_some() && aq_len > 0 {
            // F30: a switch case whose `_` resolves to the same switch again (the same layer is
            // active twice: layer-while-held of the current base layer) re-queues itself every
            // tick; the action queue never drains and input is never processed again.
            if let Some(f) = v.fail.as_mut() {
                f.sig = f.sig.replacen("stuck:", "stuck:action-queue-never-drains:", 1);
            }
            v.classes.push("action-queue-livelock");
        } else if v.fail.is_some() && case.cfg.contains("rpt-any") && (waiting_now || nstates >= 60 || seqs_now > 0) {
            // F29: rpt-any as an item of a tap-dance / tap-hold inside a multi repeats the
            // enclosing multi, which starts the same waiting action again, for ever.
            if let Some(f) = v.fail.as_mut() {
                f.sig = f.sig.replacen("stuck:", "stuck:rpt-any-retriggers-enclosing-action:", 1);
            }
            v.classes.push("rpt-any-retrigger");
        } else if v.fail.is_some() && case.cfg.contains("(defchordsv2") && case.cfg.contains("(macro-repeat") {
            // F32: a repeating macro together with chords v2 is never stopped (see known findings).
            if let Some(f) = v.fail.as_mut() {
                f.sig = f.sig.replacen("stuck:", "stuck:macro-repeat-with-chords-v2:", 1);
            }
            v.classes.push("macro-repeat-with-chords-v2");
        } else if (max_run >= 12 || dense_window >= 12) && case.cfg.contains("(defchordsv2") {
            // F6b: chords v2 forwards at most 16 events per tick to the layout and silently
            // drops the oldest beyond that.
            if let Some(f) = v.fail.as_mut() {
                f.sig = f.sig.replacen("stuck:", "stuck:chords-v2-more-than-16-events-in-one-tick:", 1);
            }
            v.classes.push("chords-v2-burst>16");
        } else if (custom_change_in_input || queue_overflowed || queue_full_seen) && !overflow_left_decision_pending {
            // F6: an event pushed out of the full 32-slot queue is processed inside the input
            // call, out of order with the pending decisions, and its custom event is dropped.
            if let Some(f) = v.fail.as_mut() {
                f.sig = f.sig.replacen("stuck:", "stuck:event-queue-overflow:", 1);
            }
            v.classes.push("event-queue-overflow");
        } else if states_full {
            // F31: the 64-entry state vector was full; pushes of new states fail silently.
            if let Some(f) = v.fail.as_mut() {
                f.sig = f.sig.replacen("stuck:", "stuck:state-vector-full:", 1);
            }
            v.classes.push("state-vector-full");
        } else if multi_custom_tick {
            // F28: at most one custom event per tick is delivered.
            if let Some(f) = v.fail.as_mut() {
                f.sig = f.sig.replacen("stuck:", "stuck:custom-event-lost-two-in-one-tick:", 1);
            }
            v.classes.push("two-custom-events-in-one-tick");
        }
        let names = ["waiting", "oneshot", "macro-running", "queue>=30", "sequence-mode", "chords-v2-pending"];
        for (i, n) in names.iter().enumerate() {
            if seen[i] {
                v.classes.push(n);
            }
        }
        if any_press {
            v.classes.push("output-press");
        }
        if case.features.iter().any(|f| f == "burst") {
            v.classes.push("burst");
        }
        v
    }
    fn shrink_more(&self, case: &GCase, fails: &mut dyn FnMut(&GCase) -> bool) -> GCase {
        shrink_gcase(case, fails)
    }
}
