pub mod mcase;
pub mod c01;
pub mod c02;
pub mod c03;
pub mod gcase;
pub mod c04;
pub mod c05;
pub mod c06;
pub mod c07;
pub mod c08;
pub mod c09;
pub mod c10;
pub mod c11;
pub mod c12;
pub mod c13;
pub mod c14;
pub mod c15;
pub mod c16;
pub mod c17;
pub mod c18;
pub mod c19;
pub mod c20;

use crate::engine::{DynProp, Wrap};

pub fn all() -> Vec<Box<dyn DynProp>> {
    vec![Box::new(Wrap(c01::C01)), Box::new(Wrap(c02::C02)), Box::new(Wrap(c03::C03)), Box::new(Wrap(c04::C04)), Box::new(Wrap(c05::C05)), Box::new(Wrap(c06::C06)), Box::new(Wrap(c07::C07)), Box::new(Wrap(c08::C08)), Box::new(Wrap(c09::C09)), Box::new(Wrap(c10::C10)), Box::new(Wrap(c11::C11)), Box::new(Wrap(c12::C12)), Box::new(Wrap(c13::C13)), Box::new(Wrap(c14::C14)), Box::new(Wrap(c15::C15)), Box::new(Wrap(c16::C16)), Box::new(Wrap(c17::C17)), Box::new(Wrap(c18::C18)), Box::new(Wrap(c19::C19)), Box::new(Wrap(c20::C20))]
}

/// In-target entry of the coverage-guided tier of the tape-generated checks (C01, C02): the bytes
/// are a tape of 16-bit choices, decoded by the same function the property check generates its
/// cases with; the oracle is the check's own `judge`. `Err((signature, detail, replay))` for a
/// violation that is not a listed known finding; `replay` is the case in the format of
/// `./check <ID> --replay`.
pub fn fuzz_tape(id: &str, data: &[u8]) -> Result<(), (String, String, serde_json::Value)> {
    use crate::engine::{known::Known, Case, TypedProp};
    static INIT: std::sync::Once = std::sync::Once::new();
    static KNOWN: std::sync::OnceLock<Known> = std::sync::OnceLock::new();
    INIT.call_once(|| crate::engine::install_panic_hook(true));
    let known = KNOWN.get_or_init(Known::load);
    let tape: Vec<u16> = data.chunks_exact(2).map(|c| u16::from_le_bytes([c[0], c[1]])).collect();
    let (case, v) = match id {
        "C01" => {
            let c = c01::case_from_tape(&tape);
            let v = crate::engine::guarded(|| c01::C01.judge(&c));
            (c.to_json(), v)
        }
        "C02" => {
            let c = c02::case_from_tape(&tape);
            let v = crate::engine::guarded(|| c02::C02.judge(&c));
            (c.to_json(), v)
        }
        _ => panic!("no tape decoder for {id}"),
    };
    match v.fail {
        Some(f) if known.matches(id, &f.sig).is_none() => Err((f.sig, f.detail, serde_json::json!({"property": id, "case": case}))),
        _ => Ok(()),
    }
}
