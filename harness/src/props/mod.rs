pub mod mcase;
pub mod c04;

use crate::engine::{DynProp, Wrap};

pub fn all() -> Vec<Box<dyn DynProp>> {
    vec![Box::new(Wrap(c04::C04))]
}
