//! C20 — Zippychord leaves exactly the expansion on screen.
//!
//! Generated dictionaries (overlapping chords, chords that extend other chords, follow-up
//! chords, upper / lower case outputs); for one entry every chord of its path is pressed in a
//! generated order with small gaps, with or without shift held, then more keys are typed. The OS
//! output is replayed into a text buffer (letters, space, backspace, shift state) and compared
//! with the text the dictionary promises.
use crate::engine::*;
use crate::sim::{code_of, fmt_outs, out_name, OutEv, Sim};
use proptest::prelude::*;
use serde_json::{json, Value};
use std::collections::{BTreeMap, BTreeSet};

pub struct C20;

/// chord keys; the last one is punctuation for smart-space
pub const CHORD_KEYS: [&str; 7] = ["a", "b", "c", "d", "e", "f", "."];
const OUT_CHARS: [char; 18] = ['a', 'b', 'g', 'h', 'i', 't', 'A', 'G', 'T', ' ', 'o', 'n', 'x', 'B', '!', '?', '®', 'ß'];
/// characters the configuration tells zippychord how to type (output-character-mappings):
/// (character, mapping as written, key, shift, altgr)
const MAPPED: [(char, &str, &str, bool, bool); 4] = [('!', "S-1", "1", true, false), ('?', "S-/", "/", true, false), ('®', "AG-r", "r", false, true), ('ß', "AG-s", "s", false, true)];
/// keys for the typing that follows: never part of a chord
const TAIL_KEYS: [&str; 5] = ["x", "y", "z", ";", ","];

#[derive(Clone, Debug, PartialEq, Eq, Hash)]
pub struct ZEntry {
    /// key masks over CHORD_KEYS: the first chord and its follow-up chords
    pub chords: Vec<u8>,
    pub out: String,
}

#[derive(Clone, Debug, PartialEq, Eq, Hash)]
pub struct ZCase {
    pub entries: Vec<ZEntry>,
    /// 0 none, 1 add-space-only, 2 full
    pub smart_space: u8,
    pub which: u16,
    /// press order selector per chord of the path, and the gap between presses (ms)
    pub orders: Vec<u16>,
    pub gap: u8,
    pub shift: bool,
    /// the shift that is held is the right one
    pub right_shift: bool,
    /// the user holds AltGr (right alt) while pressing the chords
    pub altgr: bool,
    /// a character is typed first (and zippychord left to re-enable): erasing too much shows
    pub prefix: bool,
    /// indexes into TAIL_KEYS typed afterwards
    pub tail: Vec<u8>,
    /// 0: press the path of entry `which`; 1: only sequential single-key typing over the chord keys;
    /// 3: slower than the deadline; 5: several episodes (see `episodes`)
    pub scenario: u8,
    /// each chord of a path is released slowly: all keys but one, 350 ms (longer than the deadline), the last one
    pub slow_release: bool,
    /// scenario 5: (kind, selector) - kind 0: the whole path of an entry, 1: the whole path with the last
    /// chord held longer than the deadline, 2: a single key tapped; full release and 600 ms between them
    pub episodes: Vec<(u8, u16)>,
}

pub fn mask_keys(m: u8) -> Vec<usize> {
    (0..7).filter(|i| m & (1 << i) != 0).collect()
}
fn chord_text(m: u8) -> String {
    mask_keys(m).iter().map(|i| CHORD_KEYS[*i]).collect()
}

pub fn file_text(c: &ZCase) -> String {
    let mut s = String::new();
    for e in &c.entries {
        s.push_str(&e.chords.iter().map(|m| chord_text(*m)).collect::<Vec<_>>().join(" "));
        s.push('\t');
        s.push_str(&e.out);
        s.push('\n');
    }
    s
}
pub fn cfg_text(c: &ZCase) -> String {
    format!(
        "(defcfg log-layer-changes no)\n(defsrc a b c d e f x y z . , ; lsft rsft spc ralt)\n(deflayer l0 a b c d e f x y z . , ; lsft rsft spc ralt)\n(defzippy zippy.txt on-first-press-chord-deadline 300 idle-reactivate-time 400 smart-space {}\n  output-character-mappings ({}))\n",
        ["none", "add-space-only", "full"][c.smart_space as usize % 3],
        MAPPED.iter().map(|(ch, m, ..)| format!("{ch} {m}")).collect::<Vec<_>>().join(" ")
    )
}

impl Case for ZCase {
    fn to_json(&self) -> Value {
        json!({"config": cfg_text(self), "zippy_file": file_text(self),
            "entries": self.entries.iter().map(|e| json!([e.chords, e.out])).collect::<Vec<_>>(),
            "smart_space": self.smart_space, "which": self.which, "orders": self.orders, "gap": self.gap, "shift": self.shift, "right_shift": self.right_shift, "altgr": self.altgr, "prefix": self.prefix, "tail": self.tail, "scenario": self.scenario, "slow_release": self.slow_release, "episodes": self.episodes})
    }
    fn from_json(v: &Value) -> Option<Self> {
        Some(ZCase {
            entries: v["entries"]
                .as_array()?
                .iter()
                .map(|e| {
                    Some(ZEntry {
                        chords: e[0].as_array()?.iter().filter_map(|x| x.as_u64().map(|y| y as u8)).collect(),
                        out: e[1].as_str()?.to_string(),
                    })
                })
                .collect::<Option<Vec<_>>>()?,
            smart_space: v["smart_space"].as_u64()? as u8,
            which: v["which"].as_u64()? as u16,
            orders: v["orders"].as_array()?.iter().filter_map(|x| x.as_u64().map(|y| y as u16)).collect(),
            gap: v["gap"].as_u64()? as u8,
            shift: v["shift"].as_bool()?,
            right_shift: v["right_shift"].as_bool().unwrap_or(false),
            altgr: v["altgr"].as_bool().unwrap_or(false),
            prefix: v["prefix"].as_bool().unwrap_or(false),
            tail: v["tail"].as_array()?.iter().filter_map(|x| x.as_u64().map(|y| y as u8)).collect(),
            scenario: v["scenario"].as_u64()? as u8,
            slow_release: v["slow_release"].as_bool().unwrap_or(false),
            episodes: v["episodes"].as_array().map(|a| a.iter().filter_map(|e| Some((e[0].as_u64()? as u8, e[1].as_u64()? as u16))).collect()).unwrap_or_default(),
        })
    }
    fn canon_hash(&self) -> u64 {
        use std::hash::{Hash, Hasher};
        let mut h = rustc_hash::FxHasher::default();
        self.hash(&mut h);
        h.finish()
    }
}

fn perms(n: usize) -> Vec<Vec<usize>> {
    if n == 0 {
        return vec![vec![]];
    }
    let mut out = vec![];
    for p in perms(n - 1) {
        for pos in 0..=p.len() {
            let mut q = p.clone();
            q.insert(pos, n - 1);
            out.push(q);
        }
    }
    out
}

/// The character a key produces with the given modifier state (US-international-like layout:
/// the mapped characters of MAPPED, upper case letters; every other combination with a
/// modifier is a character of its own from the private-use area, so that "typed with the
/// wrong modifier" is always visible).
fn glyph(base: char, key: u16, shift: bool, altgr: bool) -> char {
    if base == ' ' {
        return ' ';
    }
    for (ch, _, k, sh, ag) in MAPPED {
        if code_of(k) == key && sh == shift && ag == altgr {
            return ch;
        }
    }
    match (shift, altgr) {
        (false, false) => base,
        (true, false) if base.is_ascii_lowercase() => base.to_ascii_uppercase(),
        _ => char::from_u32(0xE000 + key as u32 + if shift { 0x400 } else { 0 } + if altgr { 0x800 } else { 0 }).unwrap(),
    }
}
/// What a character of an expansion looks like when the user's held shift is added to it.
fn with_shift(ch: char) -> char {
    for (m, _, k, sh, ag) in MAPPED {
        if m == ch {
            let base = k.chars().next().unwrap();
            return glyph(base, code_of(k), sh || true, ag);
        }
    }
    ch.to_ascii_uppercase()
}

/// Replay OS output into a text buffer. Returns (text, a shift is down, altgr is down).
fn text_of(outs: &[crate::sim::Out]) -> (String, bool, bool) {
    let mut text: Vec<char> = vec![];
    let mut shift: BTreeSet<u16> = BTreeSet::new();
    let mut altgr = false;
    let sh = [code_of("lsft"), code_of("rsft")];
    let ralt = code_of("ralt");
    let bs = code_of("bspc");
    let spc = code_of("spc");
    let mut table: BTreeMap<u16, char> = BTreeMap::new();
    for ch in "abcdefghijklmnopqrstuvwxyz0123456789".chars() {
        table.insert(code_of(&ch.to_string()), ch);
    }
    table.insert(code_of("."), '.');
    table.insert(code_of(","), ',');
    table.insert(code_of(";"), ';');
    table.insert(code_of("/"), '/');
    for o in outs {
        match o.ev {
            OutEv::Down(k) if sh.contains(&k) => {
                shift.insert(k);
            }
            OutEv::Up(k) if sh.contains(&k) => {
                shift.remove(&k);
            }
            OutEv::Down(k) if k == ralt => altgr = true,
            OutEv::Up(k) if k == ralt => altgr = false,
            OutEv::Down(k) if k == bs => {
                text.pop();
            }
            OutEv::Down(k) if k == spc => text.push(' '),
            OutEv::Down(k) => {
                if let Some(ch) = table.get(&k) {
                    text.push(glyph(*ch, k, !shift.is_empty(), altgr));
                }
            }
            _ => {}
        }
    }
    (text.into_iter().collect(), !shift.is_empty(), altgr)
}

fn capitalize_first(s: &str) -> String {
    let mut cs: Vec<char> = s.chars().collect();
    if let Some(c) = cs.first_mut() {
        *c = with_shift(*c);
    }
    cs.into_iter().collect()
}

/// Press and release every chord of an entry's path. `hold_last`: the last chord stays down for 350 ms
/// (longer than the deadline) before it is released.
fn press_path(sim: &mut Sim, c: &ZCase, entry: &ZEntry, typed_desc: &mut Vec<String>, hold_last: bool, mut after_activation: impl FnMut(&Sim), classes: &mut Vec<&'static str>) {
    for (j, m) in entry.chords.iter().enumerate() {
        let keys = mask_keys(*m);
        let ps = perms(keys.len());
        let order = &ps[crate::engine::pick(c.orders.get(j).copied().unwrap_or(0), ps.len())];
        // slow but in time: the first chord's keys arrive spread over 200 ms (deadline 300)
        // and stay down for another 200 ms - an activation restarts the deadline
        let slow = c.gap >= 8 && j == 0 && keys.len() >= 2 && !hold_last;
        for (n, oi) in order.iter().enumerate() {
            sim.press(code_of(CHORD_KEYS[keys[*oi]]));
            typed_desc.push(format!("d:{}", CHORD_KEYS[keys[*oi]]));
            if slow && n + 1 < order.len() {
                let g = 200 / (order.len() as u64 - 1);
                sim.tick_n(g);
                typed_desc.push(format!("t:{g}"));
            } else {
                sim.tick_n(1 + c.gap as u64 % 8);
            }
        }
        sim.tick_n(5);
        if slow {
            sim.tick_n(200);
            typed_desc.push("t:200".into());
            classes.push("late-but-within-the-deadline");
        }
        if hold_last && j + 1 == entry.chords.len() {
            sim.tick_n(350);
            typed_desc.push("t:350".into());
        }
        after_activation(sim);
        let n = order.len();
        for (i, oi) in order.iter().rev().enumerate() {
            if c.slow_release && n >= 2 && i + 1 == n {
                // the last key of the chord stays down beyond the deadline
                sim.tick_n(350);
                typed_desc.push("t:350".into());
                classes.push("chord-released-slowly");
            }
            sim.release(code_of(CHORD_KEYS[keys[*oi]]));
            typed_desc.push(format!("u:{}", CHORD_KEYS[keys[*oi]]));
            sim.tick_n(2);
        }
        sim.tick_n(10);
    }
}

/// (F50 applies, F49 applies) to the path of `entry`
fn superseder_flags(c: &ZCase, entry: &ZEntry) -> (bool, bool) {
    let mut empty_superseder = false;
    let mut followup_superseder = false;
    for j in 0..entry.chords.len() {
        let prefix = &entry.chords[..j];
        let m = entry.chords[j];
        let own_line = c.entries.iter().any(|e| e.chords.len() == j + 1 && &e.chords[..j] == prefix && e.chords[j] == m);
        // a shorter chord of the same level, with its own line or as an implicit node
        let shorter_sibling = c.entries.iter().any(|e| e.chords.len() > j && &e.chords[..j] == prefix && e.chords[j] != m && e.chords[j] & m == e.chords[j]);
        let shorter_with_output = c.entries.iter().any(|e| e.chords.len() == j + 1 && &e.chords[..j] == prefix && e.chords[j] != m && e.chords[j] & m == e.chords[j]);
        if j >= 1 && shorter_sibling {
            followup_superseder = true;
        }
        if j + 1 < entry.chords.len() && !own_line && shorter_with_output {
            empty_superseder = true;
        }
    }
    (followup_superseder, empty_superseder)
}

fn judge_case(c: &ZCase) -> Verdict {
    if c.entries.is_empty() {
        return Verdict::discard("empty-dictionary");
    }
    let text = cfg_text(c);
    let file = file_text(c);
    let files: std::collections::HashMap<String, String> = [("zippy.txt".to_string(), file.clone())].into_iter().collect();
    let mut sim = match Sim::new_with_files(&text, files) {
        Ok(s) => s,
        Err(e) => return Verdict::failed("harness:zippy-config-rejected", format!("{text}--- zippy.txt\n{file}\n{e}")),
    };
    let wi = crate::engine::pick(c.which, c.entries.len());
    let entry = &c.entries[wi];
    let mut v = Verdict::pass(false);
    let mut typed_desc: Vec<String> = vec![];
    let lsft = code_of(if c.right_shift { "rsft" } else { "lsft" });
    let mut shift_restored_ok = true;
    let mut altgr_restored_ok = true;
    let (mut ep_f50, mut ep_f49) = (false, false);
    let expected: String;
    if c.scenario % 4 == 3 {
        // the chord's keys pressed too slowly: each more than the deadline (300 ms, not the default) after the
        // previous one; nothing activates, the keys are typed as they are
        let keys = mask_keys(entry.chords[0]);
        let ps = perms(keys.len());
        let order = &ps[crate::engine::pick(c.orders.first().copied().unwrap_or(0), ps.len())];
        let mut exp = String::new();
        for oi in order {
            let name = CHORD_KEYS[keys[*oi]];
            sim.press(code_of(name));
            typed_desc.push(format!("d:{name} t:310"));
            sim.tick_n(310);
            exp.push(name.chars().next().unwrap());
        }
        for oi in order {
            sim.release(code_of(CHORD_KEYS[keys[*oi]]));
            sim.tick_n(3);
        }
        expected = exp;
        v.classes.push("slower-than-the-deadline");
    } else if c.scenario == 5 {
        // several episodes, kanata completely released and idle for 600 ms (idle-reactivate 400) between
        // them: each must leave exactly its own text behind, whatever the earlier ones did
        let mut exp = String::new();
        // the path whose follow-up chords may still be waiting
        let mut pending: Option<Vec<u8>> = None;
        // the previous episode added a smart space and nothing has been typed since
        let mut space_pending = false;
        let mut space_unknown = false;
        let mut done = 0;
        for (kind, sel) in &c.episodes {
            match kind % 3 {
                0 | 1 => {
                    let e = &c.entries[crate::engine::pick(*sel, c.entries.len())];
                    let has_followups = c.entries.iter().any(|o| o.chords.len() > e.chords.len() && o.chords[..e.chords.len()] == e.chords[..]);
                    // what a hold beyond the deadline does to waiting follow-ups is not stated
                    if pending.is_some() || (kind % 3 == 1 && has_followups) {
                        continue;
                    }
                    // smart-space full (documented): punctuation typed right after an activation removes
                    // the space that activation added - also when it is the first key of the next chord
                    {
                        let keys = mask_keys(e.chords[0]);
                        let ps = perms(keys.len());
                        let order = &ps[crate::engine::pick(c.orders.first().copied().unwrap_or(0), ps.len())];
                        if space_unknown && c.smart_space % 3 == 2 && CHORD_KEYS[keys[order[0]]] == "." {
                            // after a hold beyond the deadline it is not stated whether the space still counts
                            continue;
                        }
                        if space_pending && c.smart_space % 3 == 2 && CHORD_KEYS[keys[order[0]]] == "." {
                            exp.pop();
                            v.classes.push("episode:chord-begins-with-punctuation-after-smart-space");
                        }
                    }
                    let mut classes = vec![];
                    press_path(&mut sim, c, e, &mut typed_desc, kind % 3 == 1, |_| {}, &mut classes);
                    v.classes.extend(classes);
                    exp.push_str(&e.out);
                    space_pending = c.smart_space % 3 != 0 && !e.out.ends_with(' ');
                    if space_pending {
                        exp.push(' ');
                    }
                    space_unknown = space_pending && kind % 3 == 1;
                    if space_unknown {
                        space_pending = false;
                    }
                    pending = if has_followups { Some(e.chords.clone()) } else { None };
                    let (f50, f49) = superseder_flags(c, e);
                    ep_f50 |= f50;
                    ep_f49 |= f49;
                    if kind % 3 == 1 {
                        v.classes.push("episode:held-beyond-the-deadline");
                    }
                }
                _ => {
                    // a single key: a, b, c, d, e, f, x, y, z (no punctuation: smart-space)
                    let names = ["a", "b", "c", "d", "e", "f", "x", "y", "z"];
                    let name = names[crate::engine::pick(*sel, names.len())];
                    if let Some(p) = &pending {
                        // it must not be part of a follow-up chord that is still waiting
                        let bit = CHORD_KEYS.iter().position(|k| *k == name).map(|i| 1u8 << i).unwrap_or(0);
                        if c.entries.iter().any(|o| o.chords.len() > p.len() && o.chords[..p.len()] == p[..] && o.chords[p.len()] & bit != 0) {
                            continue;
                        }
                        v.classes.push("episode:lone-key-while-follow-ups-wait");
                    }
                    sim.press(code_of(name));
                    sim.tick_n(1 + c.gap as u64 % 6);
                    sim.release(code_of(name));
                    typed_desc.push(format!("tap:{name}"));
                    exp.push(name.chars().next().unwrap());
                    pending = None;
                    space_pending = false;
                    space_unknown = false;
                }
            }
            sim.tick_n(600);
            typed_desc.push("t:600".into());
            done += 1;
        }
        if done < 2 {
            return Verdict::discard("fewer-than-two-episodes");
        }
        expected = exp;
        v.classes.push("episodes");
    } else if c.scenario % 2 == 1 {
        // sequential single-key typing: never a chord
        let mut exp = String::new();
        for (i, t) in c.tail.iter().chain(c.orders.iter().map(|o| (*o % 256) as u8).collect::<Vec<u8>>().iter()).enumerate() {
            // alternate between chord keys and other keys
            let (name, ch) = if i % 2 == 0 {
                let k = CHORD_KEYS[*t as usize % 6];
                (k, k.chars().next().unwrap())
            } else {
                let k = TAIL_KEYS[*t as usize % 3];
                (k, k.chars().next().unwrap())
            };
            sim.press(code_of(name));
            sim.tick_n(1 + c.gap as u64 % 6);
            sim.release(code_of(name));
            sim.tick_n(2 + c.gap as u64 % 9);
            exp.push(ch);
            typed_desc.push(format!("tap:{name}"));
        }
        expected = exp;
        v.classes.push("non-chord-typing");
    } else {
        // the path of the chosen entry
        if c.prefix {
            sim.press(code_of("x"));
            sim.tick_n(5);
            sim.release(code_of("x"));
            // zippychord re-enables after idle-reactivate-time
            sim.tick_n(520);
            typed_desc.push("tap:x".into());
        }
        if c.shift {
            sim.press(lsft);
            sim.tick_n(5);
            typed_desc.push(if c.right_shift { "d:rsft".into() } else { "d:lsft".into() });
        }
        if c.altgr {
            sim.press(code_of("ralt"));
            sim.tick_n(5);
            typed_desc.push("d:ralt".into());
        }
        {
            let mut classes: Vec<&'static str> = vec![];
            let (sh_held, ag_held) = (c.shift, c.altgr);
            let (mut sh_ok, mut ag_ok) = (true, true);
            press_path(
                &mut sim,
                c,
                entry,
                &mut typed_desc,
                false,
                |sim: &Sim| {
                    // shift / altgr held by the user are down again after the activation
                    if sh_held || ag_held {
                        let (_, sh, ag) = text_of(&sim.outs);
                        if sh_held && !sh {
                            sh_ok = false;
                        }
                        if ag_held && !ag {
                            ag_ok = false;
                        }
                    }
                },
                &mut classes,
            );
            shift_restored_ok = sh_ok;
            altgr_restored_ok = ag_ok;
            v.classes.extend(classes);
        }
        if c.altgr {
            sim.release(code_of("ralt"));
            typed_desc.push("u:ralt".into());
            sim.tick_n(5);
        }
        if c.shift {
            sim.release(lsft);
            typed_desc.push(if c.right_shift { "u:rsft".into() } else { "u:lsft".into() });
            sim.tick_n(5);
        }
        let mut exp = if c.shift { capitalize_first(&entry.out) } else { entry.out.clone() };
        if c.prefix {
            exp = format!("x{exp}");
            v.classes.push("text-before-the-chord");
        }
        let smart = c.smart_space % 3 != 0 && !entry.out.is_empty() && !entry.out.ends_with(' ');
        if smart {
            exp.push(' ');
        }
        // further typing
        for (i, t) in c.tail.iter().enumerate() {
            let name = TAIL_KEYS[*t as usize % TAIL_KEYS.len()];
            let ch = name.chars().next().unwrap();
            // smart-space full: punctuation right after the activation removes the added space
            if i == 0 && smart && c.smart_space % 3 == 2 && matches!(ch, ';' | ',') {
                exp.pop();
            }
            sim.tick_n(if i == 0 { 15 } else { 8 });
            sim.press(code_of(name));
            sim.tick_n(3);
            sim.release(code_of(name));
            exp.push(ch);
            typed_desc.push(format!("tap:{name}"));
        }
        expected = exp;
        v.classes.push(if entry.chords.len() > 1 { "follow-up-chord" } else { "single-chord" });
        if c.shift && c.right_shift {
            v.classes.push("right-shift-held");
        }
        if c.shift {
            v.classes.push("shift-held");
        }
        if c.altgr {
            v.classes.push("altgr-held");
        }
        if entry.out.chars().any(|ch| MAPPED.iter().any(|m| m.0 == ch && m.4)) {
            v.classes.push("altgr-character-in-output");
        }
        if entry.out.chars().any(|ch| MAPPED.iter().any(|m| m.0 == ch && m.3)) {
            v.classes.push("shifted-symbol-in-output");
        }
        if smart {
            v.classes.push("smart-space-added");
        }
        let first = entry.chords[0];
        if c.entries.iter().enumerate().any(|(i, e)| i != wi && e.chords.len() == 1 && e.chords[0] & first == e.chords[0] && e.chords[0] != first) {
            v.classes.push("extends-a-shorter-chord");
        }
        if c.entries.iter().enumerate().any(|(i, e)| i != wi && e.chords[0] & first != 0) {
            v.classes.push("overlapping-dictionary");
        }
        if entry.out.chars().any(|ch| ch.is_ascii_uppercase()) {
            v.classes.push("uppercase-output");
        }
    }
    sim.tick_n(700);
    let (got, _, _) = text_of(&sim.outs);
    let describe = || format!("{text}--- zippy.txt\n{file}typed: {}\noutput: {}", typed_desc.join(" "), fmt_outs(&sim.outs));
    // F49: a chord of the path that has no output of its own (it only leads to follow-ups) and
    // extends a chord of the same level that has one: the shorter expansion is typed on the way
    // and never erased.
    // F50: at a follow-up level, a chord that extends another chord of that level: the shorter
    // one activates eagerly and replaces the follow-up table by its own, so the longer one is
    // no longer looked up.
    let (followup_superseder, empty_superseder) = if c.scenario == 5 { (ep_f50, ep_f49) } else if c.scenario % 2 == 0 { superseder_flags(c, entry) } else { (false, false) };
    if got != expected {
        return Verdict::failed(
            if c.scenario % 2 == 1 && c.scenario != 5 { "zippy:non-chord-typing-altered" } else if followup_superseder { "zippy:wrong-text-left:followup-chord-extends-another-followup-chord" } else if empty_superseder { "zippy:wrong-text-left:outputless-chord-extends-a-chord-with-output" } else if got.chars().count() != expected.chars().count() { "zippy:wrong-number-of-characters-left" } else { "zippy:wrong-text-left" },
            format!("{}\ntext on screen: {got:?}\nexpected      : {expected:?}", describe()),
        );
    }
    if !shift_restored_ok {
        return Verdict::failed("zippy:shift-not-restored", describe());
    }
    if !altgr_restored_ok {
        return Verdict::failed("zippy:altgr-not-restored", describe());
    }
    let mut os = crate::sim::OsState::default();
    for o in &sim.outs {
        os.apply(o);
    }
    if os.anything_down() {
        return Verdict::failed("zippy:key-left-down", format!("{}\nstill down: {:?}", describe(), os.keys.iter().map(|k| out_name(*k)).collect::<Vec<_>>()));
    }
    v.nontrivial = (c.scenario % 2 == 0 || c.scenario == 5) && (c.entries.len() >= 2 || c.shift || c.altgr);
    v
}

impl TypedProp for C20 {
    type C = ZCase;
    fn id(&self) -> &'static str {
        "C20"
    }
    fn info(&self) -> PropInfo {
        PropInfo {
            level: "exploration",
            rule: "dictionaries: 1-5 entries over chord keys a-f and `.`: a first chord of 2-3 keys, 0-2 follow-up chords of 1-2 keys, outputs of 1-6 characters (lower / upper case letters, space, and ! ? ® ß, which output-character-mappings tells zippychord to type as S-1 S-/ AG-r AG-s); a third of the entries extend the previous entry's first chord by one key, half of those also extend its output; smart-space none / add-space-only / full; deadline 300 ms and idle-reactivate 400 ms (both not the defaults). History: mostly a character typed first and zippychord left to re-enable (erasing too much shows); optionally the left or the right shift held, optionally AltGr held as well (one case in five); every chord of the chosen entry's path pressed in a generated order with gaps of 1-8 ms (or, for the first chord, spread over 200 ms and held for another 200 ms: late but within the deadline, which every activation restarts), released, 10 ms pause; shift released; then 0-3 taps of keys that are in no chord (x y z ; ,). A separate scenario types single chord keys one after the other (never two at once), another presses a chord's keys more than the deadline apart. One case in five releases every chord slowly (all keys but one, 350 ms - longer than the deadline -, then the last one). An episodes scenario (one case in five) strings together 2-4 episodes, kanata fully released and idle for 600 ms between them: the whole path of an entry; the whole path with the last chord held 350 ms beyond the deadline (entries without follow-ups); a lone tap of one of a-f x y z that is in no follow-up chord still waiting: each episode must leave exactly its own text (a chord that begins with `.` right after an activation that added a smart space removes that space, as documented for punctuation). Oracle: the OS output is replayed into a text buffer (characters with the shift and AltGr state - a key typed with a modifier it should not have is a different character -, space, backspace); the text left must be the entry's expansion (first character capitalised when shift is held), plus the smart space where configured (removed again by punctuation in full mode), plus the characters typed afterwards; sequential typing and too-slow chords must come out as typed; a held shift and a held AltGr must be down again after each activation; nothing is left down. Non-trivial: the dictionary has >= 2 entries or shift is held. Distinct: hash of the case.".into(),
            assumptions: vec!["a chord's own line precedes the lines that follow it up (the file format rejects the other order)".into(), "with shift held the first character of the expansion is capitalised (documented behaviour)".into()],
            extra: BTreeMap::new(),
        }
    }
    fn plan(&self, tier: Tier) -> Plan {
        Plan {
            n_cases: match tier {
                Tier::Quick => 400_000,
                Tier::Thorough => 12_000_000,
            },
            exhaustive: false,
            distinct_by_construction: false,
            required_classes: vec!["single-chord", "follow-up-chord", "extends-a-shorter-chord", "overlapping-dictionary", "shift-held", "right-shift-held", "altgr-held", "altgr-character-in-output", "shifted-symbol-in-output", "smart-space-added", "uppercase-output", "non-chord-typing", "slower-than-the-deadline", "late-but-within-the-deadline", "chord-released-slowly", "episodes", "episode:held-beyond-the-deadline", "episode:lone-key-while-follow-ups-wait"],
            hang_secs: 60,
        }
    }
    fn gen(&self, _tier: Tier, _seed: u64, _idx: u64) -> Gen<ZCase> {
        Gen::Strat(0)
    }
    fn strategy(&self, _tier: Tier, _key: u32) -> BoxedStrategy<ZCase> {
        // (chords of the path, output, derive the first chord from the previous entry's by
        // adding a key)
        let entry = (
            prop_oneof![6 => prop::collection::vec(1u8..128, 1..=1), 3 => prop::collection::vec(1u8..128, 2..=2), 1 => prop::collection::vec(1u8..128, 3..=3)],
            prop::collection::vec(0usize..OUT_CHARS.len(), 1..7),
            prop::bool::weighted(0.3),
        );
        (
            prop::collection::vec(entry, 1..6),
            0u8..3,
            any::<u16>(),
            prop::collection::vec(any::<u16>(), 3..=3),
            0u8..11,
            any::<bool>(),
            any::<bool>(),
            prop::bool::weighted(0.2),
            prop::bool::weighted(0.7),
            prop::collection::vec(0u8..5, 0..4),
            (prop_oneof![15 => Just(0u8), 3 => Just(1u8), 2 => Just(3u8), 5 => Just(5u8)], prop::bool::weighted(0.2), prop::collection::vec((0u8..3, any::<u16>()), 2..5)),
        )
            .prop_map(|(raw, smart_space, which, orders, gap, shift, right_shift, altgr, prefix, tail, (scenario, slow_release, episodes))| {
                let mut entries: Vec<ZEntry> = vec![];
                for (chords, outs, extend) in raw {
                    let mut chords = chords;
                    if extend {
                        // a chord that extends the previous entry's first chord (and shares a
                        // prefix of its output half of the time)
                        if let Some(prev) = entries.last() {
                            let base = prev.chords[0];
                            if base.count_ones() == 2 {
                                let extra = (0..7).rev().map(|i| 1u8 << i).find(|b| base & b == 0 && chords[0] & b != 0).unwrap_or_else(|| (0..7).rev().map(|i| 1u8 << i).find(|b| base & b == 0).unwrap());
                                chords[0] = base | extra;
                            }
                        }
                    }
                    let mut cs: Vec<u8> = vec![];
                    for (i, m) in chords.iter().enumerate() {
                        let mut m = *m;
                        // the first chord has 2-3 keys, follow-ups 1-2
                        let want_max = if i == 0 { 3 } else { 2 };
                        while m.count_ones() > want_max {
                            m &= m - 1;
                        }
                        if i == 0 && m.count_ones() < 2 {
                            m |= if m & 1 == 0 { 1 } else { 2 };
                        }
                        cs.push(m);
                    }
                    if entries.iter().any(|e| e.chords == cs) {
                        continue;
                    }
                    let mut out: String = outs.iter().map(|i| OUT_CHARS[*i]).collect::<String>().trim_start().to_string();
                    if extend && outs[0] % 2 == 0 {
                        if let Some(prev) = entries.last() {
                            out = format!("{}{}", prev.out.trim_end(), out);
                        }
                    }
                    if out.is_empty() {
                        continue;
                    }
                    entries.push(ZEntry { chords: cs, out });
                }
                if entries.is_empty() {
                    entries.push(ZEntry { chords: vec![0b11], out: "hi".into() });
                }
                // a chord's own line has to come before the lines that follow it up (the file
                // format rejects the other order as a duplicate)
                entries.sort_by_key(|e| e.chords.len());
                ZCase {
                    entries,
                    smart_space,
                    which,
                    orders,
                    gap,
                    shift,
                    right_shift,
                    altgr,
                    prefix,
                    tail,
                    scenario,
                    slow_release,
                    episodes: if scenario == 5 { episodes } else { vec![] },
                }
            })
            .boxed()
    }
    fn judge(&self, case: &ZCase) -> Verdict {
        judge_case(case)
    }
}
