//! C07 — Idle blocking is unobservable (deterministic paired execution through a loop emulation).
use super::gcase::*;
use crate::engine::*;
use crate::gen::cfg::{Profile, Tape};
use crate::gen::hist::*;
use crate::sim::{fmt_outs, Out, Sim};
use kanata_state_machine::oskbd::KeyValue;
use proptest::prelude::*;
use std::collections::BTreeMap;

pub struct C07;

pub struct LoopRun {
    pub outs: Vec<Out>,
    /// (virtual time at which the loop blocked, time of the event that woke it)
    pub blocks: Vec<(u64, Option<u64>)>,
    pub timed_structure_seen_before_block: bool,
}

/// Events at absolute virtual times (ms), at most one per ms.
pub fn timeline(events: &[Ev]) -> Vec<(u64, Ev)> {
    let mut t = 0u64;
    let mut out: Vec<(u64, Ev)> = vec![];
    for e in events {
        match e {
            Ev::Gap(g) => t += *g as u64,
            other => {
                // at most one event per millisecond
                if let Some((lt, _)) = out.last() {
                    if *lt >= t {
                        t = *lt + 1;
                    }
                }
                out.push((t, other.clone()));
            }
        }
    }
    out
}

/// The control flow of Kanata::start_processing_loop on a virtual millisecond clock.
/// Every iteration first asks the real can-block decision; with `blocking` the clock jumps to
/// the next input event without ticking, otherwise (or when it says no) one millisecond passes:
/// an event due now is handled, then one tick runs.
pub fn run_loop(sim: &mut Sim, tl: &[(u64, Ev)], blocking: bool, tail_ms: u64) -> LoopRun {
    let mut now = 0u64; // virtual time of the next iteration
    let mut next = 0usize;
    let mut blocks = vec![];
    let mut outs: Vec<Out> = vec![];
    let mut ms_elapsed: u16 = 0;
    let end = tl.last().map(|(t, _)| *t).unwrap_or(0) + tail_ms;
    let mut timed = false;
    let mut timed_before_block = false;
    let feed = |sim: &mut Sim, e: &Ev| match e {
        Ev::Press(k) => {
            sim.input(*k, KeyValue::Press);
        }
        Ev::Release(k) => {
            sim.input(*k, KeyValue::Release);
        }
        Ev::Repeat(k) => {
            sim.input(*k, KeyValue::Repeat);
        }
        Ev::Tap(k) => {
            sim.input(*k, KeyValue::Tap);
        }
        Ev::Gap(_) => {}
    };
    while now <= end {
        let can_block = sim.k.can_block_update_idle_waiting(ms_elapsed);
        {
            let l = sim.k.layout.b();
            if l.waiting.is_some()
                || !l.oneshot.keys.is_empty()
                || !l.active_sequences.is_empty()
                || l.tap_dance_eager.is_some()
                || !sim.k.sequence_state.is_inactive()
                || sim.k.caps_word.is_some()
                || l.chords_v2.as_ref().map(|c| !c.is_idle_chv2()).unwrap_or(false)
            {
                timed = true;
            }
        }
        if can_block && blocking {
            match tl.get(next) {
                None => {
                    blocks.push((now, None));
                    break;
                }
                Some((te, e)) => {
                    if timed {
                        timed_before_block = true;
                    }
                    blocks.push((now, Some(*te)));
                    now = (*te).max(now);
                    feed(sim, e);
                    next += 1;
                    // the real loop sets last_tick = now - 1 ms, so exactly one tick runs
                    sim.tick();
                    ms_elapsed = 1;
                }
            }
        } else {
            if can_block {
                blocks.push((now, tl.get(next).map(|(t, _)| *t)));
            }
            if let Some((te, e)) = tl.get(next) {
                if *te <= now {
                    feed(sim, e);
                    next += 1;
                }
            }
            sim.tick();
            ms_elapsed = 1;
        }
        // stamp outputs with virtual time
        for mut o in sim.outs.drain(..) {
            o.t = now;
            outs.push(o);
        }
        now += 1;
    }
    LoopRun {
        outs,
        blocks,
        timed_structure_seen_before_block: timed_before_block,
    }
}


// ---------------------------------------------------------------------------------------------
// The real processing thread against the deterministic stepper (time-insensitive configurations)

const RT_KEYS: [&str; 6] = ["a", "b", "c", "d", "e", "f"];
const RT_OUT: [&str; 8] = ["m", "n", "o", "p", "q", "r", "s", "t"];

fn real_thread_strategy() -> BoxedStrategy<GCase> {
    // actions without any timing: key, output chord, multi of keys, layer-while-held, layer-switch,
    // transparent, no-op, use-defsrc, unmod
    let act = |layer: usize| {
        prop_oneof![
            5 => (0usize..8).prop_map(|k| RT_OUT[k].to_string()),
            2 => (0usize..8, 0usize..3).prop_map(|(k, m)| format!("{}{}", ["S-", "C-", "A-"][m], RT_OUT[k])),
            1 => (0usize..8, 0usize..8).prop_map(|(a, b)| format!("(multi {} {})", RT_OUT[a], RT_OUT[b])),
            2 => Just(format!("(layer-while-held l{})", 1 - layer.min(1))),
            1 => Just(format!("(layer-switch l{})", 1 - layer.min(1))),
            2 => Just("_".to_string()),
            1 => Just("XX".to_string()),
            1 => Just("use-defsrc".to_string()),
            1 => (0usize..8).prop_map(|k| format!("(unmod {})", RT_OUT[k])),
        ]
    };
    (
        prop::collection::vec(act(0), 6..=6),
        prop::collection::vec(act(1), 6..=6),
        prop::collection::vec((any::<u16>(), 0usize..8), 4..30),
    )
        .prop_map(|(l0, l1, steps)| {
            let cfg = format!("(defcfg log-layer-changes no)\n(defsrc a b c d e f)\n(deflayer l0 {})\n(deflayer l1 {})\n", l0.join(" "), l1.join(" "));
            // gaps in ms: bursts (0), ordinary typing, and pauses long enough for the loop to block
            let gaps = [0u32, 0, 1, 2, 5, 12, 30, 70];
            let mut down = [false; 6];
            let mut events = vec![];
            for (ks, g) in steps {
                let k = pick(ks, 6);
                if gaps[g] > 0 {
                    events.push(Ev::Gap(gaps[g]));
                }
                let code = crate::sim::code_of(RT_KEYS[k]);
                events.push(if down[k] { Ev::Release(code) } else { Ev::Press(code) });
                down[k] = !down[k];
            }
            for k in 0..6 {
                if down[k] {
                    events.push(Ev::Gap(3));
                    events.push(Ev::Release(crate::sim::code_of(RT_KEYS[k])));
                }
            }
            GCase {
                cfg,
                files: vec![],
                events,
                loop_emu: false,
                settle_hint: 100,
                features: vec!["real-thread".to_string()],
            }
        })
        .boxed()
}

fn transitions_seq(outs: &[Out]) -> Vec<String> {
    let mut os = crate::sim::OsState::default();
    outs.iter()
        .filter(|o| match o.ev {
            crate::sim::OutEv::Down(_) | crate::sim::OutEv::Up(_) => os.apply(o),
            _ => true,
        })
        .map(|o| match &o.ev {
            crate::sim::OutEv::Down(k) => format!("↓{}", crate::sim::out_name(*k)),
            crate::sim::OutEv::Up(k) => format!("↑{}", crate::sim::out_name(*k)),
            other => format!("{other:?}"),
        })
        .collect()
}

static RT_CASE_NO: std::sync::atomic::AtomicU64 = std::sync::atomic::AtomicU64::new(0);

fn run_real_thread(case: &GCase, mult: u64) -> Result<Vec<String>, String> {
    let n = RT_CASE_NO.fetch_add(1, std::sync::atomic::Ordering::SeqCst);
    let dir = verif_dir().join("work").join("c07rt").join(format!("{}-{n}", std::process::id()));
    let _ = std::fs::remove_dir_all(&dir);
    std::fs::create_dir_all(&dir).map_err(|e| e.to_string())?;
    let path = dir.join("cfg.kbd");
    std::fs::write(&path, &case.cfg).map_err(|e| e.to_string())?;
    let mut l = crate::props::c15::Live::start(vec![path], mult)?;
    l.wait(5);
    let mut pending_gap = 0u64;
    let mut first = true;
    for e in &case.events {
        match e {
            Ev::Gap(g) => pending_gap += *g as u64,
            Ev::Press(k) | Ev::Release(k) => {
                if !first && pending_gap > 0 {
                    l.wait(pending_gap);
                }
                first = false;
                pending_gap = 0;
                l.send_code(*k, matches!(e, Ev::Press(_)), 0);
            }
            _ => {}
        }
    }
    let _ = l.settle();
    let seq = transitions_seq(&l.outs);
    let panicked = take_last_panic();
    drop(l);
    std::thread::sleep(std::time::Duration::from_millis(6));
    let _ = take_last_panic();
    let _ = std::fs::remove_dir_all(&dir);
    if let Some((loc, msg)) = panicked {
        return Err(format!("panic in the processing thread at {loc}: {msg}"));
    }
    Ok(seq)
}

fn judge_real_thread(case: &GCase) -> Verdict {
    // the deterministic stepper
    let mut sim = match Sim::new(&case.cfg) {
        Ok(s) => s,
        Err(_) => return Verdict::discard("gen_rejected"),
    };
    for e in &case.events {
        match e {
            Ev::Gap(g) => sim.tick_n(*g as u64),
            Ev::Press(k) => sim.press(*k),
            Ev::Release(k) => sim.release(*k),
            _ => {}
        }
    }
    sim.tick_n(200);
    let want = transitions_seq(&sim.outs);
    let mut v = Verdict::pass(want.len() >= 4);
    v.classes.push("real-thread");
    if case.events.iter().any(|e| matches!(e, Ev::Gap(g) if *g >= 30)) {
        v.classes.push("real-thread-with-blocking-pause");
    }
    for mult in [1u64, 3, 10] {
        match run_real_thread(case, mult) {
            Err(e) => return Verdict::failed("mismatch:real-thread-failed", e),
            Ok(got) => {
                if got == want {
                    if mult > 1 {
                        v.classes.push("passed-on-slower-rerun");
                    }
                    return v;
                }
                if mult == 10 {
                    return Verdict::failed(
                        "mismatch:real-thread-differs-from-stepper",
                        format!("{}history: {}\n  stepper    : {}\n  real thread: {}", case.cfg, hist_to_string(&case.events), want.join(" "), got.join(" ")),
                    );
                }
            }
        }
    }
    v
}


// ---------------------------------------------------------------------------------------------
// zippychord dictionaries (the generator of C20) with pauses around zippychord's timers

fn zippy_strategy() -> BoxedStrategy<GCase> {
    use crate::props::c20::{cfg_text, file_text, mask_keys, C20, CHORD_KEYS};
    (C20.strategy(Tier::Quick, 0), prop::collection::vec((any::<u16>(), 0usize..8, 0usize..8), 1..7))
        .prop_map(|(z, steps)| {
            // deadline 300 ms and idle-reactivate-time 400 ms in that configuration
            let pauses = [5u32, 20, 290, 310, 390, 410, 1100, 10_500];
            let mut events = vec![];
            for (sel, p1, p2) in steps {
                let e = &z.entries[pick(sel, z.entries.len())];
                // the chords of the entry's path, or a prefix of it
                let upto = 1 + (sel as usize % e.chords.len());
                for (j, m) in e.chords.iter().take(upto).enumerate() {
                    let keys = mask_keys(*m);
                    for k in &keys {
                        events.push(Ev::Press(crate::sim::code_of(CHORD_KEYS[*k])));
                        events.push(Ev::Gap(2));
                    }
                    events.push(Ev::Gap(5));
                    for k in keys.iter().rev() {
                        events.push(Ev::Release(crate::sim::code_of(CHORD_KEYS[*k])));
                        events.push(Ev::Gap(2));
                    }
                    events.push(Ev::Gap(if j + 1 < upto { 10 } else { pauses[p1] }));
                }
                // sometimes a key that is in no chord
                if sel % 2 == 0 {
                    events.push(Ev::Press(crate::sim::code_of("x")));
                    events.push(Ev::Gap(4));
                    events.push(Ev::Release(crate::sim::code_of("x")));
                    events.push(Ev::Gap(pauses[p2]));
                }
            }
            GCase {
                cfg: cfg_text(&z),
                files: vec![("zippy.txt".to_string(), file_text(&z))],
                events,
                loop_emu: true,
                settle_hint: 1200,
                features: vec!["zippy".to_string(), "zippy-dictionary".to_string()],
            }
        })
        .boxed()
}

impl TypedProp for C07 {
    type C = GCase;
    fn id(&self) -> &'static str {
        "C07"
    }
    fn info(&self) -> PropInfo {
        PropInfo {
            level: "exploration",
            rule: "configs: grammar-generated with every time-dependent feature (tap-hold, one-shot, tap-dance, chords v1/v2, macros, sequences, caps-word, hold-for-duration, on-idle, mouse repeat, switch key-timing, zippychord, dynamic macros); histories: physically consistent, at most one event per millisecond, gaps from {1,2,T-1,T,T+1 of every timeout,50,1200,11000}. Each case is run twice on fresh instances through an emulation of the processing loop on a virtual clock: once blocking whenever the real can-block decision says so (clock jumps to the next event, no ticks) and once ticking every millisecond. Oracle: the complete output, as (virtual time, event), must be identical. Non-trivial: the blocking run blocked at least once with an event following, after a timed structure (pending decision, one-shot, macro, sequence, caps-word, eager tap-dance, v2 chord) had been active. Distinct: hash of (config, history).",
            assumptions: vec![
                "two events in the same millisecond are excluded (a waking loop processes E-tick-E, a running one E-E-tick: inherent +-1 tick jitter of the real loop) One case in 25 is a zippychord case: a dictionary from the C20 generator (follow-up chords, extensions), paths or prefixes of paths pressed and released, optionally a key outside every chord, with pauses of 5 / 20 / 290 / 310 / 390 / 410 / 1100 / 10500 ms around the chord deadline, the idle reactivation and the contingency reset. One case in 300 is a real-thread case instead: a time-insensitive configuration (keys, output chords, multi, layer-while-held / layer-switch, transparent, use-defsrc, unmod on two layers) and a history with gaps of 0-70 ms (bursts, and pauses long enough for the loop to block) is run on the real Kanata::start_processing_loop thread in real time and must produce the same sequence of OS transitions as the deterministic stepper (a mismatch has to show again three and ten times slower).".into(),
                "the nanosecond remainder arithmetic of handle_time_ticks is not exercised (virtual clock)".into(),
            ],
            extra: BTreeMap::new(),
        }
    }
    fn plan(&self, tier: Tier) -> Plan {
        Plan {
            n_cases: match tier {
                Tier::Quick => 150_000,
                Tier::Thorough => 4_000_000,
            },
            exhaustive: false,
            distinct_by_construction: false,
            required_classes: vec!["blocked", "blocked-after-timed-structure", "on-idle", "hold-for-duration", "rapid-event-delay>0", "real-thread", "real-thread-with-blocking-pause", "zippy-dictionary"],
            hang_secs: 90,
        }
    }
    fn gen(&self, _tier: Tier, _seed: u64, idx: u64) -> Gen<GCase> {
        // one case in 300 runs on the real processing thread (real time: about half a second each)
        if idx % 300 == 299 {
            Gen::Strat(1)
        } else if idx % 25 == 24 {
            // zippychord has timers of its own (chord deadline, idle reactivation, contingency
            // reset): dictionaries with follow-up chords and pauses around those timers
            Gen::Strat(2)
        } else {
            Gen::Strat(0)
        }
    }
    fn max_shrink_steps_for(&self, case: &GCase) -> usize {
        if case.features.iter().any(|f| f == "real-thread") {
            40
        } else {
            self.max_shrink_steps()
        }
    }
    fn strategy(&self, _tier: Tier, key: u32) -> BoxedStrategy<GCase> {
        if key == 1 {
            return real_thread_strategy();
        }
        if key == 2 {
            return zippy_strategy();
        }
        prop::collection::vec(any::<u16>(), 0..600)
            .prop_map(|tape| {
                let (cfg_tape, ev_tape) = tape.split_at(tape.len() * 2 / 3);
                let b = build_cfg(cfg_tape, Profile::Plausible, true);
                let mut t = Tape::new(ev_tape);
                let gaps = {
                    let mut g = gap_set(&b, &[50, 50, 50, 1200, 1200]);
                    if t.chance(1, 12) {
                        g.push(11000);
                    }
                    g.retain(|x| *x > 0);
                    g
                };
                let events = consistent_events(&mut t, &b, &gaps, 30, true, true);
                gcase_from(b, events, true)
            })
            .boxed()
    }
    fn judge(&self, case: &GCase) -> Verdict {
        if case.features.iter().any(|f| f == "real-thread") {
            return judge_real_thread(case);
        }
        let files: std::collections::HashMap<String, String> = case.files.iter().cloned().collect();
        // physically consistent histories only (the shrinker may drop a release)
        {
            let mut down: std::collections::BTreeSet<u16> = Default::default();
            for e in &case.events {
                let ok = match e {
                    Ev::Press(k) => down.insert(*k),
                    Ev::Release(k) => down.remove(k),
                    Ev::Repeat(k) => down.contains(k),
                    _ => true,
                };
                if !ok {
                    return Verdict::discard("inconsistent-history");
                }
            }
        }
        let tl = timeline(&case.events);
        let tail = case.settle_hint.min(2_500) + 300;
        let mut sim_a = match Sim::new_with_files(&case.cfg, files.clone()) {
            Ok(s) => s,
            Err(_) => return Verdict::discard("gen_rejected"),
        };
        let ticking = run_loop(&mut sim_a, &tl, false, tail);
        drop(sim_a);
        let mut sim_b = match Sim::new_with_files(&case.cfg, files) {
            Ok(s) => s,
            Err(_) => return Verdict::discard("gen_rejected"),
        };
        let blocking = run_loop(&mut sim_b, &tl, true, tail);
        drop(sim_b);
        let blocked_with_event = blocking.blocks.iter().any(|(_, e)| e.is_some());
        let nontrivial = blocked_with_event && blocking.timed_structure_seen_before_block;
        let mut v = Verdict::pass(nontrivial);
        // Compare what the OS can observe: state transitions of keys / buttons (a release of a key
        // that is already up, which kanata is known to send, changes nothing) plus every other
        // output event, each with its virtual time.
        let observable = |outs: &[Out]| -> Vec<Out> {
            let mut os = crate::sim::OsState::default();
            outs.iter()
                .filter(|o| match o.ev {
                    crate::sim::OutEv::Down(_) | crate::sim::OutEv::Up(_) | crate::sim::OutEv::BtnDown(_) | crate::sim::OutEv::BtnUp(_) => {
                        o.direct || os.apply(o)
                    }
                    _ => true,
                })
                .cloned()
                .collect()
        };
        let ticking = LoopRun { outs: observable(&ticking.outs), ..ticking };
        let blocking = LoopRun { outs: observable(&blocking.outs), ..blocking };
        if ticking.outs != blocking.outs {
            let i = ticking.outs.iter().zip(blocking.outs.iter()).position(|(a, b)| a != b).unwrap_or(ticking.outs.len().min(blocking.outs.len()));
            let lo = i.saturating_sub(6);
            let first_block_before = blocking.blocks.iter().filter(|(t, _)| ticking.outs.get(i).map(|o| *t <= o.t).unwrap_or(true)).last().cloned();
            v = Verdict::failed(
                "mismatch:blocking-changes-output",
                format!(
                    "outputs differ at #{i}: the loop blocked at {:?} (virtual ms, woken by the event at ..)\n  ticking : {}\n  blocking: {}",
                    first_block_before,
                    fmt_outs(&ticking.outs[lo..(i + 8).min(ticking.outs.len())]),
                    fmt_outs(&blocking.outs[lo.min(blocking.outs.len())..(i + 8).min(blocking.outs.len())])
                ),
            );
        }
        if blocked_with_event {
            v.classes.push("blocked");
        }
        if nontrivial {
            v.classes.push("blocked-after-timed-structure");
        }
        for f in ["on-idle", "hold-for-duration", "dynamic-macro", "zippy", "chords-v2", "caps-word", "switch"] {
            if case.features.iter().any(|x| x == f) {
                v.classes.push(match f {
                    "on-idle" => "on-idle",
                    "hold-for-duration" => "hold-for-duration",
                    "dynamic-macro" => "dynamic-macro",
                    "zippy" => "zippy",
                    "chords-v2" => "chords-v2",
                    "caps-word" => "caps-word",
                    _ => "switch",
                });
            }
        }
        if case.features.iter().any(|f| f == "zippy-dictionary") {
            v.classes.push("zippy-dictionary");
        }
        if !case.cfg.contains("rapid-event-delay 0") {
            v.classes.push("rapid-event-delay>0");
        }
        v
    }
    fn shrink_more(&self, case: &GCase, fails: &mut dyn FnMut(&GCase) -> bool) -> GCase {
        shrink_gcase(case, fails)
    }
}
