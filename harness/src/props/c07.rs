//! C07 — Idle blocking is unobservable (deterministic paired execution through a loop emulation).
use super::gcase::*;
use crate::engine::*;
use crate::gen::cfg::{Profile, Tape};
use crate::gen::hist::*;
use crate::sim::{fmt_outs, Out, Sim};
use kanata_state_machine::oskbd::KeyValue;
use proptest::prelude::*;
use std::collections::BTreeMap;

pub struct C07;

pub struct LoopRun {
    pub outs: Vec<Out>,
    /// (virtual time at which the loop blocked, time of the event that woke it)
    pub blocks: Vec<(u64, Option<u64>)>,
    pub timed_structure_seen_before_block: bool,
}

/// Events at absolute virtual times (ms), at most one per ms.
pub fn timeline(events: &[Ev]) -> Vec<(u64, Ev)> {
    let mut t = 0u64;
    let mut out: Vec<(u64, Ev)> = vec![];
    for e in events {
        match e {
            Ev::Gap(g) => t += *g as u64,
            other => {
                // at most one event per millisecond
                if let Some((lt, _)) = out.last() {
                    if *lt >= t {
                        t = *lt + 1;
                    }
                }
                out.push((t, other.clone()));
            }
        }
    }
    out
}

/// The control flow of Kanata::start_processing_loop on a virtual millisecond clock.
/// Every iteration first asks the real can-block decision; with `blocking` the clock jumps to
/// the next input event without ticking, otherwise (or when it says no) one millisecond passes:
/// an event due now is handled, then one tick runs.
pub fn run_loop(sim: &mut Sim, tl: &[(u64, Ev)], blocking: bool, tail_ms: u64) -> LoopRun {
    let mut now = 0u64; // virtual time of the next iteration
    let mut next = 0usize;
    let mut blocks = vec![];
    let mut outs: Vec<Out> = vec![];
    let mut ms_elapsed: u16 = 0;
    let end = tl.last().map(|(t, _)| *t).unwrap_or(0) + tail_ms;
    let mut timed = false;
    let mut timed_before_block = false;
    let feed = |sim: &mut Sim, e: &Ev| match e {
        Ev::Press(k) => {
            sim.input(*k, KeyValue::Press);
        }
        Ev::Release(k) => {
            sim.input(*k, KeyValue::Release);
        }
        Ev::Repeat(k) => {
            sim.input(*k, KeyValue::Repeat);
        }
        Ev::Tap(k) => {
            sim.input(*k, KeyValue::Tap);
        }
        Ev::Gap(_) => {}
    };
    while now <= end {
        let can_block = sim.k.can_block_update_idle_waiting(ms_elapsed);
        {
            let l = sim.k.layout.b();
            if l.waiting.is_some()
                || !l.oneshot.keys.is_empty()
                || !l.active_sequences.is_empty()
                || l.tap_dance_eager.is_some()
                || !sim.k.sequence_state.is_inactive()
                || sim.k.caps_word.is_some()
                || l.chords_v2.as_ref().map(|c| !c.is_idle_chv2()).unwrap_or(false)
            {
                timed = true;
            }
        }
        if can_block && blocking {
            match tl.get(next) {
                None => {
                    blocks.push((now, None));
                    break;
                }
                Some((te, e)) => {
                    if timed {
                        timed_before_block = true;
                    }
                    blocks.push((now, Some(*te)));
                    now = (*te).max(now);
                    feed(sim, e);
                    next += 1;
                    // the real loop sets last_tick = now - 1 ms, so exactly one tick runs
                    sim.tick();
                    ms_elapsed = 1;
                }
            }
        } else {
            if can_block {
                blocks.push((now, tl.get(next).map(|(t, _)| *t)));
            }
            if let Some((te, e)) = tl.get(next) {
                if *te <= now {
                    feed(sim, e);
                    next += 1;
                }
            }
            sim.tick();
            ms_elapsed = 1;
        }
        // stamp outputs with virtual time
        for mut o in sim.outs.drain(..) {
            o.t = now;
            outs.push(o);
        }
        now += 1;
    }
    LoopRun {
        outs,
        blocks,
        timed_structure_seen_before_block: timed_before_block,
    }
}

impl TypedProp for C07 {
    type C = GCase;
    fn id(&self) -> &'static str {
        "C07"
    }
    fn info(&self) -> PropInfo {
        PropInfo {
            level: "exploration",
            rule: "configs: grammar-generated with every time-dependent feature (tap-hold, one-shot, tap-dance, chords v1/v2, macros, sequences, caps-word, hold-for-duration, on-idle, mouse repeat, switch key-timing, zippychord, dynamic macros); histories: physically consistent, at most one event per millisecond, gaps from {1,2,T-1,T,T+1 of every timeout,50,1200,11000}. Each case is run twice on fresh instances through an emulation of the processing loop on a virtual clock: once blocking whenever the real can-block decision says so (clock jumps to the next event, no ticks) and once ticking every millisecond. Oracle: the complete output, as (virtual time, event), must be identical. Non-trivial: the blocking run blocked at least once with an event following, after a timed structure (pending decision, one-shot, macro, sequence, caps-word, eager tap-dance, v2 chord) had been active. Distinct: hash of (config, history).",
            assumptions: vec![
                "two events in the same millisecond are excluded (a waking loop processes E-tick-E, a running one E-E-tick: inherent +-1 tick jitter of the real loop)".into(),
                "the nanosecond remainder arithmetic of handle_time_ticks is not exercised (virtual clock)".into(),
            ],
            extra: BTreeMap::new(),
        }
    }
    fn plan(&self, tier: Tier) -> Plan {
        Plan {
            n_cases: match tier {
                Tier::Quick => 150_000,
                Tier::Thorough => 4_000_000,
            },
            exhaustive: false,
            distinct_by_construction: false,
            required_classes: vec!["blocked", "blocked-after-timed-structure", "on-idle", "hold-for-duration", "rapid-event-delay>0"],
            hang_secs: 90,
        }
    }
    fn gen(&self, _tier: Tier, _seed: u64, _idx: u64) -> Gen<GCase> {
        Gen::Strat(0)
    }
    fn strategy(&self, _tier: Tier, _key: u32) -> BoxedStrategy<GCase> {
        prop::collection::vec(any::<u16>(), 0..600)
            .prop_map(|tape| {
                let (cfg_tape, ev_tape) = tape.split_at(tape.len() * 2 / 3);
                let b = build_cfg(cfg_tape, Profile::Plausible, true);
                let mut t = Tape::new(ev_tape);
                let gaps = {
                    let mut g = gap_set(&b, &[50, 50, 50, 1200, 1200]);
                    if t.chance(1, 12) {
                        g.push(11000);
                    }
                    g.retain(|x| *x > 0);
                    g
                };
                let events = consistent_events(&mut t, &b, &gaps, 30, true, true);
                gcase_from(b, events, true)
            })
            .boxed()
    }
    fn judge(&self, case: &GCase) -> Verdict {
        let files: std::collections::HashMap<String, String> = case.files.iter().cloned().collect();
        // physically consistent histories only (the shrinker may drop a release)
        {
            let mut down: std::collections::BTreeSet<u16> = Default::default();
            for e in &case.events {
                let ok = match e {
                    Ev::Press(k) => down.insert(*k),
                    Ev::Release(k) => down.remove(k),
                    Ev::Repeat(k) => down.contains(k),
                    _ => true,
                };
                if !ok {
                    return Verdict::discard("inconsistent-history");
                }
            }
        }
        let tl = timeline(&case.events);
        let tail = case.settle_hint.min(2_500) + 300;
        let mut sim_a = match Sim::new_with_files(&case.cfg, files.clone()) {
            Ok(s) => s,
            Err(_) => return Verdict::discard("gen_rejected"),
        };
        let ticking = run_loop(&mut sim_a, &tl, false, tail);
        drop(sim_a);
        let mut sim_b = match Sim::new_with_files(&case.cfg, files) {
            Ok(s) => s,
            Err(_) => return Verdict::discard("gen_rejected"),
        };
        let blocking = run_loop(&mut sim_b, &tl, true, tail);
        drop(sim_b);
        let blocked_with_event = blocking.blocks.iter().any(|(_, e)| e.is_some());
        let nontrivial = blocked_with_event && blocking.timed_structure_seen_before_block;
        let mut v = Verdict::pass(nontrivial);
        // Compare what the OS can observe: state transitions of keys / buttons (a release of a key
        // that is already up, which kanata is known to send, changes nothing) plus every other
        // output event, each with its virtual time.
        let observable = |outs: &[Out]| -> Vec<Out> {
            let mut os = crate::sim::OsState::default();
            outs.iter()
                .filter(|o| match o.ev {
                    crate::sim::OutEv::Down(_) | crate::sim::OutEv::Up(_) | crate::sim::OutEv::BtnDown(_) | crate::sim::OutEv::BtnUp(_) => {
                        o.direct || os.apply(o)
                    }
                    _ => true,
                })
                .cloned()
                .collect()
        };
        let ticking = LoopRun { outs: observable(&ticking.outs), ..ticking };
        let blocking = LoopRun { outs: observable(&blocking.outs), ..blocking };
        if ticking.outs != blocking.outs {
            let i = ticking.outs.iter().zip(blocking.outs.iter()).position(|(a, b)| a != b).unwrap_or(ticking.outs.len().min(blocking.outs.len()));
            let lo = i.saturating_sub(6);
            let first_block_before = blocking.blocks.iter().filter(|(t, _)| ticking.outs.get(i).map(|o| *t <= o.t).unwrap_or(true)).last().cloned();
            v = Verdict::failed(
                "mismatch:blocking-changes-output",
                format!(
                    "outputs differ at #{i}: the loop blocked at {:?} (virtual ms, woken by the event at ..)\n  ticking : {}\n  blocking: {}",
                    first_block_before,
                    fmt_outs(&ticking.outs[lo..(i + 8).min(ticking.outs.len())]),
                    fmt_outs(&blocking.outs[lo.min(blocking.outs.len())..(i + 8).min(blocking.outs.len())])
                ),
            );
        }
        if blocked_with_event {
            v.classes.push("blocked");
        }
        if nontrivial {
            v.classes.push("blocked-after-timed-structure");
        }
        for f in ["on-idle", "hold-for-duration", "dynamic-macro", "zippy", "chords-v2", "caps-word", "switch"] {
            if case.features.iter().any(|x| x == f) {
                v.classes.push(match f {
                    "on-idle" => "on-idle",
                    "hold-for-duration" => "hold-for-duration",
                    "dynamic-macro" => "dynamic-macro",
                    "zippy" => "zippy",
                    "chords-v2" => "chords-v2",
                    "caps-word" => "caps-word",
                    _ => "switch",
                });
            }
        }
        if !case.cfg.contains("rapid-event-delay 0") {
            v.classes.push("rapid-event-delay>0");
        }
        v
    }
    fn shrink_more(&self, case: &GCase, fails: &mut dyn FnMut(&GCase) -> bool) -> GCase {
        shrink_gcase(case, fails)
    }
}
