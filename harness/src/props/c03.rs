//! C03 — Configuration parsing is total: every text yields a config or a diagnostic.
use crate::corpus::corpus;
use crate::engine::*;
use crate::sexpr::{parse, print_top, Node};
use proptest::prelude::*;
use serde_json::{json, Value};
use std::collections::BTreeMap;

pub struct C03;

#[derive(Clone, Debug, PartialEq, Eq, Hash)]
pub struct TextCase {
    pub cfg: String,
    pub files: Vec<(String, String)>,
    /// Load through `new_from_file` on a scratch directory instead of `new_from_str`.
    pub via_file: bool,
    /// file names that exist but are unreadable (mode 000) / are directories (via_file only)
    pub unreadable: Vec<String>,
    pub origin: String,
}

impl Case for TextCase {
    fn to_json(&self) -> Value {
        json!({"cfg": self.cfg, "files": self.files.iter().map(|(n, c)| json!([n, c])).collect::<Vec<_>>(),
            "via_file": self.via_file, "unreadable": self.unreadable, "origin": self.origin})
    }
    fn from_json(v: &Value) -> Option<Self> {
        Some(TextCase {
            cfg: v["cfg"].as_str()?.to_string(),
            files: v["files"]
                .as_array()
                .map(|a| {
                    a.iter()
                        .filter_map(|p| Some((p[0].as_str()?.to_string(), p[1].as_str()?.to_string())))
                        .collect()
                })
                .unwrap_or_default(),
            via_file: v["via_file"].as_bool().unwrap_or(false),
            unreadable: v["unreadable"]
                .as_array()
                .map(|a| a.iter().filter_map(|x| x.as_str().map(String::from)).collect())
                .unwrap_or_default(),
            origin: v["origin"].as_str().unwrap_or("").to_string(),
        })
    }
    fn canon_hash(&self) -> u64 {
        use std::hash::{Hash, Hasher};
        let mut h = rustc_hash::FxHasher::default();
        self.cfg.hash(&mut h);
        self.files.hash(&mut h);
        self.via_file.hash(&mut h);
        h.finish()
    }
}

#[derive(Clone, Debug)]
enum Op {
    Delete(u16),
    Dup(u16),
    Swap(u16, u16),
    Splice(u16, u16, u16),
    AtomToEmpty(u16),
    ListToAtom(u16, u16),
    Num(u16, u8),
    Rename(u16, u8),
    TruncList(u16),
    ZeroArgAction(u16, u16),
    WrapDeep(u16, u8),
    SelfVar(u16),
    SelfTemplate(u16, u8),
    ReplaceAtom(u16, u16),
    /// add a defcfg option (name from the parser's own source) with a boundary value
    DefcfgOption(u16, u8),
    /// repeat one child of a list until the list has a boundary number of children
    FillList(u16, u16, u8),
    // byte-level
    ByteInsert(u16, u8),
    Truncate(u16),
    Bom,
    Crlf,
}

fn op_strategy() -> BoxedStrategy<Op> {
    prop_oneof![
        3 => any::<u16>().prop_map(Op::Delete),
        2 => any::<u16>().prop_map(Op::Dup),
        2 => (any::<u16>(), any::<u16>()).prop_map(|(a, b)| Op::Swap(a, b)),
        3 => (any::<u16>(), any::<u16>(), any::<u16>()).prop_map(|(a, b, c)| Op::Splice(a, b, c)),
        3 => any::<u16>().prop_map(Op::AtomToEmpty),
        2 => (any::<u16>(), any::<u16>()).prop_map(|(a, b)| Op::ListToAtom(a, b)),
        3 => (any::<u16>(), 0u8..8).prop_map(|(a, b)| Op::Num(a, b)),
        2 => (any::<u16>(), 0u8..6).prop_map(|(a, b)| Op::Rename(a, b)),
        3 => any::<u16>().prop_map(Op::TruncList),
        4 => (any::<u16>(), any::<u16>()).prop_map(|(a, b)| Op::ZeroArgAction(a, b)),
        1 => (any::<u16>(), 1u8..70).prop_map(|(a, b)| Op::WrapDeep(a, b)),
        1 => any::<u16>().prop_map(Op::SelfVar),
        1 => (any::<u16>(), 0u8..9).prop_map(|(a, b)| Op::SelfTemplate(a, b)),
        3 => (any::<u16>(), any::<u16>()).prop_map(|(a, b)| Op::ReplaceAtom(a, b)),
        3 => (any::<u16>(), 0u8..20).prop_map(|(a, b)| Op::DefcfgOption(a, b)),
        1 => (any::<u16>(), any::<u16>(), 0u8..32).prop_map(|(a, b, c)| Op::FillList(a, b, c)),
        2 => (any::<u16>(), 0u8..10).prop_map(|(a, b)| Op::ByteInsert(a, b)),
        1 => any::<u16>().prop_map(Op::Truncate),
        1 => Just(Op::Bom),
        1 => Just(Op::Crlf),
    ]
    .boxed()
}

const NUMS: [&str; 8] = ["0", "1", "65535", "65536", "-1", "99999999999", "767", "768"];
const OPTION_VALUES: [&str; 20] = ["0", "1", "2", "3", "4", "5", "6", "10", "255", "256", "30000", "30001", "65535", "65536", "-1", "yes", "no", "()", "x", "99999999999"];
const FILL_COUNTS: [usize; 32] = [
    3, 7, 8, 9, 15, 16, 17, 31, 32, 33, 63, 64, 65, 127, 128, 129, 255, 256, 257, 1023, 1024, 1025, 4090, 4091, 4092, 4093, 4094, 4095, 4096, 4097, 4098, 4099,
];
const NAMES: [&str; 6] = ["nosuchname", "@unknown", "$unknownvar", "$self", "@", "$"];
const BYTES: [&str; 10] = ["é", "🔣", "\"", "r#\"", "#|", "\0", "(", ")", "|#", "\u{feff}"];

fn total_nodes(forms: &[Node]) -> usize {
    forms.iter().map(|f| f.count()).sum()
}
fn locate(forms: &mut [Node], mut idx: usize) -> Option<&mut Node> {
    for f in forms.iter_mut() {
        let c = f.count();
        if idx < c {
            return f.get_mut(idx);
        }
        idx -= c;
    }
    None
}
fn locate_ref(forms: &[Node], mut idx: usize) -> Option<&Node> {
    for f in forms.iter() {
        let c = f.count();
        if idx < c {
            return f.get(idx);
        }
        idx -= c;
    }
    None
}
/// Remove the node with pre-order index `idx` (over the forest).
fn remove_at(forms: &mut Vec<Node>, idx: usize) -> Option<Node> {
    fn go(list: &mut Vec<Node>, idx: usize, ctr: &mut usize) -> Option<Node> {
        let mut i = 0;
        while i < list.len() {
            if *ctr == idx {
                return Some(list.remove(i));
            }
            *ctr += 1;
            if let Node::List(l) = &mut list[i] {
                if let Some(n) = go(l, idx, ctr) {
                    return Some(n);
                }
            }
            i += 1;
        }
        None
    }
    let mut c = 0;
    go(forms, idx, &mut c)
}

fn apply_ops(entry_idx: usize, ops: &[Op]) -> String {
    let cp = corpus();
    let e = &cp.entries[entry_idx];
    let mut text = e.text.clone();
    let mut forms = e.forms.clone();
    for op in ops {
        let structural = !matches!(op, Op::ByteInsert(..) | Op::Truncate(_) | Op::Bom | Op::Crlf);
        if structural {
            let Some(fs) = forms.as_mut() else { continue };
            let n = total_nodes(fs);
            if n == 0 {
                continue;
            }
            match op {
                Op::Delete(s) => {
                    remove_at(fs, pick(*s, n));
                }
                Op::Dup(s) => {
                    if let Some(node) = locate_ref(fs, pick(*s, n)).cloned() {
                        // insert a copy right after: emulate by wrapping sibling insertion at top level
                        // or replacing the node by itself twice inside its parent list
                        let idx = pick(*s, n);
                        if let Some(slot) = locate(fs, idx) {
                            if let Node::List(l) = slot {
                                l.push(node);
                            } else {
                                fs.push(node);
                            }
                        }
                    }
                }
                Op::Swap(a, b) => {
                    let (ia, ib) = (pick(*a, n), pick(*b, n));
                    let na = locate_ref(fs, ia).cloned();
                    let nb = locate_ref(fs, ib).cloned();
                    if let (Some(na), Some(nb)) = (na, nb) {
                        // only swap disjoint subtrees
                        let (lo, hi, nlo) = if ia < ib { (ia, ib, na.count()) } else { (ib, ia, nb.count()) };
                        if lo + nlo <= hi {
                            if let Some(s) = locate(fs, ia) {
                                *s = nb;
                            }
                            // index of b is unchanged only if sizes equal; recompute conservatively
                            let ib2 = if ia < ib { (ib + locate_ref(fs, ia).map(|x| x.count()).unwrap_or(1)).saturating_sub(nlo) } else { ib };
                            if let Some(s) = locate(fs, ib2) {
                                *s = na;
                            }
                        }
                    }
                }
                Op::Splice(dst, donor, dn) => {
                    let d = &cp.entries[pick(*donor, cp.entries.len())];
                    if let Some(df) = &d.forms {
                        let dnn = total_nodes(df);
                        if dnn > 0 {
                            if let Some(node) = locate_ref(df, pick(*dn, dnn)).cloned() {
                                if node.count() < 400 {
                                    if let Some(s) = locate(fs, pick(*dst, n)) {
                                        *s = node;
                                    }
                                }
                            }
                        }
                    }
                }
                Op::AtomToEmpty(s) => {
                    if let Some(slot) = locate(fs, pick(*s, n)) {
                        *slot = Node::List(vec![]);
                    }
                }
                Op::ListToAtom(s, a) => {
                    if let Some(slot) = locate(fs, pick(*s, n)) {
                        *slot = Node::Atom(cp.atoms[pick(*a, cp.atoms.len())].clone());
                    }
                }
                Op::Num(s, w) => {
                    // prefer numeric atoms: scan forward from the picked index
                    let start = pick(*s, n);
                    let mut done = false;
                    for off in 0..n.min(200) {
                        let i = (start + off) % n;
                        if let Some(Node::Atom(a)) = locate_ref(fs, i) {
                            if a.chars().all(|c| c.is_ascii_digit()) && !a.is_empty() {
                                if let Some(slot) = locate(fs, i) {
                                    *slot = Node::atom(NUMS[*w as usize % NUMS.len()]);
                                }
                                done = true;
                                break;
                            }
                        }
                    }
                    if !done {
                        if let Some(slot) = locate(fs, start) {
                            *slot = Node::atom(NUMS[*w as usize % NUMS.len()]);
                        }
                    }
                }
                Op::DefcfgOption(s, w) => {
                    if cp.defcfg_options.is_empty() {
                        continue;
                    }
                    let name = Node::atom(&cp.defcfg_options[pick(*s, cp.defcfg_options.len())]);
                    let val = match OPTION_VALUES[*w as usize % OPTION_VALUES.len()] {
                        "()" => Node::List(vec![]),
                        v => Node::atom(v),
                    };
                    let existing = fs.iter_mut().find_map(|f| match f {
                        Node::List(l) if l.first().and_then(|x| x.as_atom()) == Some("defcfg") => Some(l),
                        _ => None,
                    });
                    match existing {
                        Some(l) => {
                            // replace the value when the option is there already (an option may be given once)
                            match l.iter().position(|x| *x == name) {
                                Some(i) if i + 1 < l.len() => l[i + 1] = val,
                                _ => {
                                    l.push(name);
                                    l.push(val);
                                }
                            }
                        }
                        None => fs.insert(0, Node::List(vec![Node::atom("defcfg"), name, val])),
                    }
                }
                Op::FillList(s, c, w) => {
                    let start = pick(*s, n);
                    for off in 0..n.min(200) {
                        let i = (start + off) % n;
                        if let Some(Node::List(l)) = locate(fs, i) {
                            if l.len() >= 2 {
                                let child = l[1 + pick(*c, l.len() - 1)].clone();
                                let want = FILL_COUNTS[*w as usize % FILL_COUNTS.len()];
                                // (the list head counts as a child; keep the text below the size bound)
                                if child.count() * want < 12_000 {
                                    while l.len() < want {
                                        l.push(child.clone());
                                    }
                                }
                                break;
                            }
                        }
                    }
                }
                Op::Rename(s, w) => {
                    if let Some(slot) = locate(fs, pick(*s, n)) {
                        *slot = Node::atom(NAMES[*w as usize % NAMES.len()]);
                    }
                }
                Op::TruncList(s) => {
                    let start = pick(*s, n);
                    for off in 0..n.min(200) {
                        let i = (start + off) % n;
                        if let Some(Node::List(l)) = locate_ref(fs, i) {
                            if l.len() > 1 {
                                if let Some(Node::List(l)) = locate(fs, i) {
                                    l.truncate(1);
                                }
                                break;
                            }
                        }
                    }
                }
                Op::ZeroArgAction(s, a) => {
                    let name = cp.list_actions[pick(*a, cp.list_actions.len())].clone();
                    if let Some(slot) = locate(fs, pick(*s, n)) {
                        *slot = Node::List(vec![Node::Atom(name)]);
                    }
                }
                Op::WrapDeep(s, d) => {
                    if let Some(slot) = locate(fs, pick(*s, n)) {
                        let mut node = slot.clone();
                        for i in 0..*d {
                            node = if i % 2 == 0 { Node::List(vec![Node::atom("multi"), node]) } else { Node::List(vec![node]) };
                        }
                        *slot = node;
                    }
                }
                Op::SelfVar(s) => {
                    fs.insert(0, Node::List(vec![Node::atom("defvar"), Node::atom("self"), Node::atom("$self"), Node::atom("v2"), Node::List(vec![Node::atom("concat"), Node::atom("$v2")])]));
                    let n2 = total_nodes(fs);
                    if let Some(slot) = locate(fs, pick(*s, n2)) {
                        if matches!(slot, Node::Atom(_)) {
                            *slot = Node::atom("$self");
                        }
                    }
                }
                Op::SelfTemplate(s, w) => {
                    // make a template (an existing one, else a new one) expand itself
                    let call = |name: &str| match w % 4 {
                        0 => Node::List(vec![Node::atom("template-expand"), Node::atom(name)]),
                        1 => Node::List(vec![Node::atom("t!"), Node::atom(name)]),
                        2 => Node::List(vec![Node::atom("template-expand"), Node::atom(name), Node::atom("a")]),
                        _ => Node::List(vec![Node::atom("if-equal"), Node::atom("a"), Node::atom("a"), Node::List(vec![Node::atom("template-expand"), Node::atom(name)])]),
                    };
                    if *w >= 6 {
                        // a cycle of two or three templates that expand to each other, directly or
                        // through the expander's name passed as an argument
                        let kw = if *s % 2 == 0 { "template-expand" } else { "t!" };
                        let names: Vec<&str> = if *w == 8 { vec!["ping", "pong", "pang"] } else { vec!["ping", "pong"] };
                        for (i, n) in names.iter().enumerate() {
                            let next = names[(i + 1) % names.len()];
                            let body = if *w == 6 {
                                Node::List(vec![Node::atom(kw), Node::atom(next), Node::atom("$x")])
                            } else {
                                Node::List(vec![Node::atom("$x"), Node::atom(next), Node::atom("$x")])
                            };
                            fs.push(Node::List(vec![Node::atom("deftemplate"), Node::atom(n), Node::List(vec![Node::atom("x")]), body]));
                        }
                        fs.push(Node::List(vec![Node::atom(kw), Node::atom("ping"), Node::atom(kw)]));
                        text = print_top(fs);
                        continue;
                    }
                    if *w >= 4 {
                        // a template that, given the expander's own name as argument,
                        // expands to a call of itself
                        let kw = if *w == 4 { "template-expand" } else { "t!" };
                        fs.push(Node::List(vec![
                            Node::atom("deftemplate"),
                            Node::atom("again"),
                            Node::List(vec![Node::atom("a")]),
                            Node::List(vec![Node::atom("$a"), Node::atom("again"), Node::atom("$a")]),
                        ]));
                        fs.push(Node::List(vec![Node::atom(kw), Node::atom("again"), Node::atom(kw)]));
                        text = print_top(fs);
                        continue;
                    }
                    let templ: Vec<usize> = fs.iter().enumerate().filter(|(_, f)| f.head() == Some("deftemplate")).map(|(i, _)| i).collect();
                    if templ.is_empty() {
                        fs.push(Node::List(vec![Node::atom("deftemplate"), Node::atom("selfie"), Node::List(vec![]), call("selfie")]));
                        fs.push(call("selfie"));
                    } else {
                        let ti = templ[pick(*s, templ.len())];
                        let name = fs[ti].as_list().and_then(|l| l.get(1)).and_then(|n| n.as_atom()).unwrap_or("x").to_string();
                        if let Node::List(l) = &mut fs[ti] {
                            l.push(call(&name));
                        }
                        fs.push(call(&name));
                    }
                }
                Op::ReplaceAtom(s, a) => {
                    let start = pick(*s, n);
                    for off in 0..n.min(50) {
                        let i = (start + off) % n;
                        if let Some(Node::Atom(_)) = locate_ref(fs, i) {
                            if let Some(slot) = locate(fs, i) {
                                *slot = Node::Atom(cp.atoms[pick(*a, cp.atoms.len())].clone());
                            }
                            break;
                        }
                    }
                }
                _ => {}
            }
            text = print_top(fs);
        } else {
            match op {
                Op::ByteInsert(pos, w) => {
                    // insert at a token border (after whitespace or parenthesis) on a char boundary
                    let mut p = pick(*pos, text.len() + 1);
                    while p < text.len() && !text.is_char_boundary(p) {
                        p += 1;
                    }
                    text.insert_str(p.min(text.len()), BYTES[*w as usize % BYTES.len()]);
                }
                Op::Truncate(pos) => {
                    let mut p = pick(*pos, text.len() + 1);
                    while p < text.len() && !text.is_char_boundary(p) {
                        p += 1;
                    }
                    text.truncate(p.min(text.len()));
                }
                Op::Bom => text.insert(0, '\u{feff}'),
                Op::Crlf => text = text.replace('\n', "\r\n"),
                _ => {}
            }
            forms = parse(&text);
        }
    }
    text
}

/// What the include-like constructs of this text refer to.
fn referenced_files(text: &str) -> Vec<String> {
    let mut out = vec![];
    if let Some(forms) = parse(text) {
        fn walk(n: &Node, out: &mut Vec<String>) {
            if let Node::List(l) = n {
                if let (Some(Node::Atom(h)), Some(Node::Atom(f))) = (l.first(), l.get(1)) {
                    if h == "include" || h == "defzippy" || h == "defzippy-experimental" {
                        out.push(f.trim_matches('"').to_string());
                    }
                }
                l.iter().for_each(|c| walk(c, out));
            }
        }
        forms.iter().for_each(|f| walk(f, &mut out));
    }
    out.sort();
    out.dedup();
    out
}

fn check_report(report: &miette::Report, case: &TextCase, main_name: &str) -> Result<(), Fail> {
    // rendering must not crash
    let fancy = format!("{report:?}");
    let plain = format!("{report}");
    if fancy.is_empty() && plain.is_empty() {
        return Err(Fail {
            sig: "diagnostic:empty".into(),
            detail: "empty diagnostic".into(),
        });
    }
    if let Some(labels) = report.labels() {
        for l in labels {
            let Some(sc) = report.source_code() else {
                return Err(Fail {
                    sig: "diagnostic:label-without-source".into(),
                    detail: format!("label {:?} but the report names no source", l),
                });
            };
            let contents = match sc.read_span(l.inner(), 0, 0) {
                Ok(c) => c,
                Err(e) => {
                    return Err(Fail {
                        sig: "diagnostic:span-outside-source".into(),
                        detail: format!("label {:?} cannot be read from the named source: {e}", l.inner()),
                    })
                }
            };
            let name = contents.name().unwrap_or("").to_string();
            let text: Option<&str> = if name == main_name || name == "configuration" {
                Some(&case.cfg)
            } else {
                case.files
                    .iter()
                    .find(|(n, _)| *n == name || name.ends_with(&format!("/{n}")))
                    .map(|(_, c)| c.as_str())
            };
            let Some(text) = text else {
                return Err(Fail {
                    sig: "diagnostic:names-unknown-file".into(),
                    detail: format!("diagnostic names source {name:?} which is not one of the files given"),
                });
            };
            let (o, n) = (l.offset(), l.len());
            // a leading BOM is stripped by the loader before lexing: allow the 3-byte shift
            // The statement asks for a location inside the file; char alignment is not
            // demanded (rendering, which is what could choke on it, is exercised above).
            let ok = |t: &str| o + n <= t.len();
            let stripped = text.strip_prefix('\u{feff}').unwrap_or(text);
            if !(ok(text) || ok(stripped)) {
                return Err(Fail {
                    sig: "diagnostic:span-not-inside-file".into(),
                    detail: format!("label offset {o} len {n} is not inside {name:?} (len {})", text.len()),
                });
            }
        }
    }
    Ok(())
}

fn scratch_dir() -> std::path::PathBuf {
    verif_dir().join(format!("work/c03-{}", std::process::id()))
}

/// The in-target oracle for byte-level fuzzing: parse the text with the real parser and judge the
/// result exactly like the property check does. `Err((signature, detail))` on a violation.
pub fn judge_text(cfg: &str) -> Result<(), (String, String)> {
    let v = run_case(TextCase {
        cfg: cfg.to_string(),
        files: vec![("inc.kbd".into(), "(defalias inc a)\n".into()), ("chords.txt".into(), "ab\tx\n".into()), ("zippy.txt".into(), "ab\thi\n".into())],
        via_file: false,
        unreadable: vec![],
        origin: "fuzz".into(),
    });
    match v.fail {
        Some(f) => Err((f.sig, f.detail)),
        None => Ok(()),
    }
}

fn run_case(case: TextCase) -> Verdict {
    use kanata_parser::cfg;
    let my_parse = parse(&case.cfg);
    let reached = my_parse.as_ref().map(|f| f.iter().any(|n| n.head() == Some("defsrc"))).unwrap_or(false);
    let mut v = Verdict::pass(reached);
    let res: Result<(), miette::Report>;
    let main_name;
    if case.via_file {
        let dir = scratch_dir();
        let _ = std::fs::remove_dir_all(&dir);
        std::fs::create_dir_all(&dir).expect("scratch dir");
        let main = dir.join("main.kbd");
        std::fs::write(&main, &case.cfg).expect("write cfg");
        for (n, c) in &case.files {
            if n.contains('/') || n.contains("..") || n.is_empty() {
                continue;
            }
            let p = dir.join(n);
            if case.unreadable.contains(n) {
                if n.ends_with('d') {
                    let _ = std::fs::create_dir_all(&p);
                } else {
                    let _ = std::fs::write(&p, c);
                    use std::os::unix::fs::PermissionsExt;
                    let _ = std::fs::set_permissions(&p, std::fs::Permissions::from_mode(0o000));
                }
            } else {
                let _ = std::fs::write(&p, c);
            }
        }
        main_name = main.to_string_lossy().to_string();
        res = cfg::new_from_file(&main).map(|_| ());
        // restore permissions so the directory can be removed
        for n in &case.unreadable {
            use std::os::unix::fs::PermissionsExt;
            let _ = std::fs::set_permissions(dir.join(n), std::fs::Permissions::from_mode(0o644));
        }
        let _ = std::fs::remove_dir_all(&dir);
        v.classes.push("via-file");
    } else {
        // files given by absolute path under the scratch area are read from disk by the parser
        let work = verif_dir().join("work");
        for (n, c) in &case.files {
            if std::path::Path::new(n).starts_with(&work) {
                let _ = std::fs::write(n, c);
            }
        }
        let files: std::collections::HashMap<String, String> = case.files.iter().cloned().collect();
        let fc: rustc_hash::FxHashMap<String, String> = files.into_iter().collect();
        main_name = "configuration".to_string();
        res = cfg::new_from_str(&case.cfg, fc).map(|_| ());
    }
    if !case.via_file {
        let work = verif_dir().join("work");
        for (n, _) in &case.files {
            if std::path::Path::new(n).starts_with(&work) {
                let _ = std::fs::remove_file(n);
            }
        }
    }
    match res {
        Ok(()) => v.classes.push("accepted"),
        Err(report) => {
            v.classes.push("rejected");
            if let Err(f) = check_report(&report, &case, &main_name) {
                v.fail = Some(f);
                v.nontrivial = true;
            }
        }
    }
    if reached {
        v.classes.push("reached-top-level");
    }
    if my_parse.is_none() {
        v.classes.push("lex-or-paren-error");
    }
    if !case.files.is_empty() {
        v.classes.push("with-files");
    }
    v
}

impl TypedProp for C03 {
    type C = TextCase;
    fn id(&self) -> &'static str {
        "C03"
    }
    fn info(&self) -> PropInfo {
        let cp = corpus();
        let mut extra = BTreeMap::new();
        extra.insert("corpus_entries".into(), json!(cp.entries.len()));
        extra.insert("list_action_names".into(), json!(cp.list_actions.len()));
        PropInfo {
            level: "exploration",
            rule: "inputs: 1-5 structure-aware or byte-level mutations (delete/duplicate/swap/splice sub-expressions, atom->(), list->atom, numbers->boundary values, names->unknown/self-referential, list action truncated to zero arguments for every name in list_actions.rs, deep wrapping, multi-byte/quote/comment-opener/NUL insertion, truncation, BOM, CRLF) of every sample config, doc snippet and test-embedded config of the tree under test, with includable files present, missing, empty, malformed, unreadable or included twice; loaded through new_from_str and (file faults) new_from_file. Oracle: returns Ok or a diagnostic whose labels lie char-aligned inside a file that was given; fancy and plain rendering return; no panic/abort/hang. Non-trivial: the text passes the harness's own s-expression reader and has a defsrc form (so the real parser gets past lexing into top-level/action parsing). Distinct: hash of (text, files).",
            assumptions: vec![
                "text <= 64 KiB, parenthesis depth <= 70".into(),
                "parse runs on an 8 MiB-stack thread (the size of the main thread that parses at start-up)".into(),
                "allocation failure under the 6 GiB address-space limit counts as resource exhaustion, not as a violation".into(),
            ],
            extra,
        }
    }
    fn plan(&self, tier: Tier) -> Plan {
        Plan {
            n_cases: match tier {
                Tier::Quick => 600_000,
                Tier::Thorough => 20_000_000,
            },
            exhaustive: false,
            distinct_by_construction: false,
            required_classes: vec!["accepted", "rejected", "reached-top-level", "lex-or-paren-error", "via-file", "with-files"],
            hang_secs: 20,
        }
    }
    fn gen(&self, _tier: Tier, _seed: u64, _idx: u64) -> Gen<TextCase> {
        Gen::Strat(0)
    }
    fn strategy(&self, _tier: Tier, _key: u32) -> BoxedStrategy<TextCase> {
        (any::<u16>(), prop::collection::vec(op_strategy(), 0..5), 0u8..20, any::<u16>(), 0u8..8)
            .prop_map(|(e, ops, filemode, fsel, fault)| {
                let cp = corpus();
                let ei = pick(e, cp.entries.len());
                let cfg = apply_ops(ei, &ops);
                let mut cfg = if cfg.len() > 65_536 {
                    let mut p = 65_536;
                    while !cfg.is_char_boundary(p) {
                        p -= 1;
                    }
                    cfg[..p].to_string()
                } else {
                    cfg
                };
                // files: whatever the text refers to, from the side files of the tree, then faults
                let refs = referenced_files(&cfg);
                let mut files: Vec<(String, String)> = vec![];
                let mut unreadable = vec![];
                let via_file = filemode < 2;
                for r in &refs {
                    let base = r.rsplit('/').next().unwrap_or(r).to_string();
                    let content = cp.side_files.iter().find(|(n, _)| *n == base).map(|(_, c)| c.clone());
                    let donor = &cp.entries[pick(fsel, cp.entries.len())].text;
                    match fault {
                        0 => {}                                                   // missing
                        1 => files.push((r.clone(), String::new())),              // empty
                        2 => files.push((r.clone(), "(defalias x".into())),       // malformed
                        3 => files.push((r.clone(), donor.clone())),              // some other config
                        4 if via_file => {
                            files.push((r.clone(), content.clone().unwrap_or_default()));
                            unreadable.push(r.clone());
                        }
                        5 => files.push((r.clone(), format!("{}\n)", content.clone().unwrap_or_default()))),
                        _ => files.push((r.clone(), content.unwrap_or_else(|| donor.clone()))),
                    }
                }
                if filemode == 2 || filemode == 3 {
                    // add an include of a given file, possibly twice
                    let inc = "inc.kbd".to_string();
                    cfg.push_str("\n(include inc.kbd)\n");
                    if filemode == 3 {
                        cfg.push_str("(include inc.kbd)\n");
                    }
                    let donor = &cp.entries[pick(fsel, cp.entries.len())].text;
                    match fault {
                        0 => {}
                        1 => files.push((inc, String::new())),
                        2 => files.push((inc, "(defalias é (".into())),
                        3 => files.push((inc, "(include inc.kbd)".into())),
                        _ => files.push((inc, donor.clone())),
                    }
                }
                if filemode == 4 {
                    // defchordsv2 reading its chords from a second file: missing, malformed, odd forms
                    let path = verif_dir().join("work").join(format!("c03-chords-{}-{}.tsv", std::process::id(), fault));
                    let inc = match fault {
                        0 => "(include /nonexistent/chords.tsv)".to_string(),
                        1 => "(include)".to_string(),
                        2 => "(include (a b))".to_string(),
                        3 => {
                            let _ = std::fs::write(&path, "ab no tab on this line\n");
                            format!("(include {})", path.display())
                        }
                        4 => {
                            let _ = std::fs::write(&path, "ab\tabba\nabc\t(\n");
                            format!("(include {})", path.display())
                        }
                        5 => {
                            let _ = std::fs::write(&path, "ab\tabba\nab\tabba\n\u{e9}\t\u{e9}\n");
                            format!("(include {})", path.display())
                        }
                        _ => {
                            let _ = std::fs::write(&path, "ab\tabba\nbc\tcab\n");
                            format!("(include {})", path.display())
                        }
                    };
                    if !cfg.contains("concurrent-tap-hold") {
                        cfg = format!("(defcfg concurrent-tap-hold yes)\n{cfg}");
                    }
                    cfg.push_str(&format!("\n(defchordsv2 {inc} () 100 all-released ())\n"));
                    if let Ok(c) = std::fs::read_to_string(&path) {
                        if fault >= 3 {
                            files.push((path.display().to_string(), c));
                        }
                    }
                }
                TextCase {
                    cfg,
                    files,
                    via_file,
                    unreadable,
                    origin: cp.entries[ei].origin.clone(),
                }
            })
            .boxed()
    }
    fn judge(&self, case: &TextCase) -> Verdict {
        let c = case.clone();
        on_big_stack(move || run_case(c))
    }
    fn hang_is_violation(&self) -> bool {
        true
    }
    fn shrink_more(&self, case: &TextCase, fails: &mut dyn FnMut(&TextCase) -> bool) -> TextCase {
        let mut best = case.clone();
        // 1. drop files
        let mut i = 0;
        while i < best.files.len() {
            let mut c = best.clone();
            c.files.remove(i);
            if fails(&c) {
                best = c;
            } else {
                i += 1;
            }
        }
        // 2. structural: delete nodes greedily (largest first = top-level forms first)
        if let Some(mut forms) = parse(&best.cfg) {
            let mut progress = true;
            while progress {
                progress = false;
                let n = total_nodes(&forms);
                let mut idx = 0;
                while idx < n.min(3000) {
                    let mut f2 = forms.clone();
                    if remove_at(&mut f2, idx).is_none() {
                        break;
                    }
                    let mut c = best.clone();
                    c.cfg = print_top(&f2);
                    if fails(&c) {
                        forms = f2;
                        best = c;
                        progress = true;
                        break;
                    }
                    // skip over this node's subtree is not possible cheaply; step by one
                    idx += 1;
                }
            }
        } else {
            // 3. byte-level: cut halves/quarters from the end and the start
            let mut chunk = best.cfg.len() / 2;
            while chunk >= 1 {
                let mut changed = false;
                let len = best.cfg.len();
                if len > chunk {
                    let mut p = len - chunk;
                    while !best.cfg.is_char_boundary(p) {
                        p -= 1;
                    }
                    let mut c = best.clone();
                    c.cfg.truncate(p);
                    if fails(&c) {
                        best = c;
                        changed = true;
                    } else {
                        let mut q = chunk;
                        while q < best.cfg.len() && !best.cfg.is_char_boundary(q) {
                            q += 1;
                        }
                        let mut c = best.clone();
                        c.cfg = best.cfg[q.min(best.cfg.len())..].to_string();
                        if fails(&c) {
                            best = c;
                            changed = true;
                        }
                    }
                }
                if !changed {
                    chunk /= 2;
                }
            }
        }
        best
    }
}
