//! C18 — Virtual keys obey press / release / tap / toggle and their timed forms.
//!
//! A reference model (a pressed flag and a hold deadline per virtual key) is driven by the same
//! operation history as kanata, through the processing-loop emulation (idle time only exists
//! there). Operations come from five sources: on-press, on-release, a macro item, a completed
//! sequence (tap only) and direct `handle_fakekey_action` calls (what the TCP server does).
use crate::engine::*;
use crate::sim::{code_of, fmt_outs, out_name, Out, OutEv, Sim};
use kanata_state_machine::oskbd::KeyValue;
use proptest::prelude::*;
use serde_json::{json, Value};
use std::collections::{BTreeMap, BTreeSet};

pub struct C18;

#[derive(Clone, Copy, Debug, PartialEq, Eq, Hash, PartialOrd, Ord)]
pub enum Kind {
    Press,
    Release,
    Tap,
    Toggle,
}
const KINDS: [Kind; 4] = [Kind::Press, Kind::Release, Kind::Tap, Kind::Toggle];
fn kind_cfg(k: Kind) -> &'static str {
    match k {
        Kind::Press => "press-vkey",
        Kind::Release => "release-vkey",
        Kind::Tap => "tap-vkey",
        Kind::Toggle => "toggle-vkey",
    }
}

#[derive(Clone, Copy, Debug, PartialEq, Eq, Hash, PartialOrd, Ord)]
pub enum What {
    /// plain operation from a source: 0 on-press, 1 on-release, 2 macro item, 3 direct call, 4 completed sequence (tap)
    Op(Kind, u8),
    /// (hold-for-duration D vk)
    Hold,
    /// (hold-for-duration D2 vk) with the longer duration D2 = 3 D + 7
    HoldLong,
    /// (on-idle T kind vk)
    OnIdle(Kind),
}

#[derive(Clone, Debug, PartialEq, Eq, Hash)]
pub struct VOp {
    /// ms since the previous operation's trigger
    pub gap: u16,
    pub vk: u8,
    pub what: What,
}

#[derive(Clone, Debug, PartialEq, Eq, Hash)]
pub struct VCase {
    /// per virtual key: 0 key, 1 layer-while-held, 2 macro
    pub actions: Vec<u8>,
    pub d: u16,
    pub t_idle: u16,
    pub ops: Vec<VOp>,
}

/// kind of virtual key v: 0 key, 1 layer-while-held, 2 one-key macro, 3 an on-idle action that taps the
/// virtual key before it (only for v >= 1 and when that one is not of kind 3 itself; else a key)
fn akind(actions: &[u8], v: usize) -> u8 {
    match actions[v] % 4 {
        3 if v >= 1 && actions[v - 1] % 4 != 3 => 3,
        3 => 0,
        k => k,
    }
}
const VK_KEY: [&str; 3] = ["kp1", "kp2", "kp3"];
const VK_MACRO_KEY: [&str; 3] = ["kp4", "kp5", "kp6"];
const SEQ_KEY: [&str; 3] = ["f1", "f2", "f3"];
const PHYS_POOL: [&str; 60] = [
    "a", "b", "c", "d", "e", "f", "g", "h", "i", "j", "k", "l", "m", "n", "o", "p", "q", "r", "s", "t", "u", "v", "w", "x", "y", "z", "1", "2", "3", "4", "5", "6", "7",
    "8", "9", "0", "spc", "ret", "tab", "esc", "bspc", "caps", "comm", ".", "/", ";", "min", "eql", "home", "end", "pgup", "pgdn", "left", "rght", "up", "down", "f7", "f8",
    "f9", "f10",
];

/// physical key (name) for each operation that needs one, and the config text
struct Layout18 {
    text: String,
    key_of: BTreeMap<(u8, What), &'static str>,
}

fn what_action_text(vk: u8, w: What, d: u16, t: u16) -> String {
    // the second virtual key is operated through the older spellings of the same actions
    if vk == 1 {
        let kind_cfg = |k: Kind| match k {
            Kind::Press => "press",
            Kind::Release => "release",
            Kind::Tap => "tap",
            Kind::Toggle => "toggle",
        };
        let rel = if d % 2 == 1 { "on↑fakekey" } else { "on-release-fakekey" };
        let prs = if d % 2 == 1 { "on↓fakekey" } else { "on-press-fakekey" };
        match w {
            What::Op(k, 0) => return format!("({prs} vk{vk} {})", kind_cfg(k)),
            What::Op(k, 1) => return format!("({rel} vk{vk} {})", kind_cfg(k)),
            What::Op(k, 2) => return format!("(macro ({prs} vk{vk} {}))", kind_cfg(k)),
            What::OnIdle(k) if k != Kind::Toggle => return format!("(on-idle-fakekey vk{vk} {} {t})", kind_cfg(k)),
            _ => {}
        }
    }
    match w {
        What::Op(k, 0) => format!("(on-press {} vk{vk})", kind_cfg(k)),
        What::Op(k, 1) => format!("(on-release {} vk{vk})", kind_cfg(k)),
        What::Op(k, 2) => format!("(macro (on-press {} vk{vk}))", kind_cfg(k)),
        What::Op(..) => "XX".into(),
        What::Hold => format!("(hold-for-duration {d} vk{vk})"),
        What::HoldLong => format!("(hold-for-duration {} vk{vk})", long_d(d)),
        What::OnIdle(k) => format!("(on-idle {t} {} vk{vk})", kind_cfg(k)),
    }
}

fn long_d(d: u16) -> u16 {
    3 * d + 7
}

fn build(c: &VCase) -> Layout18 {
    let mut key_of: BTreeMap<(u8, What), &'static str> = BTreeMap::new();
    let mut next = 0usize;
    for op in &c.ops {
        let needs_key = !matches!(op.what, What::Op(_, 3) | What::Op(_, 4));
        if needs_key && !key_of.contains_key(&(op.vk, op.what)) {
            key_of.insert((op.vk, op.what), PHYS_POOL[next % PHYS_POOL.len()]);
            next += 1;
        }
    }
    let mut src = String::from("(defsrc");
    let mut l0 = String::from("(deflayer l0");
    let mut l1 = String::from("(deflayer l1");
    for ((vk, w), k) in &key_of {
        src.push_str(&format!(" {k}"));
        l0.push_str(&format!(" {}", what_action_text(*vk, *w, c.d, c.t_idle)));
        l1.push_str(" _");
    }
    // sequence leader and sequence keys
    src.push_str(" f12 f1 f2 f3)");
    l0.push_str(" sldr f1 f2 f3)");
    l1.push_str(" _ _ _ _)");
    let mut vks = String::from("(defvirtualkeys");
    for (i, a) in c.actions.iter().enumerate() {
        let _ = a;
        vks.push_str(&match akind(&c.actions, i) {
            0 => format!(" vk{i} {}", VK_KEY[i]),
            1 => format!(" vk{i} (layer-while-held l1)"),
            2 => format!(" vk{i} (macro {})", VK_MACRO_KEY[i]),
            _ => format!(" vk{i} (on-idle {} tap-vkey vk{})", c.t_idle, i - 1),
        });
    }
    vks.push(')');
    let mut seqs = String::from("(defseq");
    for i in 0..c.actions.len() {
        seqs.push_str(&format!(" vk{i} ({})", SEQ_KEY[i]));
    }
    seqs.push(')');
    let text = format!("(defcfg log-layer-changes no rapid-event-delay 0 sequence-timeout 50)\n{src}\n{vks}\n{l0}\n{l1}\n{seqs}\n");
    Layout18 { text, key_of }
}

fn kind_json(k: Kind) -> &'static str {
    match k {
        Kind::Press => "press",
        Kind::Release => "release",
        Kind::Tap => "tap",
        Kind::Toggle => "toggle",
    }
}
fn kind_from(s: &str) -> Option<Kind> {
    Some(match s {
        "press" => Kind::Press,
        "release" => Kind::Release,
        "tap" => Kind::Tap,
        "toggle" => Kind::Toggle,
        _ => return None,
    })
}
const SRC_NAMES: [&str; 5] = ["on-press", "on-release", "macro", "direct", "sequence"];

impl Case for VCase {
    fn to_json(&self) -> Value {
        json!({"config": build(self).text, "actions": self.actions, "d": self.d, "t_idle": self.t_idle,
            "ops": self.ops.iter().map(|o| match o.what {
                What::Op(k, s) => json!({"gap": o.gap, "vk": o.vk, "op": kind_json(k), "src": SRC_NAMES[s as usize % 5]}),
                What::Hold => json!({"gap": o.gap, "vk": o.vk, "op": "hold-for-duration"}),
                What::HoldLong => json!({"gap": o.gap, "vk": o.vk, "op": "hold-for-duration-long"}),
                What::OnIdle(k) => json!({"gap": o.gap, "vk": o.vk, "op": "on-idle", "then": kind_json(k)}),
            }).collect::<Vec<_>>()})
    }
    fn from_json(v: &Value) -> Option<Self> {
        let mut ops = vec![];
        for o in v["ops"].as_array()? {
            let what = match o["op"].as_str()? {
                "hold-for-duration" => What::Hold,
                "hold-for-duration-long" => What::HoldLong,
                "on-idle" => What::OnIdle(kind_from(o["then"].as_str()?)?),
                k => What::Op(kind_from(k)?, SRC_NAMES.iter().position(|s| Some(*s) == o["src"].as_str())? as u8),
            };
            ops.push(VOp {
                gap: o["gap"].as_u64()? as u16,
                vk: o["vk"].as_u64()? as u8,
                what,
            });
        }
        Some(VCase {
            actions: v["actions"].as_array()?.iter().filter_map(|x| x.as_u64().map(|y| y as u8)).collect(),
            d: v["d"].as_u64()? as u16,
            t_idle: v["t_idle"].as_u64()? as u16,
            ops,
        })
    }
    fn canon_hash(&self) -> u64 {
        use std::hash::{Hash, Hasher};
        let mut h = rustc_hash::FxHasher::default();
        self.hash(&mut h);
        h.finish()
    }
}

#[derive(Clone, Debug)]
enum In {
    Key(u16, bool),
    Direct(u8, Kind),
}

/// Expand the operations into timed inputs; returns (time, input) sorted and the trigger time of
/// each operation.
fn timeline(c: &VCase, lay: &Layout18) -> (Vec<(u64, In)>, Vec<u64>) {
    let mut t = 10u64;
    let mut ins: Vec<(u64, In)> = vec![];
    let mut trig = vec![];
    for op in &c.ops {
        let src = match op.what {
            What::Op(_, s) => s % 5,
            _ => 0,
        };
        // room for the events an operation needs before its trigger
        let min_gap = match src {
            4 => 9,
            _ => 5,
        };
        t += (op.gap as u64).max(min_gap);
        trig.push(t);
        match op.what {
            What::Op(k, 3) => ins.push((t, In::Direct(op.vk, k))),
            What::Op(_, 4) => {
                let l = code_of("f12");
                let s = code_of(SEQ_KEY[op.vk as usize % 3]);
                ins.push((t - 4, In::Key(l, true)));
                ins.push((t - 3, In::Key(l, false)));
                ins.push((t, In::Key(s, true)));
                ins.push((t + 1, In::Key(s, false)));
            }
            What::Op(_, 1) => {
                let k = code_of(lay.key_of[&(op.vk, op.what)]);
                ins.push((t - 1, In::Key(k, true)));
                ins.push((t, In::Key(k, false)));
            }
            _ => {
                let k = code_of(lay.key_of[&(op.vk, op.what)]);
                ins.push((t, In::Key(k, true)));
                ins.push((t + 1, In::Key(k, false)));
            }
        }
    }
    ins.sort_by_key(|(t, _)| *t);
    (ins, trig)
}

struct Trace {
    outs: Vec<Out>,
    /// is_idle() sampled at the top of each loop iteration (index = ms)
    idle: Vec<bool>,
    /// layer 1 active, sampled after the tick of each ms
    layer1: Vec<bool>,
    end: u64,
}

fn run(c: &VCase, lay: &Layout18, ins: &[(u64, In)]) -> Result<Trace, String> {
    let mut sim = Sim::new(&lay.text)?;
    let end = ins.last().map(|(t, _)| *t).unwrap_or(0) + long_d(c.d) as u64 + 3 * c.t_idle as u64 + 120;
    let mut idle = vec![];
    let mut layer1 = vec![];
    let mut next = 0usize;
    for now in 0..=end {
        idle.push(sim.k.is_idle());
        let _ = sim.k.can_block_update_idle_waiting(1);
        while next < ins.len() && ins[next].0 == now {
            match &ins[next].1 {
                In::Key(k, true) => {
                    sim.input(*k, KeyValue::Press);
                }
                In::Key(k, false) => {
                    sim.input(*k, KeyValue::Release);
                }
                In::Direct(vk, kind) => {
                    use kanata_parser::custom_action::FakeKeyAction;
                    let idx = *sim.k.virtual_keys.get(&format!("vk{vk}")).ok_or("harness: unknown virtual key")? as u16;
                    let a = match kind {
                        Kind::Press => FakeKeyAction::Press,
                        Kind::Release => FakeKeyAction::Release,
                        Kind::Tap => FakeKeyAction::Tap,
                        Kind::Toggle => FakeKeyAction::Toggle,
                    };
                    kanata_state_machine::handle_fakekey_action(a, sim.k.layout.bm(), kanata_parser::cfg::FAKE_KEY_ROW, idx);
                }
            }
            next += 1;
        }
        sim.tick();
        layer1.push(sim.k.layout.b().current_layer() == 1);
    }
    Ok(Trace {
        outs: sim.outs.clone(),
        idle,
        layer1,
        end,
    })
}

/// What the reference model expects at the OS (tick, down?, key code) and the layer-1 flag
/// after every tick.
struct Expect {
    keys: Vec<(u64, bool, u16)>,
    layer1: Vec<bool>,
    /// two on-idle entries fired in the same tick on one virtual key (their order is unspecified)
    ambiguous: bool,
    classes: Vec<&'static str>,
    /// a tick at which kanata reported itself idle while a hold-for-duration countdown had at
    /// least 2 ms to run (an on-idle action would count that time as idle)
    idle_while_hold_pending: Option<u64>,
}

#[derive(Clone, Copy, Debug)]
enum Q {
    Phys(u16, bool),
    Vk(u8, bool),
}

/// The reference model. `rearm_wins_tie`: a hold-for-duration activation in the tick right after
/// the previous hold expired (release queued but not yet performed) counts as a re-arm.
fn model(c: &VCase, lay: &Layout18, ins: &[(u64, In)], idle: &[bool], end: u64, rearm_wins_tie: bool, rearm_presses_again: bool) -> Expect {
    use std::collections::VecDeque;
    let n = c.actions.len();
    let by_key: BTreeMap<u16, (u8, What)> = lay.key_of.iter().map(|((vk, w), k)| (code_of(k), (*vk, *w))).collect();
    let leader = code_of("f12");
    let seq_keys: Vec<u16> = SEQ_KEY.iter().map(|k| code_of(k)).collect();
    let mut queue: VecDeque<Q> = VecDeque::new();
    let mut pressed = vec![false; n];
    let mut pending: Vec<Option<u32>> = vec![None; n];
    let mut just_expired: Vec<Option<u64>> = vec![None; n];
    let mut waiting: BTreeSet<(u8, Kind)> = BTreeSet::new();
    let mut cnt: u32 = 0;
    let mut macro_due: Vec<(u64, u8, Kind)> = vec![];
    let mut macro_out: Vec<(u64, bool, u16)> = vec![];
    let mut seq_active = false;
    let mut ex = Expect { keys: vec![], layer1: vec![], ambiguous: false, classes: vec![], idle_while_hold_pending: None };
    let mut next = 0usize;
    // push the events of one fake-key operation; the toggle looks at the state at call time
    fn apply(kind: Kind, vk: u8, pressed: &[bool], is_macro: bool, queue: &mut std::collections::VecDeque<Q>) {
        match kind {
            Kind::Press => queue.push_back(Q::Vk(vk, true)),
            Kind::Release => queue.push_back(Q::Vk(vk, false)),
            Kind::Tap => {
                queue.push_back(Q::Vk(vk, true));
                queue.push_back(Q::Vk(vk, false));
            }
            Kind::Toggle => {
                let has = !is_macro && pressed[vk as usize];
                queue.push_back(Q::Vk(vk, !has));
            }
        }
    }
    for i in 0..=end {
        let k = i + 1; // tick number
        if idle.get(i as usize).copied().unwrap_or(false) && pending.iter().any(|p| matches!(p, Some(d) if *d >= 2)) && ex.idle_while_hold_pending.is_none() {
            ex.idle_while_hold_pending = Some(k);
        }
        // top of the loop iteration: idle counting for on-idle
        if !idle.get(i as usize).copied().unwrap_or(true) {
            cnt = 0;
        } else if !waiting.is_empty() {
            cnt = cnt.saturating_add(1);
        }
        // inputs of this millisecond
        while next < ins.len() && ins[next].0 == i {
            match &ins[next].1 {
                In::Key(code, p) => {
                    // every input event restarts the idle count
                    cnt = 0;
                    queue.push_back(Q::Phys(*code, *p));
                }
                In::Direct(vk, kind) => apply(*kind, *vk, &pressed, akind(&c.actions, *vk as usize) == 2, &mut queue),
            }
            next += 1;
        }
        // 1. the layout handles one queued event
        let mut customs: Vec<(u8, What)> = vec![];
        if let Some(q) = queue.pop_front() {
            match q {
                Q::Phys(code, true) => {
                    if code == leader {
                        seq_active = true;
                    } else if let Some(vi) = seq_keys.iter().position(|s| *s == code) {
                        if seq_active && vi < n {
                            customs.push((vi as u8, What::Op(Kind::Tap, 4)));
                            seq_active = false;
                        }
                    } else if let Some((vk, w)) = by_key.get(&code) {
                        match w {
                            What::Op(_, 1) => {}
                            What::Op(kind, 2) => macro_due.push((k + 1, *vk, *kind)),
                            _ => customs.push((*vk, *w)),
                        }
                    }
                }
                Q::Phys(code, false) => {
                    if let Some((vk, w)) = by_key.get(&code) {
                        if matches!(w, What::Op(_, 1)) {
                            customs.push((*vk, *w));
                        }
                    }
                }
                Q::Vk(vk, true) => {
                    let v = vk as usize;
                    match akind(&c.actions, v) {
                        0 => {
                            if !pressed[v] {
                                ex.keys.push((k, true, code_of(VK_KEY[v])));
                            }
                            pressed[v] = true;
                        }
                        1 => pressed[v] = true,
                        3 => {
                            // its action arms an on-idle that taps the virtual key before it
                            pressed[v] = true;
                            customs.push((vk - 1, What::OnIdle(Kind::Tap)));
                            ex.classes.push("on-idle-armed-by-a-virtual-key");
                        }
                        _ => {
                            // the macro runs: its key goes down in the next tick, up in the one after
                            if macro_out.iter().any(|(t, _, key)| *key == code_of(VK_MACRO_KEY[v]) && *t + 3 > k + 1) {
                                // two runs of the same macro overlap on its key
                                ex.ambiguous = true;
                            }
                            macro_out.push((k + 1, true, code_of(VK_MACRO_KEY[v])));
                            macro_out.push((k + 2, false, code_of(VK_MACRO_KEY[v])));
                        }
                    }
                }
                Q::Vk(vk, false) => {
                    let v = vk as usize;
                    if akind(&c.actions, v) == 0 && pressed[v] {
                        ex.keys.push((k, false, code_of(VK_KEY[v])));
                    }
                    if akind(&c.actions, v) != 2 {
                        pressed[v] = false;
                    }
                }
            }
        }
        // 3. custom actions of this tick
        for (tk, vk, kind) in macro_due.clone() {
            if tk == k {
                customs.push((vk, What::Op(kind, 2)));
            }
        }
        macro_due.retain(|(tk, _, _)| *tk != k);
        for (vk, w) in customs {
            let v = vk as usize;
            let is_macro = akind(&c.actions, v) == 2;
            match w {
                What::Op(kind, _) => apply(kind, vk, &pressed, is_macro, &mut queue),
                What::Hold | What::HoldLong => {
                    let dur = if w == What::HoldLong { long_d(c.d) } else { c.d } as u32;
                    let tie = just_expired[v] == Some(k - 1);
                    if tie {
                        ex.classes.push("hold-retriggered-at-expiry");
                    }
                    if pending[v].is_some() {
                        ex.classes.push("hold-rearmed");
                        pending[v] = Some(dur);
                        // "keeps the key pressed until the time has passed since its most recent
                        // activation": if something released it meanwhile it is pressed again
                        let press_queued = queue.iter().any(|q| matches!(q, Q::Vk(x, true) if *x == vk));
                        if !is_macro && !pressed[v] && !press_queued {
                            ex.classes.push("hold-rearmed-after-explicit-release");
                            if rearm_presses_again {
                                queue.push_back(Q::Vk(vk, true));
                            }
                        }
                    } else if tie && rearm_wins_tie {
                        // the expiry's release is still queued: take it back
                        if let Some(pos) = queue.iter().position(|q| matches!(q, Q::Vk(x, false) if *x == vk)) {
                            queue.remove(pos);
                        }
                        pending[v] = Some(dur);
                    } else {
                        queue.push_back(Q::Vk(vk, true));
                        pending[v] = Some(dur);
                    }
                }
                What::OnIdle(kind) => {
                    cnt = 0;
                    waiting.insert((vk, kind));
                }
            }
        }
        // 4. on-idle
        if !waiting.is_empty() && cnt >= c.t_idle as u32 {
            // the waiting set is unordered: with two or more entries the order in which their
            // events are queued is unspecified
            if waiting.len() >= 2 {
                ex.ambiguous = true;
            }
            for (vk, kind) in waiting.iter() {
                apply(*kind, *vk, &pressed, akind(&c.actions, *vk as usize) == 2, &mut queue);
            }
            waiting.clear();
            ex.classes.push("on-idle-fired");
        }
        // 5. hold-for-duration countdown (an unordered map: two expiries in one tick are queued
        // in an unspecified order)
        if (0..n).filter(|v| pending[*v] == Some(1)).count() >= 2 {
            ex.ambiguous = true;
        }
        for v in 0..n {
            if let Some(d) = pending[v] {
                let d = d.saturating_sub(1);
                if d == 0 {
                    queue.push_back(Q::Vk(v as u8, false));
                    pending[v] = None;
                    just_expired[v] = Some(k);
                    ex.classes.push("hold-expired");
                } else {
                    pending[v] = Some(d);
                }
            }
        }
        ex.layer1.push((0..n).any(|v| akind(&c.actions, v) == 1 && pressed[v]));
    }
    if !waiting.is_empty() {
        ex.classes.push("on-idle-still-waiting-at-end");
    }
    ex.keys.extend(macro_out);
    ex.keys.sort();
    ex
}

fn judge_case(c: &VCase) -> Verdict {
    if c.actions.is_empty() || c.actions.len() > 3 || c.ops.is_empty() {
        return Verdict::discard("empty");
    }
    if c.ops.iter().any(|o| (o.vk as usize) < c.actions.len() && akind(&c.actions, o.vk as usize) == 3 && matches!(o.what, What::Hold | What::HoldLong)) {
        return Verdict::discard("hold-for-duration-on-an-on-idle-virtual-key");
    }
    if c.ops.iter().any(|o| o.vk as usize >= c.actions.len()) {
        return Verdict::discard("vk-out-of-range");
    }
    // a sequence only taps
    if c.ops.iter().any(|o| matches!(o.what, What::Op(k, 4) if k != Kind::Tap)) {
        return Verdict::discard("sequence-source-only-taps");
    }
    let lay = build(c);
    let (ins, trig) = timeline(c, &lay);
    let tr = match run(c, &lay, &ins) {
        Ok(t) => t,
        Err(e) => return Verdict::failed("harness:vkey-config-rejected", format!("{}\n{e}", lay.text)),
    };
    let watched: BTreeSet<u16> = VK_KEY.iter().chain(VK_MACRO_KEY.iter()).map(|k| code_of(k)).collect();
    let observed: Vec<(u64, bool, u16)> = {
        // OS-visible transitions (a release of a key that is already up changes nothing)
        let mut os = crate::sim::OsState::default();
        let mut v: Vec<(u64, bool, u16)> = tr
            .outs
            .iter()
            .filter(|o| os.apply(o))
            .filter_map(|o| match o.ev {
                OutEv::Down(k) if watched.contains(&k) => Some((o.t, true, k)),
                OutEv::Up(k) if watched.contains(&k) => Some((o.t, false, k)),
                _ => None,
            })
            .collect();
        v.sort();
        v
    };
    let describe = || {
        format!(
            "{}D = {} ms, T = {} ms\nops: {}\noutput: {}",
            lay.text,
            c.d,
            c.t_idle,
            c.ops
                .iter()
                .zip(trig.iter())
                .map(|(o, t)| match o.what {
                    What::Op(k, s) => format!("@{t} {}:{} vk{}", SRC_NAMES[s as usize % 5], kind_json(k), o.vk),
                    What::Hold => format!("@{t} hold-for-duration vk{}", o.vk),
                    What::HoldLong => format!("@{t} hold-for-duration({}) vk{}", long_d(c.d), o.vk),
                    What::OnIdle(k) => format!("@{t} on-idle:{} vk{}", kind_json(k), o.vk),
                })
                .collect::<Vec<_>>()
                .join(" "),
            fmt_outs(&tr.outs)
        )
    };
    let fmt_tr = |v: &[(u64, bool, u16)]| v.iter().map(|(t, d, k)| format!("{}{}@{t}", if *d { "↓" } else { "↑" }, out_name(*k))).collect::<Vec<_>>().join(" ");
    let a = model(c, &lay, &ins, &tr.idle, tr.end, false, true);
    let b = model(c, &lay, &ins, &tr.idle, tr.end, true, true);
    if a.ambiguous {
        return Verdict::discard("unordered-simultaneous-timers-or-overlapping-macro-runs");
    }
    if let (Some(t), Some(t2)) = (a.idle_while_hold_pending, b.idle_while_hold_pending) {
        return Verdict::failed(
            "vkey:idle-reported-while-hold-for-duration-pending",
            format!("{}
at tick {} (and {t2} under the other tie rule) kanata reports itself idle although a hold-for-duration is still counting down: on-idle would fire before kanata has been idle", describe(), t),
        );
    }
    let matches = |e: &Expect| e.keys == observed && e.layer1 == tr.layer1;
    // F45: a hold-for-duration re-triggered while its countdown is still running, after
    // something else released the key, only resets the countdown
    if !matches(&a) && !matches(&b) && a.classes.contains(&"hold-rearmed-after-explicit-release") {
        let a2 = model(c, &lay, &ins, &tr.idle, tr.end, false, false);
        let b2 = model(c, &lay, &ins, &tr.idle, tr.end, true, false);
        if matches(&a2) || matches(&b2) {
            let fmt = |v: &[(u64, bool, u16)]| v.iter().map(|(t, d, k)| format!("{}{}@{t}", if *d { "↓" } else { "↑" }, out_name(*k))).collect::<Vec<_>>().join(" ");
            return Verdict::failed("vkey:hold-rearm-after-explicit-release-does-not-press", format!("{}\nexpected : {}\nobserved : {}", describe(), fmt(&a.keys), fmt(&observed)));
        }
    }
    let mut v = Verdict::pass(false);
    if !matches(&a) && !matches(&b) {
        let sig = if a.keys != observed {
            // classify by what differs first
            let i = a.keys.iter().zip(observed.iter()).position(|(x, y)| x != y).unwrap_or(a.keys.len().min(observed.len()));
            match (a.keys.get(i), observed.get(i)) {
                (Some(e), Some(o)) if e.1 == o.1 && e.2 == o.2 => "vkey:transition-at-wrong-time",
                (Some(_), None) => "vkey:expected-transition-missing",
                (None, Some(_)) => "vkey:unexpected-transition",
                (Some(e), Some(_)) if e.1 => "vkey:expected-press-missing-or-misplaced",
                _ => "vkey:expected-release-missing-or-misplaced",
            }
        } else {
            "vkey:layer-state-differs"
        };
        let layer_diff = a.layer1.iter().zip(tr.layer1.iter()).position(|(x, y)| x != y);
        return Verdict::failed(
            sig,
            format!("{}\nexpected : {}\nobserved : {}\nlayer-1 flag first differs at tick {:?}", describe(), fmt_tr(&a.keys), fmt_tr(&observed), layer_diff.map(|i| i + 1)),
        );
    }
    v.classes = a.classes.clone();
    for o in &c.ops {
        v.classes.push(match o.what {
            What::Op(Kind::Toggle, _) => "toggle",
            What::Op(_, 0) => "src:on-press",
            What::Op(_, 1) => "src:on-release",
            What::Op(_, 2) => "src:macro",
            What::Op(_, 3) => "src:direct",
            What::Op(_, _) => "src:sequence",
            What::Hold => "hold-for-duration",
            What::HoldLong => "hold-for-duration-long",
            What::OnIdle(_) => "on-idle",
        });
    }
    for (vi, _) in c.actions.iter().enumerate() {
        v.classes.push(match akind(&c.actions, vi) {
            0 => "action:key",
            1 => "action:layer",
            2 => "action:macro",
            _ => "action:on-idle-tapping-another-virtual-key",
        });
    }
    v.classes.sort();
    v.classes.dedup();
    v.nontrivial = v.classes.iter().any(|x| matches!(*x, "toggle" | "hold-rearmed" | "on-idle-fired" | "hold-retriggered-at-expiry"));
    v
}

impl TypedProp for C18 {
    type C = VCase;
    fn id(&self) -> &'static str {
        "C18"
    }
    fn info(&self) -> PropInfo {
        PropInfo {
            level: "exploration",
            rule: "configs: 1-3 virtual keys, each a key, (layer-while-held l1), a one-key macro, or (one in nine) an on-idle action that taps the virtual key before it (an on-idle armed without any input); one physical key per distinct operation: (on-press|on-release OP vk), (macro (on-press OP vk)), (hold-for-duration D vk), (hold-for-duration 3D+7 vk), (on-idle T OP vk), OP in press/release/tap/toggle (the second virtual key through the older spellings on-press-fakekey / on-release-fakekey / on-idle-fakekey and their arrow aliases); a sequence leader and one defseq per virtual key; rapid-event-delay 0. Histories: 1-13 operations >= 5 ms apart (>= 9 ms before a typed sequence), gaps drawn from small values, D-1/D/D+1, T-1/T/T+1 and long pauses, each operation through one of five sources (on-press, on-release, macro item, direct handle_fakekey_action call as the TCP server makes it, completed sequence = tap); run through the processing-loop emulation (can_block_update_idle_waiting every ms). Oracle: a reference model - the event queue handled one event per tick, a pressed flag per virtual key, press/release/tap/toggle on that flag (toggle decided when the operation is issued), hold-for-duration with a countdown of D ticks from its most recent activation (re-armed while it runs), on-idle firing once when kanata's own is_idle has held for T consecutive loop iterations since the last input or activation - predicts every OS transition of the virtual keys' output keys to the tick, and the layer-1 flag after every tick; they must be equal; and kanata must not report itself idle while a hold-for-duration countdown has 2 ms or more to run. Non-trivial: a toggle, a re-armed hold-for-duration or a fired on-idle occurs. Distinct: hash of the case.".into(),
            assumptions: vec![
                "a macro virtual key has no held state: each press event runs it once, release does nothing, toggle always presses".into(),
                "kanata's is_idle() (the subject of C07) is taken as the definition of 'idle' for on-idle".into(),
                "cases in which two on-idle entries fire, or two hold-for-duration countdowns end, in the same tick (unordered collections) or two runs of one macro overlap are discarded".into(),
            ],
            extra: BTreeMap::new(),
        }
    }
    fn plan(&self, tier: Tier) -> Plan {
        Plan {
            n_cases: match tier {
                Tier::Quick => 400_000,
                Tier::Thorough => 12_000_000,
            },
            exhaustive: false,
            distinct_by_construction: false,
            required_classes: vec!["on-idle-armed-by-a-virtual-key", "toggle", "hold-rearmed", "hold-expired", "on-idle-fired", "src:on-press", "src:on-release", "src:macro", "src:direct", "src:sequence", "action:key", "action:layer", "action:macro"],
            hang_secs: 60,
        }
    }
    fn gen(&self, _tier: Tier, _seed: u64, _idx: u64) -> Gen<VCase> {
        Gen::Strat(0)
    }
    fn strategy(&self, _tier: Tier, _key: u32) -> BoxedStrategy<VCase> {
        let kind = prop::sample::select(KINDS.to_vec());
        let what = prop_oneof![
            8 => (kind.clone(), 0u8..5).prop_map(|(k, s)| What::Op(if s == 4 { Kind::Tap } else { k }, s)),
            3 => Just(What::Hold),
            1 => Just(What::HoldLong),
            2 => kind.prop_map(What::OnIdle),
        ];
        (
            prop::collection::vec(prop_oneof![6 => 0u8..3, 1 => Just(3u8)], 1..4),
            prop::sample::select(vec![8u16, 20]),
            prop::sample::select(vec![15u16, 40]),
            prop::collection::vec((0u16..12, 0u8..3, what), 1..14),
        )
            .prop_map(|(actions, d, t_idle, raw)| {
                let n = actions.len() as u8;
                let ops = raw
                    .into_iter()
                    .map(|(g, vk, what)| {
                        // gaps: small, around D, around T, long
                        let gap = match g {
                            0..=3 => 5 + g,
                            4 => d.saturating_sub(1),
                            5 => d,
                            6 => d + 1,
                            7 => t_idle.saturating_sub(1),
                            8 => t_idle,
                            9 => t_idle + 1,
                            10 => d + 8,
                            _ => t_idle + d + 12,
                        };
                        let vk = vk % n;
                        // a virtual key whose action arms an on-idle gets no hold-for-duration (its own countdown
                        // would run against the idle time it is waiting for)
                        let what = if akind(&actions, vk as usize) == 3 && matches!(what, What::Hold | What::HoldLong) { What::Op(Kind::Tap, 0) } else { what };
                        VOp { gap, vk, what }
                    })
                    .collect();
                VCase { actions, d, t_idle, ops }
            })
            .boxed()
    }
    fn judge(&self, case: &VCase) -> Verdict {
        judge_case(case)
    }
}
