//! Shared case type for the whole-grammar checks (C01 C02 C07 …): a
//! configuration text with its files and an input history.
use crate::engine::*;
use crate::gen::cfg::{build, Built, Profile, Tape};
use crate::gen::hist::*;
use crate::gen::kc;
use crate::sexpr::{parse, print_top, Node};
use serde_json::{json, Value};

#[derive(Clone, Debug, PartialEq, Eq, Hash)]
pub struct GCase {
    pub cfg: String,
    pub files: Vec<(String, String)>,
    pub events: Vec<Ev>,
    /// run through the loop emulation (calls can_block_update_idle_waiting every ms)
    pub loop_emu: bool,
    /// timeouts occurring in the config (settle bound), macro ticks
    pub settle_hint: u64,
    pub features: Vec<String>,
}

impl Case for GCase {
    fn to_json(&self) -> Value {
        json!({"cfg": self.cfg, "files": self.files.iter().map(|(n, c)| json!([n, c])).collect::<Vec<_>>(),
            "events": hist_to_json(&self.events), "loop_emu": self.loop_emu, "settle_hint": self.settle_hint,
            "features": self.features})
    }
    fn from_json(v: &Value) -> Option<Self> {
        Some(GCase {
            cfg: v["cfg"].as_str()?.to_string(),
            files: v["files"]
                .as_array()
                .map(|a| a.iter().filter_map(|p| Some((p[0].as_str()?.to_string(), p[1].as_str()?.to_string()))).collect())
                .unwrap_or_default(),
            events: hist_from_json(&v["events"])?,
            loop_emu: v["loop_emu"].as_bool().unwrap_or(false),
            settle_hint: v["settle_hint"].as_u64().unwrap_or(2000),
            features: v["features"]
                .as_array()
                .map(|a| a.iter().filter_map(|x| x.as_str().map(String::from)).collect())
                .unwrap_or_default(),
        })
    }
    fn canon_hash(&self) -> u64 {
        use std::hash::{Hash, Hasher};
        let mut h = rustc_hash::FxHasher::default();
        self.cfg.hash(&mut h);
        self.events.hash(&mut h);
        self.loop_emu.hash(&mut h);
        h.finish()
    }
}

pub fn settle_bound(b: &Built) -> u64 {
    let sum: u64 = b.info.timeouts.iter().map(|t| *t as u64).sum();
    (sum + b.info.macro_ticks + 1200).min(200_000)
}

/// Gap set for a config: always {0,1,2}, T-1/T/T+1 for its timeouts, a few long ones.
pub fn gap_set(b: &Built, long: &[u32]) -> Vec<u32> {
    let mut g = vec![0, 0, 1, 1, 1, 2, 3, 5];
    for t in b.info.timeouts.iter().take(12) {
        if *t < 3000 {
            g.push(t.saturating_sub(1));
            g.push(*t);
            g.push(*t + 1);
        }
    }
    g.extend_from_slice(long);
    g
}

/// Physically consistent history over the config's defsrc keys (presses of
/// keys that are up, releases of keys that are down, everything released at
/// the end), drawn from the rest of the tape.
pub fn consistent_events(t: &mut Tape, b: &Built, gaps: &[u32], max_len: usize, repeats: bool, one_per_ms: bool) -> Vec<Ev> {
    let keys: Vec<u16> = b.src.iter().map(|n| kc(n)).collect();
    let mut down = vec![false; keys.len()];
    let n = t.range(1, max_len);
    let mut out = vec![];
    // Known finding F6b (chords v2 hands at most 16 events per tick to the layout) is
    // excluded by construction: with chords v2 at most 2 input events share a millisecond.
    let chv2 = b.info.features.contains("chords-v2");
    let mut run = 0;
    for _ in 0..n {
        let mut g = gaps[t.pick(gaps.len())];
        if one_per_ms && g == 0 {
            g = 1;
        }
        if g == 0 {
            run += 1;
            if chv2 && run >= 2 {
                g = 1;
                run = 0;
            }
        } else {
            run = 0;
        }
        if g > 0 {
            out.push(Ev::Gap(g));
        }
        let k = t.pick(keys.len());
        if repeats && down[k] && t.chance(1, 6) {
            out.push(Ev::Repeat(keys[k]));
            continue;
        }
        out.push(if down[k] { Ev::Release(keys[k]) } else { Ev::Press(keys[k]) });
        down[k] = !down[k];
    }
    for (i, d) in down.iter().enumerate() {
        if *d {
            out.push(Ev::Gap(1 + t.pick(3) as u32));
            out.push(Ev::Release(keys[i]));
        }
    }
    out
}

pub fn gcase_from(b: Built, events: Vec<Ev>, loop_emu: bool) -> GCase {
    GCase {
        settle_hint: settle_bound(&b),
        features: b.info.features.iter().map(|s| s.to_string()).collect(),
        cfg: b.text,
        files: b.files,
        events,
        loop_emu,
    }
}

pub fn build_cfg(t: &[u16], p: Profile, latching: bool) -> Built {
    build(t, p, latching)
}

/// Generic extra shrinking for (config, events) cases: ddmin on events,
/// then deletion of top-level forms, then replacement of nested list
/// actions by `XX`, then lowering of long gaps.
pub fn shrink_gcase(case: &GCase, fails: &mut dyn FnMut(&GCase) -> bool) -> GCase {
    let mut best = case.clone();
    // events: remove chunks
    let mut chunk = (best.events.len() / 2).max(1);
    while chunk >= 1 && !best.events.is_empty() {
        let mut i = 0;
        let mut removed = false;
        while i + chunk <= best.events.len() {
            let mut c = best.clone();
            c.events.drain(i..i + chunk);
            if fails(&c) {
                best = c;
                removed = true;
            } else {
                i += chunk;
            }
        }
        if !removed {
            if chunk == 1 {
                break;
            }
            chunk /= 2;
        }
    }
    // gaps: lower
    for i in 0..best.events.len() {
        if let Ev::Gap(g) = best.events[i] {
            for cand in [1u32, g / 2, g.saturating_sub(1)] {
                if cand < g && cand > 0 {
                    let mut c = best.clone();
                    c.events[i] = Ev::Gap(cand);
                    if fails(&c) {
                        best = c;
                        break;
                    }
                }
            }
        }
    }
    // config: drop top-level forms, then simplify nested lists
    if let Some(mut forms) = parse(&best.cfg) {
        let mut i = 0;
        while i < forms.len() {
            let head = forms[i].head().unwrap_or("").to_string();
            if head == "defsrc" || head == "deflayer" && forms.iter().filter(|f| f.head() == Some("deflayer")).count() == 1 {
                i += 1;
                continue;
            }
            let mut f2 = forms.clone();
            f2.remove(i);
            let mut c = best.clone();
            c.cfg = print_top(&f2);
            if fails(&c) {
                forms = f2;
                best = c;
            } else {
                i += 1;
            }
        }
        // replace nested list actions by XX (pre-order, skipping the top-level heads)
        let mut progress = true;
        let mut rounds = 0;
        while progress && rounds < 60 {
            progress = false;
            rounds += 1;
            'outer: for fi in 0..forms.len() {
                let head = forms[fi].head().unwrap_or("").to_string();
                if head == "defsrc" || head == "defcfg" {
                    continue;
                }
                let n = forms[fi].count();
                for idx in 1..n {
                    let is_list = matches!(forms[fi].get(idx), Some(Node::List(l)) if !l.is_empty());
                    if !is_list {
                        continue;
                    }
                    let mut f2 = forms.clone();
                    if let Some(slot) = f2[fi].get_mut(idx) {
                        *slot = Node::atom("XX");
                    }
                    let mut c = best.clone();
                    c.cfg = print_top(&f2);
                    if fails(&c) {
                        forms = f2;
                        best = c;
                        progress = true;
                        break 'outer;
                    }
                }
            }
        }
    }
    best
}
