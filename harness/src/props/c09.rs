//! C09 — Input chords fire for exactly the pressed key set, in any press order.
use crate::engine::*;
use crate::sim::{code_of, fmt_outs, out_name, OsState, Out, OutEv, Sim};
use proptest::prelude::*;
use serde_json::{json, Value};
use std::collections::{BTreeMap, BTreeSet};

pub struct C09;

const PART: [&str; 5] = ["a", "b", "c", "d", "g"];
const SINGLE_OUT: [&str; 5] = ["1", "2", "3", "4", "5"];
const CHORD_OUT: [&str; 8] = ["m", "n", "o", "p", "q", "r", "s", "t"];

#[derive(Clone, Debug, PartialEq, Eq, Hash)]
pub struct Chord {
    /// bit mask over PART
    pub keys: u8,
    /// v2 only: release on first release (else all-released)
    pub first_release: bool,
    /// v2 only: disabled on layer l1
    pub disabled_l1: bool,
}

#[derive(Clone, Debug, PartialEq, Eq, Hash)]
pub struct CCase {
    pub v2: bool,
    /// v1: the group's timeout; v2: the timeout of chords without an entry in `timeouts`
    pub timeout: u16,
    /// v2: per-chord timeouts
    pub timeouts: Vec<u16>,
    /// release the keys 2 ms after the last press (before any timeout) instead of after it
    pub early_release: bool,
    pub chords: Vec<Chord>,
    /// which chord is exercised
    pub which: u16,
    /// span from the first to the last participant press, as a class:
    /// 0 well below, 1 = T-2, 2 = T+3 (must not fire as one chord)
    pub span_class: u8,
    /// release order selector and gap
    pub release_perm: u16,
    /// 0: chord only; 1: a non-chord key is pressed right after the chord keys; 2: a single
    /// participant alone; 3 (v2): the chord's disabled layer is held
    pub scenario: u8,
}

fn mask_keys(m: u8) -> Vec<usize> {
    (0..5).filter(|i| m & (1 << i) != 0).collect()
}
fn tmo(c: &CCase, i: usize) -> u64 {
    if c.v2 {
        c.timeouts.get(i).copied().unwrap_or(c.timeout) as u64
    } else {
        c.timeout as u64
    }
}
fn max_tmo(c: &CCase) -> u64 {
    (0..c.chords.len()).map(|i| tmo(c, i)).max().unwrap_or(c.timeout as u64)
}
fn cfg_text(c: &CCase) -> String {
    let mut s = String::new();
    if c.v2 {
        s.push_str("(defcfg log-layer-changes no concurrent-tap-hold yes)\n(defsrc a b c d e f g)\n");
        s.push_str("(deflayer l0 1 2 3 4 w (layer-while-held l1) 5)\n(deflayer l1 1 2 3 4 w XX 5)\n(defchordsv2");
        for (i, ch) in c.chords.iter().enumerate() {
            s.push_str(&format!(
                "\n  ({}) {} {} {} ({})",
                mask_keys(ch.keys).iter().map(|k| PART[*k]).collect::<Vec<_>>().join(" "),
                CHORD_OUT[i],
                tmo(c, i),
                if ch.first_release { "first-release" } else { "all-released" },
                if ch.disabled_l1 { "l1" } else { "" }
            ));
        }
        s.push_str(")\n");
    } else {
        s.push_str("(defcfg log-layer-changes no)\n(defsrc a b c d e f g)\n");
        s.push_str(&format!("(defchords grp {}", c.timeout));
        for i in 0..5 {
            s.push_str(&format!(" ({}) {}", PART[i], SINGLE_OUT[i]));
        }
        let layered = c.scenario % 8 == 7;
        for (i, ch) in c.chords.iter().enumerate() {
            let keys = mask_keys(ch.keys).iter().map(|k| PART[*k]).collect::<Vec<_>>().join(" ");
            if layered {
                // scenario 7: every chord also holds a layer on which e types v
                s.push_str(&format!(" ({keys}) (multi (layer-while-held l1) {})", CHORD_OUT[i]));
            } else {
                s.push_str(&format!(" ({keys}) {}", CHORD_OUT[i]));
            }
        }
        s.push_str(")\n(deflayer l0 (chord grp a) (chord grp b) (chord grp c) (chord grp d) w XX (chord grp g))\n");
        if layered {
            s.push_str("(deflayer l1 _ _ _ _ v _ _)\n");
        }
    }
    s
}

impl Case for CCase {
    fn to_json(&self) -> Value {
        json!({"config": cfg_text(self), "v2": self.v2, "timeout": self.timeout, "timeouts": self.timeouts, "early_release": self.early_release,
            "chords": self.chords.iter().map(|c| json!([c.keys, c.first_release, c.disabled_l1])).collect::<Vec<_>>(),
            "which": self.which, "span_class": self.span_class, "release_perm": self.release_perm, "scenario": self.scenario})
    }
    fn from_json(v: &Value) -> Option<Self> {
        Some(CCase {
            v2: v["v2"].as_bool()?,
            timeout: v["timeout"].as_u64()? as u16,
            timeouts: v["timeouts"].as_array().map(|a| a.iter().filter_map(|x| x.as_u64().map(|y| y as u16)).collect()).unwrap_or_default(),
            early_release: v["early_release"].as_bool().unwrap_or(false),
            chords: v["chords"]
                .as_array()?
                .iter()
                .map(|c| {
                    Some(Chord {
                        keys: c[0].as_u64()? as u8,
                        first_release: c[1].as_bool()?,
                        disabled_l1: c[2].as_bool()?,
                    })
                })
                .collect::<Option<Vec<_>>>()?,
            which: v["which"].as_u64()? as u16,
            span_class: v["span_class"].as_u64()? as u8,
            release_perm: v["release_perm"].as_u64()? as u16,
            scenario: v["scenario"].as_u64()? as u8,
        })
    }
    fn canon_hash(&self) -> u64 {
        use std::hash::{Hash, Hasher};
        let mut h = rustc_hash::FxHasher::default();
        self.hash(&mut h);
        h.finish()
    }
}

fn perms(n: usize) -> Vec<Vec<usize>> {
    if n == 0 {
        return vec![vec![]];
    }
    let mut out = vec![];
    for p in perms(n - 1) {
        for pos in 0..=p.len() {
            let mut q = p.clone();
            q.insert(pos, n - 1);
            out.push(q);
        }
    }
    out
}

struct Run {
    outs: Vec<Out>,
    press_times: Vec<u64>,
    release_times: Vec<u64>,
    idle: bool,
}

/// Press the chord's keys in `order` with the given inter-press gaps, optionally a non-chord
/// key, then release in `rel_order`.
fn run(c: &CCase, keys: &[usize], order: &[usize], gaps: &[u64], rel_order: &[usize], extra_key: bool, hold_layer: bool) -> Result<Run, String> {
    let mut sim = Sim::new(&cfg_text(c)).map_err(|e| e)?;
    if hold_layer {
        sim.press(code_of("f"));
        sim.tick_n(5);
    }
    let start = sim.outs.len();
    let _ = start;
    let mut press_times = vec![];
    for (i, oi) in order.iter().enumerate() {
        if i > 0 {
            sim.tick_n(gaps[i - 1]);
        }
        press_times.push(sim.ticks);
        sim.press(code_of(PART[keys[*oi]]));
    }
    if extra_key {
        sim.tick_n(1);
        sim.press(code_of("e"));
        sim.tick_n(2);
        sim.release(code_of("e"));
    }
    sim.tick_n(if c.early_release { 2 } else { max_tmo(c) + 20 });
    let mut release_times = vec![];
    for ri in rel_order {
        release_times.push(sim.ticks);
        sim.release(code_of(PART[keys[*ri]]));
        // spacing between the releases: short, or long enough to tell "with the first release"
        // from "with the last release"
        sim.tick_n(if c.release_perm % 2 == 1 { 25 } else { 3 });
    }
    if hold_layer {
        sim.release(code_of("f"));
    }
    sim.tick_n(max_tmo(c) + 40);
    Ok(Run {
        idle: sim.k.is_idle(),
        outs: sim.outs.clone(),
        press_times,
        release_times,
    })
}

fn transitions(outs: &[Out]) -> Vec<(u64, bool, u16)> {
    let mut os = OsState::default();
    outs.iter()
        .filter(|o| os.apply(o))
        .filter_map(|o| match o.ev {
            OutEv::Down(k) => Some((o.t, true, k)),
            OutEv::Up(k) => Some((o.t, false, k)),
            _ => None,
        })
        .collect()
}

fn judge_case(c: &CCase) -> Verdict {
    if c.chords.is_empty() {
        return Verdict::discard("no-chords");
    }
    let text = cfg_text(c);
    let files: rustc_hash::FxHashMap<String, String> = Default::default();
    if let Err(e) = kanata_parser::cfg::new_from_str(&text, files) {
        return Verdict::failed("harness:chord-config-rejected", format!("{text}\n{e:?}"));
    }
    let wi = pick(c.which, c.chords.len());
    let ch = &c.chords[wi];
    let keys = mask_keys(ch.keys);
    let k = keys.len();
    let t = tmo(c, wi);
    let y = code_of(CHORD_OUT[wi]);
    let all_chord_outs: Vec<u16> = (0..c.chords.len()).map(|i| code_of(CHORD_OUT[i])).collect();
    let single_outs: Vec<u16> = SINGLE_OUT.iter().map(|n| code_of(n)).collect();
    let rperms = perms(k);
    let rel_order = rperms[pick(c.release_perm, rperms.len())].clone();
    let has_overlap = c.chords.iter().enumerate().any(|(i, o)| i != wi && (o.keys & ch.keys == o.keys || o.keys & ch.keys == ch.keys));
    let mut v = Verdict::pass(has_overlap);
    v.classes.push(if c.v2 { "v2" } else { "v1" });
    let describe = |what: &str, r: &Run| format!("{text}chord ({}) {what}: output {}", keys.iter().map(|i| PART[*i]).collect::<Vec<_>>().join(" "), fmt_outs(&r.outs));
    // gap pattern
    let gaps: Vec<u64> = match c.span_class % 3 {
        0 => vec![1; k.saturating_sub(1)],
        1 => {
            // total span T-2 (all inside the timeout), first gap takes the slack
            let mut g = vec![1u64; k.saturating_sub(1)];
            if let Some(f) = g.first_mut() {
                *f = (t.saturating_sub(2)).saturating_sub(k as u64 - 2).max(1);
            }
            g
        }
        _ => {
            let mut g = vec![1u64; k.saturating_sub(1)];
            if let Some(f) = g.first_mut() {
                *f = t + 3;
            }
            g
        }
    };
    let span: u64 = gaps.iter().sum();
    // The chord is owed when, at every moment before its last key arrives, the time since the
    // first press is below the timeout of every chord that is still possible (contains all keys
    // pressed so far): a shorter sub-chord or sibling legitimately ends the wait earlier.
    let owed = |order: &[usize]| -> bool {
        let mut elapsed = 0u64;
        let mut mask = 0u8;
        for (j, oi) in order.iter().enumerate() {
            if j > 0 {
                elapsed += gaps[j - 1];
                let m = c.chords.iter().enumerate().filter(|(_, o)| o.keys & mask == mask).map(|(i, _)| tmo(c, i)).min().unwrap_or(t);
                if elapsed + 2 > m {
                    return false;
                }
            }
            mask |= 1 << keys[*oi];
        }
        true
    };
    match c.scenario % 8 {
        2 => {
            // a single participant alone is not swallowed: its own action, exactly once
            let only = [keys[0]];
            let r = match run(c, &only, &[0], &[], &[0], false, false) {
                Ok(r) => r,
                Err(e) => return Verdict::failed("harness:chord-config-rejected", e),
            };
            let downs: Vec<u16> = r.outs.iter().filter_map(|o| if let OutEv::Down(k) = o.ev { Some(k) } else { None }).collect();
            if downs != vec![single_outs[keys[0]]] {
                return Verdict::failed("chord:single-key-not-delivered", format!("{}\nexpected exactly its own action {}", describe("single participant alone", &r), SINGLE_OUT[keys[0]]));
            }
            v.classes.push("single-participant");
            return v;
        }
        3 if c.v2 && ch.disabled_l1 => {
            // chord disabled on the held layer: the keys act individually, in order
            let order: Vec<usize> = (0..k).collect();
            let r = match run(c, &keys, &order, &vec![1; k - 1], &rel_order, false, true) {
                Ok(r) => r,
                Err(e) => return Verdict::failed("harness:chord-config-rejected", e),
            };
            let downs: Vec<u16> = r.outs.iter().filter_map(|o| if let OutEv::Down(k) = o.ev { Some(k) } else { None }).collect();
            let want: Vec<u16> = keys.iter().map(|i| single_outs[*i]).collect();
            // other chords (sub-chords not disabled) may legitimately fire; only the disabled one must not
            if downs.contains(&y) {
                return Verdict::failed("chord:fired-on-disabled-layer", describe("on its disabled layer", &r));
            }
            if !c.chords.iter().enumerate().any(|(i, o)| i != wi && o.keys & ch.keys == o.keys && !o.disabled_l1) && downs != want {
                return Verdict::failed("chord:keys-lost-on-disabled-layer", format!("{}\nexpected the keys' own actions {:?} in order", describe("on its disabled layer", &r), want.iter().map(|c| out_name(*c)).collect::<Vec<_>>()));
            }
            v.classes.push("disabled-layer");
            return v;
        }
        4 if k >= 2 => {
            // an interrupted partial chord: all keys but the last (not a chord, containing no
            // chord), then a non-chord key and, in the same millisecond, the last key: every key
            // is delivered to the layer exactly once, in the original order
            let part: u8 = keys[..k - 1].iter().fold(0u8, |m, i| m | (1 << i));
            let contains_chord = c.chords.iter().any(|o| o.keys & part == o.keys && (o.keys.count_ones() >= 2));
            if contains_chord {
                return Verdict::discard("partial-chord-contains-a-chord");
            }
            let mut sim = match Sim::new(&text) {
                Ok(s) => s,
                Err(e) => return Verdict::failed("harness:chord-config-rejected", e),
            };
            for i in &keys[..k - 1] {
                sim.press(code_of(PART[*i]));
                sim.tick_n(1);
            }
            sim.press(code_of("e"));
            sim.press(code_of(PART[keys[k - 1]]));
            sim.tick_n(max_tmo(c) + 30);
            for i in &keys {
                sim.release(code_of(PART[*i]));
                sim.tick_n(2);
            }
            sim.release(code_of("e"));
            sim.tick_n(max_tmo(c) + 40);
            let downs: Vec<u16> = sim.outs.iter().filter_map(|o| if let OutEv::Down(kc) = o.ev { Some(kc) } else { None }).collect();
            let mut want: Vec<u16> = keys[..k - 1].iter().map(|i| single_outs[*i]).collect();
            want.push(code_of("w"));
            want.push(single_outs[keys[k - 1]]);
            if downs != want {
                return Verdict::failed(
                    "chord:interrupted-partial-chord-not-delivered-in-order",
                    format!(
                        "{text}keys {} then e and {} in the same ms: output {}\nexpected the presses {:?}",
                        keys[..k - 1].iter().map(|i| PART[*i]).collect::<Vec<_>>().join(" "),
                        PART[keys[k - 1]],
                        fmt_outs(&sim.outs),
                        want.iter().map(|c| out_name(*c)).collect::<Vec<_>>()
                    ),
                );
            }
            let mut os = OsState::default();
            for o in &sim.outs {
                os.apply(o);
            }
            if os.anything_down() {
                return Verdict::failed("chord:key-left-down", format!("{text}interrupted partial chord: {}", fmt_outs(&sim.outs)));
            }
            v.classes.push("interrupted-partial-chord");
            return v;
        }
        5 if c.v2 => {
            // two chords active at once that share keys: the exercised chord stays active through
            // the keys the other one does not have, the shared keys are released and pressed
            // again together with the other chord's keys; then everything is released. Both
            // actions must be released no later than their last participant: nothing stays down.
            let other = c.chords.iter().enumerate().find(|(i, o)| *i != wi && o.keys & ch.keys != 0 && ch.keys & !o.keys != 0);
            if let Some((oi, o)) = other {
                let mut sim = match Sim::new(&text) {
                    Ok(s) => s,
                    Err(e) => return Verdict::failed("harness:chord-config-rejected", e),
                };
                let shared = mask_keys(o.keys & ch.keys);
                let okeys = mask_keys(o.keys);
                for i in &keys {
                    sim.press(code_of(PART[*i]));
                    sim.tick_n(1);
                }
                sim.tick_n(max_tmo(c) + 20);
                for i in &shared {
                    sim.release(code_of(PART[*i]));
                    sim.tick_n(2);
                }
                sim.tick_n(10);
                for i in &okeys {
                    sim.press(code_of(PART[*i]));
                    sim.tick_n(1);
                }
                sim.tick_n(max_tmo(c) + 20);
                let both_down = {
                    let mut os = OsState::default();
                    for ev in &sim.outs {
                        os.apply(ev);
                    }
                    os.keys.contains(&y) && os.keys.contains(&code_of(CHORD_OUT[oi]))
                };
                // release: shared keys first or last
                let mut rel: Vec<usize> = shared.clone();
                let rest: Vec<usize> = (0..5).filter(|i| (o.keys | ch.keys) & (1 << i) != 0 && !shared.contains(i)).collect();
                if c.release_perm % 2 == 0 {
                    rel.extend(rest);
                } else {
                    rel = rest.into_iter().chain(shared.iter().copied()).collect();
                }
                for i in &rel {
                    sim.release(code_of(PART[*i]));
                    sim.tick_n(3);
                }
                sim.tick_n(max_tmo(c) + 40);
                let mut os = OsState::default();
                for ev in &sim.outs {
                    os.apply(ev);
                }
                if os.anything_down() {
                    return Verdict::failed(
                        "chord:key-left-down",
                        format!("{text}chord ({}) held, shared keys released and pressed again with ({}), all released: {}", keys.iter().map(|i| PART[*i]).collect::<Vec<_>>().join(" "), okeys.iter().map(|i| PART[*i]).collect::<Vec<_>>().join(" "), fmt_outs(&sim.outs)),
                    );
                }
                if !sim.k.is_idle() {
                    return Verdict::failed("chord:not-idle-at-end", format!("{text}two chords sharing keys: {}", fmt_outs(&sim.outs)));
                }
                v.classes.push("two-chords-sharing-keys");
                if both_down {
                    v.classes.push("two-chords-active-at-once");
                }
                return v;
            }
            // two disjoint chords active at once: releasing the keys of the first must not release the
            // second one's action (its participants are all still down), and then everything goes up
            let disjoint = c.chords.iter().enumerate().find(|(i, o)| *i != wi && o.keys & ch.keys == 0);
            if let Some((oi, o)) = disjoint {
                let mut sim = match Sim::new(&text) {
                    Ok(s) => s,
                    Err(e) => return Verdict::failed("harness:chord-config-rejected", e),
                };
                let okeys = mask_keys(o.keys);
                let o_out = code_of(CHORD_OUT[oi]);
                for i in &keys {
                    sim.press(code_of(PART[*i]));
                    sim.tick_n(1);
                }
                sim.tick_n(max_tmo(c) + 20);
                for i in &okeys {
                    sim.press(code_of(PART[*i]));
                    sim.tick_n(1);
                }
                sim.tick_n(max_tmo(c) + 20);
                let down_now = |sim: &Sim| {
                    let mut os = OsState::default();
                    for ev in &sim.outs {
                        os.apply(ev);
                    }
                    os.keys.clone()
                };
                let d0 = down_now(&sim);
                if d0.contains(&y) && d0.contains(&o_out) {
                    let mut rel = keys.clone();
                    if c.release_perm % 2 == 1 {
                        rel.reverse();
                    }
                    for i in &rel {
                        sim.release(code_of(PART[*i]));
                        sim.tick_n(3);
                    }
                    sim.tick_n(max_tmo(c) + 40);
                    let d1 = down_now(&sim);
                    let what = format!("{text}chords ({}) and ({}) both active, the keys of the first released", keys.iter().map(|i| PART[*i]).collect::<Vec<_>>().join(" "), okeys.iter().map(|i| PART[*i]).collect::<Vec<_>>().join(" "));
                    if d1.contains(&y) {
                        return Verdict::failed("chord:released-later-than-its-participants", format!("{what}: its action is still down: {}", fmt_outs(&sim.outs)));
                    }
                    if !d1.contains(&o_out) {
                        return Verdict::failed("chord:released-while-all-its-participants-are-down", format!("{what}: the action of the second went up although all its keys are down: {}", fmt_outs(&sim.outs)));
                    }
                    for i in &okeys {
                        sim.release(code_of(PART[*i]));
                        sim.tick_n(3);
                    }
                    sim.tick_n(max_tmo(c) + 40);
                    if !down_now(&sim).is_empty() {
                        return Verdict::failed("chord:key-left-down", format!("{what}, then the second's: {}", fmt_outs(&sim.outs)));
                    }
                    v.classes.push("two-disjoint-chords-active-at-once");
                    return v;
                }
            }
        }
        6 if c.v2 => {
            // a key that takes part in 25 chords (more than any fixed-size candidate list):
            // every one of them fires for exactly its key set, whichever key comes first
            const P6: [&str; 6] = ["a", "b", "c", "d", "g", "h"];
            const OUT25: [&str; 25] = ["i", "j", "k", "l", "m", "n", "o", "p", "q", "r", "s", "t", "u", "v", "x", "y", "z", "7", "8", "9", "0", "f1", "f2", "f3", "f4"];
            let mut sets: Vec<u8> = (1u8..32).filter(|m| m.count_ones() <= 3).collect();
            // definition order chosen by the case
            let rot = (c.release_perm as usize / 4) % sets.len();
            sets.rotate_left(rot);
            let mut wide = String::from("(defcfg log-layer-changes no concurrent-tap-hold yes)\n(defsrc a b c d e f g h)\n(deflayer l0 1 2 3 4 w XX 5 6)\n(defchordsv2");
            for (i, m) in sets.iter().enumerate() {
                let others: Vec<&str> = (0..5).filter(|b| m & (1 << b) != 0).map(|b| P6[b + 1]).collect();
                wide.push_str(&format!("\n  (a {}) {} 30 all-released ()", others.join(" "), OUT25[i]));
            }
            wide.push_str(")\n");
            let idx = pick(c.which, sets.len());
            let mut ks: Vec<&str> = vec!["a"];
            ks.extend((0..5).filter(|b| sets[idx] & (1 << b) != 0).map(|b| P6[b + 1]));
            match c.release_perm % 4 {
                0 => {}
                1 => ks.reverse(),
                2 => ks.rotate_left(1),
                _ => {
                    let l = ks.len();
                    ks.swap(0, l - 1);
                }
            }
            let mut sim = match Sim::new(&wide) {
                Ok(s) => s,
                Err(e) => return Verdict::failed("harness:chord-config-rejected", format!("{wide}{e}")),
            };
            for kname in &ks {
                sim.press(code_of(kname));
                sim.tick_n(1);
            }
            sim.tick_n(50);
            for kname in &ks {
                sim.release(code_of(kname));
                sim.tick_n(2);
            }
            sim.tick_n(70);
            let downs: Vec<u16> = sim.outs.iter().filter_map(|o| if let OutEv::Down(kc) = o.ev { Some(kc) } else { None }).collect();
            if downs != vec![code_of(OUT25[idx])] {
                return Verdict::failed(
                    "chord:wide-table-chord-not-fired-exactly",
                    format!("{wide}keys {ks:?} pressed 1 ms apart (chord #{idx} in definition order, action {}): output {}", OUT25[idx], fmt_outs(&sim.outs)),
                );
            }
            let mut os = OsState::default();
            for ev in &sim.outs {
                os.apply(ev);
            }
            if os.anything_down() {
                return Verdict::failed("chord:key-left-down", format!("{wide}keys {ks:?}: {}", fmt_outs(&sim.outs)));
            }
            v.classes.push("key-in-25-chords");
            v.nontrivial = true;
            return v;
        }
        7 if !c.v2 && k >= 2 => {
            // v1, action (multi (layer-while-held l1) key): the layer too is held until all
            // participants are released
            let mut sim = match Sim::new(&text) {
                Ok(s) => s,
                Err(e) => return Verdict::failed("harness:chord-config-rejected", e),
            };
            for i in &keys {
                sim.press(code_of(PART[*i]));
                sim.tick_n(1);
            }
            sim.tick_n(max_tmo(c) + 20);
            let fired = sim.outs.iter().any(|o| o.ev == OutEv::Down(y));
            let mut probes: Vec<(usize, bool)> = vec![];
            for (n, ri) in rel_order.iter().enumerate() {
                sim.release(code_of(PART[keys[*ri]]));
                sim.tick_n(10);
                let before = sim.outs.len();
                sim.press(code_of("e"));
                sim.tick_n(3);
                sim.release(code_of("e"));
                sim.tick_n(10);
                let typed_v = sim.outs[before..].iter().any(|o| o.ev == OutEv::Down(code_of("v")));
                probes.push((n + 1, typed_v));
            }
            sim.tick_n(max_tmo(c) + 40);
            if fired {
                for (n, typed_v) in &probes {
                    let want = *n < k;
                    if *typed_v != want {
                        return Verdict::failed(
                            "chord:v1-layer-of-multi-action-release-rule",
                            format!("{text}chord ({}) with action (multi (layer-while-held l1) ..), {n} of {k} participants released: e typed {} - the layer must be held until all participants are released\noutput {}", keys.iter().map(|i| PART[*i]).collect::<Vec<_>>().join(" "), if *typed_v { "v (layer l1)" } else { "w (layer l0)" }, fmt_outs(&sim.outs)),
                        );
                    }
                }
                v.classes.push("v1-multi-with-layer");
            }
            let mut os = OsState::default();
            for ev in &sim.outs {
                os.apply(ev);
            }
            if os.anything_down() {
                return Verdict::failed("chord:key-left-down", format!("{text}v1 multi with layer: {}", fmt_outs(&sim.outs)));
            }
            return v;
        }
        _ => {}
    }
    let extra = c.scenario % 8 == 1;
    // reference run: sorted press order
    let sorted: Vec<usize> = (0..k).collect();
    let base = match run(c, &keys, &sorted, &gaps, &rel_order, extra, false) {
        Ok(r) => r,
        Err(e) => return Verdict::failed("harness:chord-config-rejected", e),
    };
    let base_tr = transitions(&base.outs);
    let downs = |r: &Run| -> Vec<u16> { r.outs.iter().filter_map(|o| if let OutEv::Down(k) = o.ev { Some(k) } else { None }).collect() };
    // (ii) reference: everything within the timeout => exactly this chord, once, nothing of the participants
    let superset_exists = c.chords.iter().enumerate().any(|(i, o)| i != wi && o.keys & ch.keys == ch.keys);
    let _ = superset_exists;
    let d = downs(&base);
    let base_owed = owed(&sorted);
    if base_owed {
        let n_y = d.iter().filter(|x| **x == y).count();
        if n_y != 1 {
            return Verdict::failed("chord:not-fired-exactly-once", format!("{}\nall keys were down within {span} ms (timeout {t}): the chord's action appears {n_y} times", describe("pressed together", &base)));
        }
        if let Some(o) = d.iter().find(|x| single_outs.contains(x) || (all_chord_outs.contains(x) && **x != y)) {
            return Verdict::failed("chord:participant-action-leaked", format!("{}\nbesides the chord's action, {} was output", describe("pressed together", &base), out_name(*o)));
        }
        if extra && !d.contains(&code_of("w")) {
            return Verdict::failed("chord:following-key-swallowed", describe("followed by a non-chord key", &base));
        }
        if extra {
            // the non-chord key comes after the chord's action
            let pos_y = d.iter().position(|x| *x == y).unwrap();
            let pos_w = d.iter().position(|x| *x == code_of("w")).unwrap();
            if pos_w < pos_y {
                return Verdict::failed("chord:order-with-following-key", describe("followed by a non-chord key", &base));
            }
        }
        // release rule
        let up_t = base.outs.iter().find(|o| o.ev == OutEv::Up(y)).map(|o| o.t);
        let first_rel = *base.release_times.first().unwrap();
        let last_rel = *base.release_times.last().unwrap();
        match up_t {
            None => return Verdict::failed("chord:never-released", describe("pressed together", &base)),
            Some(u) => {
                // latency: queued events are handled one per tick, and a release is held back
                // until rapid-event-delay (5 ms) after the press before it
                let lat = if c.early_release { 8 + 2 * k as u64 } else { 4 };
                let down_t = base.outs.iter().find(|o| o.ev == OutEv::Down(y)).map(|o| o.t).unwrap_or(0);
                if u > last_rel.max(down_t) + lat {
                    return Verdict::failed("chord:released-later-than-all-participants", format!("{}\nlast participant released at {last_rel} ms, chord action released at {u} ms", describe("pressed together", &base)));
                }
                if !c.v2 && !extra && u < last_rel {
                    // v1, documented: a single-key action stays until all keys of the chord are released
                    return Verdict::failed("chord:v1-released-before-all-participants", format!("{}\nlast participant released at {last_rel} ms, chord action already released at {u} ms", describe("pressed together", &base)));
                }
                if c.v2 && !extra {
                    if ch.first_release && !(u >= first_rel && u <= first_rel.max(down_t) + lat) {
                        return Verdict::failed("chord:first-release-rule", format!("{}\nfirst participant released at {first_rel} ms, chord action released at {u} ms", describe("first-release", &base)));
                    }
                    if !ch.first_release && u < last_rel {
                        return Verdict::failed("chord:all-released-rule", format!("{}\nlast participant released at {last_rel} ms, chord action already released at {u} ms", describe("all-released", &base)));
                    }
                }
            }
        }
        v.classes.push("within-timeout");
        if c.early_release {
            v.classes.push("released-before-timeout");
        }
        if c.v2 && c.chords.iter().enumerate().any(|(i, o)| i != wi && o.keys & ch.keys != 0 && tmo(c, i) < t && span + 2 > tmo(c, i)) {
            v.classes.push("outlasts-shorter-overlapping-chord");
        }
    } else if span >= t + 2 {
        // too slow for one chord: it must not fire as a whole, and no key may be swallowed:
        // every participant is accounted for by some action (its own or a defined sub-chord)
        if d.contains(&y) && k >= 2 && !c.chords.iter().enumerate().any(|(i, o)| i != wi && o.keys == ch.keys) {
            // the full chord fired although the first key was pressed more than a timeout before the last
            return Verdict::failed("chord:fired-after-timeout", format!("{}\nspan {span} ms exceeds the timeout {t}", describe("pressed too slowly", &base)));
        }
        if d.is_empty() {
            return Verdict::failed("chord:keys-swallowed", describe("pressed too slowly", &base));
        }
        v.classes.push("beyond-timeout");
    } else {
        v.classes.push("at-timeout-boundary");
    }
    let mut os = OsState::default();
    for o in &base.outs {
        os.apply(o);
    }
    if os.anything_down() {
        return Verdict::failed("chord:key-left-down", describe("(sorted order)", &base));
    }
    if !base.idle {
        return Verdict::failed("chord:not-idle-at-end", describe("(sorted order)", &base));
    }
    // (i) metamorphic: every press order gives the same observable result
    let mut n_perm = 0;
    for order in perms(k) {
        if order == sorted {
            continue;
        }
        n_perm += 1;
        let r = match run(c, &keys, &order, &gaps, &rel_order, extra, false) {
            Ok(r) => r,
            Err(e) => return Verdict::failed("harness:chord-config-rejected", e),
        };
        let tr = transitions(&r.outs);
        let mut os = OsState::default();
        for o in &r.outs {
            os.apply(o);
        }
        if os.anything_down() {
            return Verdict::failed("chord:key-left-down", describe(&format!("(press order {:?})", order.iter().map(|i| PART[keys[*i]]).collect::<Vec<_>>()), &r));
        }
        // only key sets that are entries of the table are order-independent by statement; when the
        // span is beyond the timeout the decomposition legitimately depends on which key came first
        if base_owed && owed(&order) {
            let same = if c.v2 {
                tr == base_tr
            } else {
                let p = |x: &Vec<(u64, bool, u16)>| x.iter().filter(|e| e.1).cloned().collect::<Vec<_>>();
                p(&tr) == p(&base_tr)
            };
            if !same {
                return Verdict::failed(
                    "chord:press-order-changes-result",
                    format!(
                        "{text}chord ({}) gaps {gaps:?}: sorted press order gives {}\n  but order {:?} gives {}",
                        keys.iter().map(|i| PART[*i]).collect::<Vec<_>>().join(" "),
                        fmt_outs(&base.outs),
                        order.iter().map(|i| PART[keys[*i]]).collect::<Vec<_>>(),
                        fmt_outs(&r.outs)
                    ),
                );
            }
        }
    }
    if n_perm > 0 {
        v.classes.push("permuted");
    }
    if extra {
        v.classes.push("with-following-key");
    }
    if has_overlap {
        v.classes.push("overlapping-table");
    }
    let _ = BTreeSet::<u8>::new();
    v
}

impl TypedProp for C09 {
    type C = CCase;
    fn id(&self) -> &'static str {
        "C09"
    }
    fn info(&self) -> PropInfo {
        PropInfo {
            level: "exploration",
            rule: "tables: defchords (v1) and defchordsv2 (v2) with 1-6 chords over participating keys a-d (overlapping chords, sub-chords, supersets, v2: both release behaviours, disabled layer), timeouts {8,30}, every chord action a distinct key. For one chord of the table: all its keys pressed with total span well below / T-2 / T+3, then released in a chosen order, optionally followed by a non-chord key. Oracles: (reference) within the timeout the chord's action appears exactly once and nothing else of the participants, the following key is not swallowed and comes after it, the action is released per the release rule and no later than the last participant; beyond the timeout the whole chord does not fire and keys are not swallowed; a single participant alone gives its own action once; all keys of the chord but the last (containing no chord), then a non-chord key and the last key in the same millisecond => every key's own action exactly once in the original order; on its disabled layer a v2 chord does not fire; two v2 chords that share keys, active at once (shared keys released and pressed again with the second chord's keys), leave nothing down after all releases; two disjoint v2 chords active at once: releasing the first one's keys releases its action and leaves the second one's down until its own keys are released; a key taking part in 25 chords (definition order rotated by the case): each fires exactly for its key set whichever key is pressed first; v1 chords with action (multi (layer-while-held ..) key): the layer, probed with another key after each release, is held until all participants are released; (metamorphic, exhaustive over orders) every permutation of the press order gives the same timestamped OS transitions as the sorted order (v1: the same timestamped presses), nothing is left down. Non-trivial: the table contains a sub- or super-chord of the exercised chord. Distinct: hash of the case.",
            assumptions: vec!["spans within 2 ms of the timeout are only checked metamorphically (the exact boundary convention differs between v1 and v2)".into()],
            extra: BTreeMap::new(),
        }
    }
    fn plan(&self, tier: Tier) -> Plan {
        Plan {
            n_cases: match tier {
                Tier::Quick => 200_000,
                Tier::Thorough => 4_000_000,
            },
            exhaustive: false,
            distinct_by_construction: false,
            required_classes: vec!["v1", "v2", "released-before-timeout", "outlasts-shorter-overlapping-chord", "within-timeout", "beyond-timeout", "permuted", "with-following-key", "overlapping-table", "single-participant", "disabled-layer", "interrupted-partial-chord", "two-chords-active-at-once", "two-disjoint-chords-active-at-once", "key-in-25-chords", "v1-multi-with-layer"],
            hang_secs: 60,
        }
    }
    fn gen(&self, _tier: Tier, _seed: u64, _idx: u64) -> Gen<CCase> {
        Gen::Strat(0)
    }
    fn strategy(&self, _tier: Tier, _key: u32) -> BoxedStrategy<CCase> {
        (
            any::<bool>(),
            prop::sample::select(vec![8u16, 30]),
            prop::collection::vec((3u8..32, any::<bool>(), prop::bool::weighted(0.25)), 1..7),
            any::<u16>(),
            0u8..3,
            any::<u16>(),
            0u8..8,
            prop_oneof![2 => Just(vec![]), 3 => prop::collection::vec(prop::sample::select(vec![8u16, 30, 60]), 6..=6)],
            prop::bool::weighted(0.3),
        )
            .prop_map(|(v2, timeout, raw, which, span_class, release_perm, scenario, timeouts, early_release)| {
                let mut chords: Vec<Chord> = vec![];
                for (m, fr, dis) in raw {
                    if m.count_ones() < 2 || chords.iter().any(|c| c.keys == m) {
                        continue;
                    }
                    chords.push(Chord {
                        keys: m,
                        first_release: fr,
                        disabled_l1: dis,
                    });
                }
                if chords.is_empty() {
                    chords.push(Chord {
                        keys: 0b11,
                        first_release: false,
                        disabled_l1: false,
                    });
                }
                CCase {
                    v2,
                    timeout,
                    timeouts: if v2 { timeouts } else { vec![] },
                    early_release,
                    chords,
                    which,
                    span_class,
                    release_perm,
                    scenario,
                }
            })
            .boxed()
    }
    fn judge(&self, case: &CCase) -> Verdict {
        judge_case(case)
    }
}
