//! C02 — An accepted configuration never crashes or hangs event processing.
use super::gcase::*;
use crate::engine::*;
use crate::gen::cfg::{Profile, Tape};
use crate::gen::hist::*;
use crate::gen::kc;
use crate::sim::Sim;
use kanata_state_machine::oskbd::KeyValue;
use kanata_state_machine::OsCode;
use proptest::prelude::*;
use std::collections::BTreeMap;

pub struct C02;

fn valid_codes() -> &'static Vec<u16> {
    static V: std::sync::OnceLock<Vec<u16>> = std::sync::OnceLock::new();
    V.get_or_init(|| (0u16..=767).filter(|c| OsCode::from_u16(*c).is_some()).collect())
}

fn unrestricted_events(t: &mut Tape, b: &crate::gen::cfg::Built) -> Vec<Ev> {
    let src: Vec<u16> = b.src.iter().map(|n| kc(n)).collect();
    let pool: Vec<u16> = crate::gen::keys().names.iter().map(|(_, c)| *c).collect();
    let codes = valid_codes();
    let gaps = gap_set(b, &[40, 300, 1100]);
    let n = t.range(1, 60);
    let mut out = vec![];
    // Known findings F4a-c (chords v2 capacity assertions) are excluded by construction:
    // with chords v2 configured there are no floods and no press of a key that is already down.
    let chv2 = b.info.features.contains("chords-v2");
    let mut down: std::collections::BTreeSet<u16> = Default::default();
    let code = |t: &mut Tape| -> u16 {
        match t.pick(10) {
            0 => pool[t.pick(pool.len())],
            1 => codes[t.pick(codes.len())],
            _ => src[t.pick(src.len())],
        }
    };
    for _ in 0..n {
        match t.pick(40) {
            0 if !chv2 => {
                // flood: many events without a tick
                let m = *t.choose(&[33usize, 40, 70, 200, 1000, 5000]);
                let k1 = code(t);
                let k2 = code(t);
                let mode = t.pick(3);
                for i in 0..m {
                    let k = if i % 2 == 0 { k1 } else { k2 };
                    out.push(match mode {
                        0 => Ev::Press(k),
                        1 => {
                            if (i / 2) % 2 == 0 {
                                Ev::Press(k)
                            } else {
                                Ev::Release(k)
                            }
                        }
                        _ => Ev::Press(src[i % src.len()]),
                    });
                }
            }
            1 => out.push(Ev::Gap(*t.choose(&[65534u32, 65535, 65536, 70000, 11000]))),
            _ => {
                let g = gaps[t.pick(gaps.len())];
                if g > 0 {
                    out.push(Ev::Gap(g));
                }
                let k = code(t);
                let mut e = match t.pick(20) {
                    0..=8 => Ev::Press(k),
                    9..=16 => Ev::Release(k),
                    17 | 18 => Ev::Repeat(k),
                    _ => Ev::Tap(k),
                };
                if chv2 {
                    if g == 0 && out.len() % 8 == 7 {
                        out.push(Ev::Gap(1));
                    }
                    match e {
                        Ev::Press(k) => {
                            if !down.insert(k) {
                                down.remove(&k);
                                e = Ev::Release(k);
                            }
                        }
                        Ev::Release(k) => {
                            down.remove(&k);
                        }
                        _ => {}
                    }
                }
                out.push(e);
            }
        }
    }
    out
}

pub fn run_events(sim: &mut Sim, case: &GCase, probe: &mut dyn FnMut(&Sim)) {
    let mut tick = |sim: &mut Sim| {
        sim.tick();
        if case.loop_emu {
            let _ = sim.k.can_block_update_idle_waiting(1);
        }
    };
    for ev in &case.events {
        match ev {
            Ev::Press(k) => {
                sim.input(*k, KeyValue::Press);
            }
            Ev::Release(k) => {
                sim.input(*k, KeyValue::Release);
            }
            Ev::Repeat(k) => {
                sim.input(*k, KeyValue::Repeat);
            }
            Ev::Tap(k) => {
                sim.input(*k, KeyValue::Tap);
            }
            Ev::Gap(g) => {
                for _ in 0..*g {
                    tick(sim);
                    probe(sim);
                }
            }
        }
        if sim.outs.len() > 200_000 {
            sim.outs.clear();
        }
    }
}

/// The case a tape of choices denotes. Also the decoder of the coverage-guided tier
/// (fuzz/fuzz_targets/tape_c02.rs).
pub fn case_from_tape(tape: &[u16]) -> GCase {
    let (cfg_tape, ev_tape) = tape.split_at(tape.len() * 2 / 3);
    let b = build_cfg(cfg_tape, Profile::Boundary, true);
    let mut t = Tape::new(ev_tape);
    let loop_emu = t.chance(1, 2);
    let events = unrestricted_events(&mut t, &b);
    gcase_from(b, events, loop_emu)
}

impl TypedProp for C02 {
    type C = GCase;
    fn id(&self) -> &'static str {
        "C02"
    }
    fn info(&self) -> PropInfo {
        PropInfo {
            level: "exploration",
            rule: "configs: grammar-generated from the whole action grammar with acceptance-boundary numerics (0/1/65535 where accepted), nesting to depth 6, every list/atom action in every context (layer, alias, virtual key, chords v1/v2, tap-dance, fork, switch, multi, macro), aliases carrying actions into contexts; only configs the real parser accepts are executed. Histories: unrestricted press/release/repeat/tap events over defsrc keys, other keys and all valid key codes 0..=767, repeated presses, releases of keys that are up, floods of 33..5000 events without a tick, gaps at T-1/T/T+1 of every timeout and up to 70000 ms; half of the cases also call the idle-blocking decision every ms. Oracle: no panic, no error return, no abort, no hang (watchdog). Non-trivial: accepted config and a probe saw a pending tap-hold/tap-dance/chord, an active one-shot, a running macro, sequence mode, or >= 30 queued events / >= 60 states. Distinct: hash of (config, history).",
            assumptions: vec![
                "debug assertions and overflow checks are on (the profile the repository's tests use)".into(),
                "cmd / clipboard actions and sleeping delays > 2 ms are not executed (environment)".into(),
            ],
            extra: BTreeMap::new(),
        }
    }
    fn plan(&self, tier: Tier) -> Plan {
        Plan {
            n_cases: match tier {
                Tier::Quick => 120_000,
                Tier::Thorough => 4_000_000,
            },
            exhaustive: false,
            distinct_by_construction: false,
            required_classes: vec!["accepted", "waiting", "oneshot", "macro-running", "queue>=30", "flood", "loop-emu", "chords-v2"],
            hang_secs: 60,
        }
    }
    fn gen(&self, _tier: Tier, _seed: u64, _idx: u64) -> Gen<GCase> {
        Gen::Strat(0)
    }
    fn strategy(&self, _tier: Tier, _key: u32) -> BoxedStrategy<GCase> {
        prop::collection::vec(any::<u16>(), 0..700).prop_map(|tape| case_from_tape(&tape)).boxed()
    }
    fn judge(&self, case: &GCase) -> Verdict {
        let files: std::collections::HashMap<String, String> = case.files.iter().cloned().collect();
        let mut sim = match Sim::new_with_files(&case.cfg, files) {
            Ok(s) => s,
            Err(_) => return Verdict::discard("gen_rejected"),
        };
        let mut seen: [bool; 6] = [false; 6];
        {
            let mut probe = |s: &Sim| {
                let l = s.k.layout.b();
                if l.waiting.is_some() {
                    seen[0] = true;
                }
                if !l.oneshot.keys.is_empty() {
                    seen[1] = true;
                }
                if !l.active_sequences.is_empty() {
                    seen[2] = true;
                }
                if l.queue.len() >= 30 || l.states.len() >= 60 {
                    seen[3] = true;
                }
                if !s.k.sequence_state.is_inactive() {
                    seen[4] = true;
                }
                if let Some(c) = &l.chords_v2 {
                    if !c.is_idle_chv2() {
                        seen[5] = true;
                    }
                }
            };
            run_events(&mut sim, case, &mut probe);
            for _ in 0..300 {
                sim.tick();
                probe(&sim);
            }
        }
        let nontrivial = seen.iter().any(|x| *x);
        let mut v = Verdict::pass(nontrivial);
        v.classes.push("accepted");
        let names = ["waiting", "oneshot", "macro-running", "queue>=30", "sequence-mode", "chords-v2-pending"];
        for (i, n) in names.iter().enumerate() {
            if seen[i] {
                v.classes.push(n);
            }
        }
        if case.events.len() > 100 {
            v.classes.push("flood");
        }
        if case.loop_emu {
            v.classes.push("loop-emu");
        }
        if case.features.iter().any(|f| f == "chords-v2") {
            v.classes.push("chords-v2");
        }
        v
    }
    fn hang_is_violation(&self) -> bool {
        true
    }
    fn shrink_more(&self, case: &GCase, fails: &mut dyn FnMut(&GCase) -> bool) -> GCase {
        shrink_gcase(case, fails)
    }
}
