//! C19 — Dynamic macros replay what was typed and never leave a key down.
//!
//! A typing history is recorded with the real record / stop / play keys. Oracles:
//! (i) the saved recording (read through its Debug rendering) is exactly the physical events
//! typed between start and stop, minus the stop key and the truncated tail, plus releases of
//! what was still down; (ii) differential: a second kanata is driven through the same history
//! and then, instead of pressing play, gets the same events typed at the ticks at which the
//! replay injects them - the output must be the same; (iii) recursion guard, size limit,
//! termination and nothing left down.
use crate::engine::*;
use crate::sim::{code_of, fmt_outs, out_name, OsState, Out, OutEv, Sim};
use proptest::prelude::*;
use serde_json::{json, Value};
use std::collections::{BTreeMap, BTreeSet};

pub struct C19;

#[derive(Clone, Debug, PartialEq, Eq, Hash)]
pub struct DCase {
    /// time-sensitive mappings (tap-hold, tap-dance, one-shot) instead of plain ones
    pub sensitive: bool,
    /// dynamic-macro-replay-delay-behaviour recorded (else constant)
    pub recorded_mode: bool,
    pub max_presses: u16,
    /// parameter of dynamic-macro-record-stop-truncate
    pub trunc: u8,
    /// 0 record-stop, 1 record-stop-truncate, 2 record key of the same id, 3 record key of the other id
    pub stop_kind: u8,
    /// a typing key is already held when recording starts
    pub pre_hold: bool,
    /// macro 1 is recorded first (two taps) so that it can be played while recording macro 0
    pub with_macro1: bool,
    /// macro 1 contains a tap of its own play key
    pub macro1_self_play: bool,
    /// the stop key comes 12 ms (instead of 45 ms) after the last typed event: with the
    /// time-sensitive mappings a tap-hold / tap-dance decision may still be pending
    pub quick_stop: bool,
    /// typed while recording: (gap before, key): 0-3 typing keys (toggle), 4 play-0 tap, 5 play-1 tap
    pub typed: Vec<(u16, u8)>,
}

const TYPING: [&str; 4] = ["a", "b", "c", "d"];
const K_R0: &str = "f1";
const K_R1: &str = "f2";
const K_STOP: &str = "f3";
const K_STOPT: &str = "f4";
const K_P0: &str = "f5";
const K_P1: &str = "f6";

fn cfg_text(c: &DCase) -> String {
    let (l0, l1) = if c.sensitive {
        ("(tap-hold 0 30 x lsft) (tap-dance 30 (y z)) (one-shot 30 lalt) w", "1 2 3 4")
    } else {
        ("x S-y (layer-while-held l1) (multi lctl z)", "1 2 _ 3")
    };
    format!(
        "(defcfg log-layer-changes no dynamic-macro-max-presses {} dynamic-macro-replay-delay-behaviour {})\n(defsrc f1 f2 f3 f4 f5 f6 a b c d)\n(deflayer l0 (dynamic-macro-record 0) (dynamic-macro-record 1) dynamic-macro-record-stop (dynamic-macro-record-stop-truncate {}) (dynamic-macro-play 0) (dynamic-macro-play 1) {l0})\n(deflayer l1 _ _ _ _ _ _ {l1})\n",
        c.max_presses,
        if c.recorded_mode { "recorded" } else { "constant" },
        c.trunc
    )
}

impl Case for DCase {
    fn to_json(&self) -> Value {
        json!({"config": cfg_text(self), "sensitive": self.sensitive, "recorded_mode": self.recorded_mode, "max_presses": self.max_presses,
            "trunc": self.trunc, "stop_kind": self.stop_kind, "pre_hold": self.pre_hold, "with_macro1": self.with_macro1, "macro1_self_play": self.macro1_self_play, "quick_stop": self.quick_stop,
            "typed": self.typed.iter().map(|(g, k)| json!([g, k])).collect::<Vec<_>>()})
    }
    fn from_json(v: &Value) -> Option<Self> {
        Some(DCase {
            sensitive: v["sensitive"].as_bool()?,
            recorded_mode: v["recorded_mode"].as_bool()?,
            max_presses: v["max_presses"].as_u64()? as u16,
            trunc: v["trunc"].as_u64()? as u8,
            stop_kind: v["stop_kind"].as_u64()? as u8,
            pre_hold: v["pre_hold"].as_bool()?,
            with_macro1: v["with_macro1"].as_bool()?,
            quick_stop: v["quick_stop"].as_bool().unwrap_or(true),
            macro1_self_play: v["macro1_self_play"].as_bool().unwrap_or(false),
            typed: v["typed"].as_array()?.iter().map(|p| Some((p[0].as_u64()? as u16, p[1].as_u64()? as u8))).collect::<Option<Vec<_>>>()?,
        })
    }
    fn canon_hash(&self) -> u64 {
        use std::hash::{Hash, Hasher};
        let mut h = rustc_hash::FxHasher::default();
        self.hash(&mut h);
        h.finish()
    }
}

/// one physical input: (time ms, key code, press?)
type Inp = (u64, u16, bool);

struct Plan19 {
    /// everything up to and including the stop key's release
    prefix: Vec<Inp>,
    /// the inputs that are expected to be in the recording, in order, with the time to the next
    /// recorded input (the recorded delay); the stop key press is not included
    recorded: Vec<(u16, bool, u64)>,
    /// time of the play key press
    t_play: u64,
    self_play: bool,
    nested_play: bool,
    hit_limit: bool,
    stop_kind: u8,
    /// input time of the stop key's press
    stop_t: u64,
}

fn plan(c: &DCase) -> Plan19 {
    let mut t = 20u64;
    let mut ins: Vec<Inp> = vec![];
    let tap = |ins: &mut Vec<Inp>, t: &mut u64, key: &str, hold: u64, after: u64| {
        ins.push((*t, code_of(key), true));
        *t += hold;
        ins.push((*t, code_of(key), false));
        *t += after;
    };
    if c.with_macro1 {
        tap(&mut ins, &mut t, K_R1, 8, 12);
        tap(&mut ins, &mut t, "d", 8, 12);
        if c.macro1_self_play {
            tap(&mut ins, &mut t, K_P1, 8, 12);
        }
        tap(&mut ins, &mut t, K_STOP, 8, 60);
    }
    let mut down = [false; 4];
    if c.pre_hold {
        ins.push((t, code_of(TYPING[0]), true));
        down[0] = true;
        t += 60;
    }
    // start recording macro 0: the record key's release is the first recorded event
    let mut rec: Vec<(u64, u16, bool)> = vec![];
    ins.push((t, code_of(K_R0), true));
    t += 8;
    ins.push((t, code_of(K_R0), false));
    rec.push((t, code_of(K_R0), false));
    let mut self_play = false;
    let mut nested_play = false;
    for (gap, key) in &c.typed {
        t += (*gap as u64).max(1);
        match key % 6 {
            k @ 0..=3 => {
                let k = k as usize;
                down[k] = !down[k];
                ins.push((t, code_of(TYPING[k]), down[k]));
                rec.push((t, code_of(TYPING[k]), down[k]));
            }
            4 => {
                self_play = true;
                for p in [true, false] {
                    ins.push((t, code_of(K_P0), p));
                    rec.push((t, code_of(K_P0), p));
                    if p {
                        t += 2;
                    }
                }
            }
            _ => {
                nested_play = true;
                for p in [true, false] {
                    ins.push((t, code_of(K_P1), p));
                    rec.push((t, code_of(K_P1), p));
                    if p {
                        t += 2;
                    }
                }
            }
        }
    }
    // the size limit: a press arriving when more than 2 * max items are stored ends the recording
    // (items are stored with one event of lag)
    let mut hit_limit = false;
    {
        let mut stored = 0usize;
        let mut cut: Option<usize> = None;
        for (i, (_, _, p)) in rec.iter().enumerate() {
            if *p && stored > c.max_presses as usize * 2 {
                cut = Some(i);
                break;
            }
            // the previous event is stored when this one arrives
            if i > 0 {
                stored += 1;
            }
        }
        if let Some(i) = cut {
            hit_limit = true;
            // everything before the pending (lagging) event is kept
            rec.truncate(i.saturating_sub(1));
        } else if !rec.is_empty() && rec.len() - 1 > c.max_presses as usize * 2 {
            // the stop key's own press is a press too: it ends the recording by the limit, and
            // the stop action then finds nothing to stop
            hit_limit = true;
            let n = rec.len() - 1;
            rec.truncate(n);
        }
    }
    // stop: quiet before the stop key so that its press is handled before anything else arrives
    t += if c.quick_stop { 12 } else { 45 };
    let stop_kind = if hit_limit || c.max_presses < 128 { 0 } else { c.stop_kind % 4 };
    let stop_key = match stop_kind {
        0 => K_STOP,
        1 => K_STOPT,
        2 => K_R0,
        _ => K_R1,
    };
    ins.push((t, code_of(stop_key), true));
    t += 10;
    ins.push((t, code_of(stop_key), false));
    t += 10;
    if stop_kind == 3 {
        // a recording of macro 1 has begun: end it
        tap(&mut ins, &mut t, K_STOP, 10, 10);
    }
    // release what is physically still held, outside the recording
    for k in 0..4 {
        if down[k] {
            ins.push((t, code_of(TYPING[k]), false));
            t += 8;
        }
    }
    t += 150;
    let t_play = t;
    // recorded events with their delays
    let mut recorded: Vec<(u16, bool, u64)> = vec![];
    let stop_t = ins.iter().rev().find(|(_, k, p)| *k == code_of(stop_key) && *p).map(|x| x.0).unwrap_or(t);
    for (i, (tt, k, p)) in rec.iter().enumerate() {
        let next = rec.get(i + 1).map(|x| x.0).unwrap_or(stop_t);
        recorded.push((*k, *p, next - tt));
    }
    if !hit_limit && stop_kind == 1 {
        let n = recorded.len().saturating_sub(c.trunc as usize);
        recorded.truncate(n);
    }
    Plan19 { prefix: ins, recorded, t_play, self_play, nested_play, hit_limit, stop_kind, stop_t }
}

/// (press?, key) items parsed from the Debug rendering of the stored macro
fn stored_items(sim: &Sim, id: u16) -> Option<Vec<(bool, u16, u64)>> {
    let items = sim.k.dynamic_macros.get(&id)?;
    let mut out = vec![];
    for it in items {
        let s = format!("{it:?}");
        // Press((KEY_A, 12)) / Release((KEY_A, 0)) / EndMacro(1)
        let press = s.starts_with("Press");
        if !press && !s.starts_with("Release") {
            continue;
        }
        let inner = s.split("((").nth(1)?.trim_end_matches("))");
        let (k, d) = inner.split_once(", ")?;
        let code = kanata_state_machine::OsCode::from_u16(0).map(|_| ()).and(Some(())).and_then(|_| {
            // find the code whose Debug name matches
            (0u16..768).find(|c| kanata_state_machine::OsCode::from_u16(*c).map(|o| format!("{o:?}") == k).unwrap_or(false))
        })?;
        out.push((press, code, d.parse().ok()?));
    }
    Some(out)
}

/// Feeds the inputs; returns whether the layout still had unhandled events (a pending
/// tap-hold / tap-dance decision, a non-empty queue) when the input at `probe_t` arrived.
fn feed(sim: &mut Sim, ins: &[Inp], until: u64, probe_t: u64) -> bool {
    // inputs at time t are given before tick t+1
    let mut i = 0;
    let mut busy_at_probe = false;
    while sim.ticks < until {
        while i < ins.len() && ins[i].0 <= sim.ticks {
            if ins[i].0 == probe_t && ins[i].2 {
                let l = sim.k.layout.b();
                busy_at_probe = l.waiting.is_some() || !l.queue.is_empty();
            }
            if ins[i].2 {
                sim.press(ins[i].1);
            } else {
                sim.release(ins[i].1);
            }
            i += 1;
        }
        sim.tick();
    }
    busy_at_probe
}

fn seq_of(outs: &[Out]) -> Vec<String> {
    let mut os = OsState::default();
    outs.iter()
        .filter(|o| match o.ev {
            OutEv::Down(_) | OutEv::Up(_) => os.apply(o),
            _ => true,
        })
        .map(|o| match &o.ev {
            OutEv::Down(k) => format!("↓{}", out_name(*k)),
            OutEv::Up(k) => format!("↑{}", out_name(*k)),
            other => format!("{other:?}"),
        })
        .collect()
}

fn judge_case(c: &DCase) -> Verdict {
    let text = cfg_text(c);
    let p = plan(c);
    let mut sim = match Sim::new(&text) {
        Ok(s) => s,
        Err(e) => return Verdict::failed("harness:dynamic-macro-config-rejected", format!("{text}\n{e}")),
    };
    let fmt_in = |v: &[Inp]| v.iter().map(|(t, k, p)| format!("{}{}@{t}", if *p { "d:" } else { "u:" }, out_name(*k))).collect::<Vec<_>>().join(" ");
    let describe = |extra: &str| format!("{text}inputs: {}\n{extra}", fmt_in(&p.prefix));
    let stop_while_busy = feed(&mut sim, &p.prefix, p.t_play, p.stop_t);
    let mut v = Verdict::pass(false);
    // (iii) recording has ended, by the stop key or by the size limit
    if sim.k.dynamic_macro_record_state.is_some() {
        return Verdict::failed("dynmacro:still-recording-after-stop", describe(""));
    }
    let mut os = OsState::default();
    for o in &sim.outs {
        os.apply(o);
    }
    if os.anything_down() {
        return Verdict::failed("dynmacro:key-down-before-replay", describe(&format!("output: {}", fmt_outs(&sim.outs))));
    }
    // (i) the stored recording
    let Some(stored) = stored_items(&sim, 0) else {
        return Verdict::failed("dynmacro:nothing-stored", describe(""));
    };
    let fmt_items = |v: &[(bool, u16)]| v.iter().map(|(p, k)| format!("{}{}", if *p { "d:" } else { "u:" }, out_name(*k))).collect::<Vec<_>>().join(" ");
    let exp_main: Vec<(bool, u16)> = p.recorded.iter().map(|(k, pr, _)| (*pr, *k)).collect();
    let got_all: Vec<(bool, u16)> = stored.iter().map(|(pr, k, _)| (*pr, *k)).collect();
    // keys still down at the end of the expected part are released at the end, in any order
    let mut still: BTreeSet<u16> = BTreeSet::new();
    for (pr, k) in &exp_main {
        if *pr {
            still.insert(*k);
        } else {
            still.remove(k);
        }
    }
    if p.hit_limit {
        v.classes.push("size-limit-hit");
        // the recording must be a prefix of what was typed, no longer than the limit allows
        let main_len = got_all.len().saturating_sub(0);
        let typed_all: Vec<(bool, u16)> = exp_main.clone();
        let _ = typed_all;
        if main_len > c.max_presses as usize * 2 + 2 + 4 {
            return Verdict::failed("dynmacro:size-limit-exceeded", describe(&format!("limit {} presses, stored {} items: {}", c.max_presses, got_all.len(), fmt_items(&got_all))));
        }
    }
    let split = exp_main.len().min(got_all.len());
    let (got_main, got_tail) = got_all.split_at(split);
    let tail_ok = got_tail.iter().all(|(pr, _)| !*pr) && got_tail.iter().map(|(_, k)| *k).collect::<BTreeSet<u16>>() == still && got_tail.len() == still.len();
    if got_main != exp_main.as_slice() || !tail_ok {
        // F47: the stop key's press is only taken out of the recording if nothing else was
        // recorded before the stop action ran - e.g. its own release while a tap-hold decision
        // kept the event queue waiting
        return Verdict::failed(
            if stop_while_busy {
                "dynmacro:recording-differs-from-typed:stop-pressed-while-decision-pending"
            } else if p.hit_limit {
                "dynmacro:recording-differs-from-typed:size-limit"
            } else {
                "dynmacro:recording-differs-from-typed"
            },
            describe(&format!("expected recording: {} + releases of {:?}\nstored recording  : {}", fmt_items(&exp_main), still.iter().map(|k| out_name(*k)).collect::<Vec<_>>(), fmt_items(&got_all))),
        );
    }
    // stopped by the other macro's record key: that press also started a recording of macro 1, which the
    // stop key tapped right afterwards ended: it holds the record key's release and nothing else
    if p.stop_kind == 3 && !p.hit_limit && !stop_while_busy && !c.sensitive {
        let m1: Vec<(bool, u16)> = stored_items(&sim, 1).unwrap_or_default().iter().map(|(pr, k, _)| (*pr, *k)).collect();
        // keys physically held across both recordings are released at its end
        let mut want1: Vec<(bool, u16)> = vec![(false, code_of(K_R1))];
        let extra: Vec<(bool, u16)> = m1.iter().skip(1).copied().collect();
        let extra_ok = extra.iter().all(|(pr, k)| !*pr && TYPING.iter().any(|t| code_of(t) == *k));
        if m1.first() != want1.first() || !extra_ok {
            want1.extend(extra.iter().filter(|(pr, _)| !*pr));
            return Verdict::failed(
                "dynmacro:recording-started-by-the-other-record-key-differs",
                describe(&format!("macro 1, started by the press of its record key that ended macro 0 and stopped right away, holds: {} (expected: the record key's release, then at most releases of typing keys)", fmt_items(&m1))),
            );
        }
        v.classes.push("second-recording-started-by-stop-compared");
    }
    // recorded delays: the time to the next recorded event
    for (i, ((_, _, d_exp), (_, _, d_got))) in p.recorded.iter().zip(stored.iter()).enumerate() {
        // (a macro played while recording runs its recorded delays inside single ticks)
        if !p.nested_play && !p.self_play && i + 1 < p.recorded.len() && d_exp != d_got {
            return Verdict::failed("dynmacro:recorded-delay-differs", describe(&format!("item #{i}: {d_exp} ms passed until the next event, {d_got} recorded")));
        }
    }
    // (ii) replay vs typing the same events
    let n_before = sim.outs.len();
    sim.press(code_of(K_P0));
    let n_items = stored.len() as u64;
    let total_delay: u64 = stored.iter().map(|x| x.2).sum();
    let budget = 6 * n_items + total_delay + 400 + if p.nested_play { 200 } else { 0 };
    let mut finished_at = None;
    for i in 0..budget {
        sim.tick();
        if sim.k.dynamic_macro_replay_state.is_none() && finished_at.is_none() {
            finished_at = Some(i);
        }
    }
    sim.release(code_of(K_P0));
    sim.tick_n(120);
    if finished_at.is_none() || sim.k.dynamic_macro_replay_state.is_some() {
        return Verdict::failed(if p.self_play { "dynmacro:replays-itself:replay-does-not-end" } else { "dynmacro:replay-does-not-end" }, describe(&format!("still replaying {budget} ticks after the play key; output tail: {}", fmt_outs(&sim.outs[sim.outs.len().saturating_sub(20)..]))));
    }
    let replay_outs: Vec<Out> = sim.outs[n_before..].to_vec();
    let mut os = OsState::default();
    for o in &sim.outs {
        os.apply(o);
    }
    if os.anything_down() {
        return Verdict::failed(if p.self_play { "dynmacro:replays-itself:key-left-down" } else { "dynmacro:key-left-down-after-replay" }, describe(&format!("replay output: {}\nstill down: {:?}", fmt_outs(&replay_outs), os.keys.iter().map(|k| out_name(*k)).collect::<Vec<_>>())));
    }
    // another macro played from inside the recording is replayed inline, every time: with plain mappings,
    // macro 1 = taps of `d`, and no `d` typed in macro 0 itself, the replay presses d's output once per
    // play of macro 1 and per `d` tap in it
    if p.nested_play && !p.self_play && !p.hit_limit && !c.sensitive && !stop_while_busy {
        let d = code_of("d");
        let m1 = stored_items(&sim, 1).unwrap_or_default();
        let m1_plays = m1.iter().any(|(_, k, _)| *k == code_of(K_P0) || *k == code_of(K_P1));
        let d_in_0 = stored.iter().any(|(_, k, _)| *k == d);
        if !m1_plays && !d_in_0 {
            let m1_d = m1.iter().filter(|(pr, k, _)| *pr && *k == d).count();
            let n_p1 = stored.iter().filter(|(pr, k, _)| *pr && *k == code_of(K_P1)).count();
            let d_outs = [code_of("z"), code_of("3")];
            let got = replay_outs.iter().filter(|o| matches!(o.ev, OutEv::Down(k) if d_outs.contains(&k))).count();
            if got != m1_d * n_p1 {
                return Verdict::failed(
                    "dynmacro:nested-play-not-replayed-every-time",
                    describe(&format!("macro 0 plays macro 1 {n_p1} time(s), macro 1 taps d {m1_d} time(s), but the replay pressed d's output {got} time(s)\nreplay output: {}", fmt_outs(&replay_outs))),
                );
            }
            if n_p1 >= 2 && m1_d >= 1 {
                v.classes.push("nested-macro-played-twice-counted");
            }
        }
    }
    if p.self_play {
        v.classes.push("plays-itself-while-recording");
    }
    if p.nested_play {
        v.classes.push("plays-other-macro-while-recording");
        if c.macro1_self_play {
            v.classes.push("nested-macro-contains-its-own-play-key");
        }
    }
    v.classes.push(if c.recorded_mode { "delay:recorded" } else { "delay:constant" });
    v.classes.push(if c.sensitive { "time-sensitive-mapping" } else { "time-insensitive-mapping" });
    v.classes.push(match p.stop_kind {
        0 => "stop:record-stop",
        1 => "stop:truncate",
        2 => "stop:same-record-key",
        _ => "stop:other-record-key",
    });
    if c.pre_hold {
        v.classes.push("key-held-across-start");
    }
    if stop_while_busy {
        v.classes.push("stop-pressed-while-decision-pending");
    }
    if !still.is_empty() {
        v.classes.push("key-held-across-stop");
    }
    if !p.self_play && !p.nested_play {
        // reference: the same history, then the stored events typed at the replay's pace
        let mut r = Sim::new(&text).expect("parsed before");
        let _ = feed(&mut r, &p.prefix, p.t_play, u64::MAX);
        let n_ref = r.outs.len();
        // the play key is handled in the next tick and the first item is injected in that tick
        r.tick();
        for (i, (pr, k, d)) in stored.iter().enumerate() {
            if *pr {
                r.press(*k);
            } else {
                r.release(*k);
            }
            let ticks = if c.recorded_mode { (*d).max(1) } else { 5 };
            // in recorded mode a stored delay of 0 still takes one tick (the countdown is
            // clamped at 0 and the next item comes with the next tick)
            let _ = i;
            r.tick_n(ticks);
        }
        r.tick_n(400);
        let ref_outs: Vec<Out> = r.outs[n_ref..].to_vec();
        let a = seq_of(&replay_outs);
        let b = seq_of(&ref_outs);
        // the trailing releases of keys still held come in no particular order
        let n_tail = still.len();
        let cut = |s: &Vec<String>| -> (Vec<String>, Vec<String>) {
            if n_tail <= 1 {
                return (s.clone(), vec![]);
            }
            // order-insensitive comparison of everything after the last press
            let last_press = s.iter().rposition(|x| x.starts_with('↓')).map(|i| i + 1).unwrap_or(0);
            let mut tail = s[last_press..].to_vec();
            tail.sort();
            (s[..last_press].to_vec(), tail)
        };
        if cut(&a) != cut(&b) {
            return Verdict::failed(
                "dynmacro:replay-output-differs-from-typing",
                describe(&format!("stored recording: {}\nreplay output : {}\ntyping output : {}", stored.iter().map(|(p, k, d)| format!("{}{}+{d}", if *p { "d:" } else { "u:" }, out_name(*k))).collect::<Vec<_>>().join(" "), a.join(" "), b.join(" "))),
            );
        }
        v.classes.push("replay-compared-with-typing");
        v.nontrivial = stored.len() >= 4;
    } else {
        v.nontrivial = true;
    }
    v
}

impl TypedProp for C19 {
    type C = DCase;
    fn id(&self) -> &'static str {
        "C19"
    }
    fn info(&self) -> PropInfo {
        PropInfo {
            level: "exploration",
            rule: "configs: record keys for two macro ids, record-stop, record-stop-truncate K (K 0-3), play keys for both ids, four typing keys with time-insensitive mappings (key, output chord, layer-while-held, multi) or time-sensitive ones (tap-hold, tap-dance, one-shot, 30 ms); dynamic-macro-max-presses 128 or 1-5; replay delay behaviour constant or recorded. Histories: optionally macro 1 recorded first (optionally with a tap of its own play key inside), optionally a typing key held across the start; record 0; 0-15 typed events (toggling presses/releases of the typing keys with gaps 1-60 ms incl. 29/30/31, taps of the play key of the macro being recorded and of the other macro); stop by record-stop, -truncate, the same or the other record key, 12 or 45 ms after the last event; release what is held; play 0. Oracles: (i) the stored recording (read from its Debug rendering) equals the physical events between start and stop in order, without the stop key's press and the truncated tail, followed by releases of exactly the keys still down (any order), with each recorded delay equal to the time to the next event; when the other macro's record key ended the recording, the recording that press started (and the stop key ended right away) holds that key's release and nothing typed; (ii) differential: a second kanata is driven through the same history and then gets the stored events typed at the ticks at which the replay injects them (every 5 ticks, or after the recorded delays) instead of the play key: the OS output sequences must be equal (trailing releases as a set); with plain mappings a macro played from inside the recording is replayed inline every time (the replay presses its key's output once per play); (iii) the replay ends, nothing is left down, a recording that contains its own play key does not loop, and beyond the size limit recording has ended by itself with at most 2*max+2 items that are a prefix of what was typed. Non-trivial: the recording has >= 4 items, or a play key was typed while recording. Distinct: hash of the case.".into(),
            assumptions: vec!["with play keys inside the recording only (i) and (iii) are checked: typing a play key starts an asynchronous replay, replaying it inlines the other macro".into()],
            extra: BTreeMap::new(),
        }
    }
    fn plan(&self, tier: Tier) -> Plan {
        Plan {
            n_cases: match tier {
                Tier::Quick => 400_000,
                Tier::Thorough => 12_000_000,
            },
            exhaustive: false,
            distinct_by_construction: false,
            required_classes: vec!["delay:constant", "delay:recorded", "replay-compared-with-typing", "size-limit-hit", "plays-itself-while-recording", "plays-other-macro-while-recording", "nested-macro-contains-its-own-play-key", "stop:truncate", "stop:same-record-key", "stop:other-record-key", "second-recording-started-by-stop-compared", "nested-macro-played-twice-counted", "key-held-across-start", "key-held-across-stop", "time-sensitive-mapping"],
            hang_secs: 60,
        }
    }
    fn gen(&self, _tier: Tier, _seed: u64, _idx: u64) -> Gen<DCase> {
        Gen::Strat(0)
    }
    fn strategy(&self, _tier: Tier, _key: u32) -> BoxedStrategy<DCase> {
        (
            any::<bool>(),
            any::<bool>(),
            prop_oneof![3 => Just(128u16), 1 => 1u16..6],
            0u8..4,
            0u8..4,
            prop::bool::weighted(0.3),
            prop::bool::weighted(0.3),
            prop::bool::weighted(0.25),
            prop::bool::weighted(0.4),
            prop::collection::vec((0u8..8, prop_oneof![12 => 0u8..4, 1 => Just(4u8), 1 => Just(5u8)]), 0..16),
        )
            .prop_map(|(sensitive, recorded_mode, max_presses, trunc, stop_kind, pre_hold, with_macro1, quick_stop, macro1_self_play, raw)| {
                let gaps: [u16; 8] = if sensitive { [1, 2, 5, 10, 29, 30, 31, 60] } else { [1, 2, 5, 6, 10, 31, 3, 8] };
                // (with a small size limit the recording ends by itself and a play key typed after
                // that would really play: no play keys then)
                let typed = raw.into_iter().map(|(g, k)| (gaps[g as usize % 8], if (k == 5 && !with_macro1) || (k >= 4 && max_presses < 128) { 0 } else { k })).collect();
                DCase {
                    sensitive,
                    recorded_mode,
                    max_presses,
                    trunc,
                    stop_kind,
                    pre_hold,
                    with_macro1,
                    quick_stop,
                    macro1_self_play: macro1_self_play && with_macro1,
                    typed,
                }
            })
            .boxed()
    }
    fn judge(&self, case: &DCase) -> Verdict {
        judge_case(case)
    }
}
