//! The verification harness as a library (the `vcheck` binary and the fuzz targets use it).
pub mod corpus;
pub mod engine;
pub mod props;
pub mod sexpr;
pub mod sim;
#[allow(dead_code)]
pub mod model;
#[allow(dead_code)]
pub mod gen;
