//! Grammar-based generator for whole kanata configurations (DESIGN.md §3.1,
//! Appendix E).  A configuration is built by ordinary recursive code that
//! consumes a "tape" of u16 choices produced by proptest; choice 0 is always
//! the simplest alternative, so shrinking the tape (shorter, smaller values)
//! shrinks the configuration.
use std::collections::BTreeSet;

pub struct Tape<'a> {
    data: &'a [u16],
    pos: usize,
}
impl<'a> Tape<'a> {
    pub fn new(data: &'a [u16]) -> Self {
        Tape { data, pos: 0 }
    }
    pub fn raw(&mut self) -> u16 {
        let v = self.data.get(self.pos).copied().unwrap_or(0);
        self.pos += 1;
        v
    }
    /// uniform in 0..n (0 when the tape is exhausted)
    pub fn pick(&mut self, n: usize) -> usize {
        if n <= 1 {
            return 0;
        }
        ((self.raw() as usize) * n) >> 16
    }
    /// true with probability num/den (false when exhausted)
    pub fn chance(&mut self, num: usize, den: usize) -> bool {
        self.pick(den) >= den - num
    }
    pub fn range(&mut self, lo: usize, hi: usize) -> usize {
        lo + self.pick(hi - lo + 1)
    }
    pub fn choose<'b, T>(&mut self, xs: &'b [T]) -> &'b T {
        &xs[self.pick(xs.len())]
    }
    pub fn exhausted(&self) -> bool {
        self.pos >= self.data.len()
    }
}

#[derive(Clone, Copy, Debug, PartialEq, Eq)]
pub enum Profile {
    /// plausible configs with small timeouts and balanced (non-latching) virtual key use: C01 C07 C14
    Plausible,
    /// acceptance-boundary numerics, deep nesting, every action in every context: C02
    Boundary,
}

#[derive(Clone, Debug, Default)]
pub struct Info {
    /// every timeout-like number that occurs (for gap selection and the settle bound)
    pub timeouts: Vec<u32>,
    /// sum of all macro delays + steps
    pub macro_ticks: u64,
    pub features: BTreeSet<&'static str>,
    pub vkeys: Vec<String>,
    pub n_layers: usize,
}

pub struct Built {
    pub text: String,
    pub files: Vec<(String, String)>,
    pub src: Vec<&'static str>,
    pub info: Info,
}

pub const SRC_POOL: [&str; 12] = ["a", "b", "c", "d", "e", "f", "g", "h", "i", "j", "k", "l"];
const OUT_KEYS: [&str; 22] = [
    "m", "n", "o", "p", "q", "r", "s", "t", "u", "v", "w", "x", "y", "z", "1", "2", "3", "spc", "ret", "bspc", "tab", "esc",
];
const MOD_KEYS: [&str; 8] = ["lsft", "lctl", "lalt", "lmet", "rsft", "rctl", "ralt", "rmet"];
const PREFIXES: [&str; 8] = ["S-", "C-", "A-", "M-", "RS-", "RC-", "RA-", "RM-"];

struct G<'a, 'b> {
    t: &'b mut Tape<'a>,
    p: Profile,
    src: Vec<&'static str>,
    n_layers: usize,
    vkeys: Vec<String>,
    aliases: Vec<String>,
    chord_groups: Vec<(String, Vec<&'static str>)>,
    info: Info,
    has_chords_v2: bool,
    /// dynamic macros / reload / latching allowed
    allow_latching: bool,
}

#[derive(Clone, Copy)]
struct Ctx {
    depth: usize,
    /// a "waiting" action (tap-hold, lazy tap-dance, chord) may appear here
    waiting_ok: bool,
    in_multi: bool,
    /// inside tap position of a tap-hold (no tap-hold allowed)
    no_taphold: bool,
    /// aliases usable (not inside defvirtualkeys)
    alias_ok: bool,
    /// virtual key ops referencing vkeys allowed (vkeys defined)
    in_vkey_def: bool,
    /// `_` is forbidden (chords v2 results)
    no_trans: bool,
}

impl<'a, 'b> G<'a, 'b> {
    fn feat(&mut self, f: &'static str) {
        self.info.features.insert(f);
    }
    fn timeout(&mut self, small_max: usize) -> u32 {
        let v = match self.p {
            Profile::Plausible => self.t.range(1, small_max) as u32,
            // 0 is normally rejected by the parser; it is still tried so that a relaxed parser-side
            // check (which the run-time arithmetic relies on) is noticed: only accepted configs run
            Profile::Boundary if self.t.chance(1, 60) => 0,
            Profile::Boundary => match self.t.pick(8) {
                0 => 1,
                1 => 2,
                2 => 65535,
                3 => 65534,
                4 => 300,
                _ => self.t.range(1, small_max) as u32,
            },
        };
        self.info.timeouts.push(v);
        v
    }
    /// timeout that may legally be 0 (tap-hold tap timeout)
    fn timeout0(&mut self) -> u32 {
        if self.t.chance(1, 2) {
            0
        } else {
            self.timeout(30)
        }
    }
    fn out_key(&mut self) -> &'static str {
        if self.t.chance(1, 5) {
            MOD_KEYS[self.t.pick(MOD_KEYS.len())]
        } else {
            OUT_KEYS[self.t.pick(OUT_KEYS.len())]
        }
    }
    fn any_key(&mut self) -> &'static str {
        match self.t.pick(3) {
            0 => OUT_KEYS[self.t.pick(OUT_KEYS.len())],
            1 => MOD_KEYS[self.t.pick(MOD_KEYS.len())],
            _ => SRC_POOL[self.t.pick(SRC_POOL.len())],
        }
    }
    fn chord_text(&mut self) -> String {
        let n = self.t.range(1, 2);
        let mut used: Vec<usize> = vec![];
        let mut s = String::new();
        for _ in 0..n {
            let i = self.t.pick(PREFIXES.len());
            if !used.contains(&i) {
                used.push(i);
                s.push_str(PREFIXES[i]);
            }
        }
        s.push_str(OUT_KEYS[self.t.pick(OUT_KEYS.len())]);
        s
    }
    fn layer_name(&mut self) -> String {
        format!("l{}", self.t.pick(self.n_layers))
    }
    fn held_layer_name(&mut self) -> String {
        if self.n_layers > 1 {
            format!("l{}", 1 + self.t.pick(self.n_layers - 1))
        } else {
            "l0".into()
        }
    }
    fn key_list(&mut self, lo: usize, hi: usize) -> String {
        let n = self.t.range(lo, hi);
        let mut v: Vec<&str> = vec![];
        for _ in 0..n {
            let k = self.any_key();
            if !v.contains(&k) {
                v.push(k);
            }
        }
        format!("({})", v.join(" "))
    }

    fn simple(&mut self) -> String {
        match self.t.pick(6) {
            0 | 1 | 2 => self.out_key().to_string(),
            3 => self.chord_text(),
            4 => format!("(layer-while-held {})", self.held_layer_name()),
            _ => "XX".to_string(),
        }
    }

    fn vkey_op(&mut self, ctx: Ctx) -> Option<String> {
        if self.vkeys.is_empty() || ctx.in_vkey_def {
            return None;
        }
        let v = self.vkeys[self.t.pick(self.vkeys.len())].clone();
        self.feat("vkey-op");
        let latching = self.allow_latching;
        Some(match self.t.pick(if latching { 9 } else { 5 }) {
            0 => format!("(on-press tap-vkey {v})"),
            1 => format!("(on-release tap-vkey {v})"),
            2 => {
                if ctx.in_multi {
                    format!("(on-press tap-vkey {v})")
                } else {
                    // balanced press/release on the same physical key
                    format!("(multi (on-press press-vkey {v}) (on-release release-vkey {v}))")
                }
            }
            3 => {
                let d = self.timeout(40);
                self.feat("hold-for-duration");
                format!("(hold-for-duration {d} {v})")
            }
            4 => {
                let d = self.timeout(40);
                self.feat("on-idle");
                format!("(on-idle {d} tap-vkey {v})")
            }
            5 => format!("(on-press press-vkey {v})"),
            6 => format!("(on-press toggle-vkey {v})"),
            7 => format!("(on-release release-vkey {v})"),
            _ => {
                let d = self.t.range(0, 50);
                format!("(on-idle-fakekey {v} {} {d})", *self.t.choose(&["tap", "press", "release"]))
            }
        })
    }

    fn macro_items(&mut self, depth: usize) -> String {
        let n = self.t.range(1, 5);
        let mut items: Vec<String> = vec![];
        for _ in 0..n {
            let it = match self.t.pick(if depth < 2 { 9 } else { 5 }) {
                0 | 1 => {
                    // digits are delays in macros: use letters / named keys only
                    let k = loop {
                        let k = self.out_key();
                        if !k.chars().all(|c| c.is_ascii_digit()) {
                            break k;
                        }
                    };
                    self.info.macro_ticks += 2;
                    k.to_string()
                }
                2 => {
                    let d = match self.p {
                        Profile::Plausible => self.t.range(1, 30) as u32,
                        Profile::Boundary => *self.t.choose(&[1u32, 5, 40, 65535, 300]),
                    };
                    self.info.macro_ticks += d as u64;
                    d.to_string()
                }
                3 => {
                    self.info.macro_ticks += 6;
                    let c = self.chord_text();
                    if c.ends_with(|ch: char| ch.is_ascii_digit()) {
                        "S-m".to_string()
                    } else {
                        c
                    }
                }
                4 => {
                    self.info.macro_ticks += 2;
                    format!("🔣{}", *self.t.choose(&["é", "x", "🙂"]))
                }
                5 => {
                    let pre = PREFIXES[self.t.pick(PREFIXES.len())];
                    self.info.macro_ticks += 2;
                    format!("{pre}({})", self.macro_items(depth + 1))
                }
                6 => format!("({})", self.macro_items(depth + 1)),
                7 => {
                    self.info.macro_ticks += 2;
                    match self.t.pick(8) {
                        0 => "mltp".to_string(),
                        1 => "mrtp".to_string(),
                        2 => "mwu".to_string(),
                        3 => "sldr".to_string(),
                        4 => "rpt".to_string(),
                        // custom actions with a press and a release handler inside a macro
                        5 => format!("(mwheel-up {} 120)", self.t.range(1, 20)),
                        6 => "mlft".to_string(),
                        _ => format!("(movemouse-left {} 3)", self.t.range(1, 10)),
                    }
                }
                _ => match self.vkeys.is_empty() {
                    true => "n".to_string(),
                    false => {
                        self.info.macro_ticks += 3;
                        let v = self.vkeys[self.t.pick(self.vkeys.len())].clone();
                        format!("(on-press tap-vkey {v})")
                    }
                },
            };
            items.push(it);
        }
        items.join(" ")
    }

    fn action(&mut self, ctx: Ctx) -> String {
        let maxd = if self.p == Profile::Boundary { 6 } else { 3 };
        if ctx.depth >= maxd || self.t.exhausted() {
            return self.simple();
        }
        let c = Ctx {
            depth: ctx.depth + 1,
            ..ctx
        };
        let inner = Ctx { in_multi: false, ..c };
        let k = self.t.pick(46);
        match k {
            0..=7 => self.simple(),
            // A `_` nested inside another action can resolve to the very cell that contains it when
            // a layer is in the stack twice (known finding F30): plausible configs use `_` as a
            // plain cell only.
            8 if !ctx.no_trans && (self.p == Profile::Boundary || ctx.depth == 0) => "_".into(),
            9 => "use-defsrc".into(),
            10 => format!("(layer-switch {})", self.layer_name()),
            11 | 12 if ctx.waiting_ok && !ctx.no_taphold => {
                self.feat("tap-hold");
                let names = [
                    "tap-hold", "tap-hold-press", "tap-hold-release", "tap-hold-press-timeout", "tap-hold-release-timeout",
                    "tap-hold-release-keys", "tap-hold-except-keys",
                ];
                let vi = self.t.pick(names.len());
                let tt = self.timeout0();
                let ht = self.timeout(40);
                let tap = self.action(Ctx { no_taphold: true, waiting_ok: false, ..inner });
                let hold = self.action(Ctx { waiting_ok: false, ..inner });
                let extra = match vi {
                    3 | 4 => format!(" {}", self.action(Ctx { waiting_ok: false, ..inner })),
                    5 | 6 => format!(" {}", self.key_list(0, 3)),
                    _ => String::new(),
                };
                format!("({} {tt} {ht} {tap} {hold}{extra})", names[vi])
            }
            13 if !ctx.in_multi => {
                self.feat("multi");
                let n = self.t.range(2, 4);
                let mut parts = vec![];
                let mut waiting_used = false;
                for _ in 0..n {
                    // a multi written inside a multi (the parser flattens it)
                    if self.t.chance(1, 6) {
                        let (k1, k2) = (self.out_key(), self.out_key());
                        parts.push(format!("(multi {k1} {k2})"));
                        continue;
                    }
                    let w = ctx.waiting_ok && !waiting_used;
                    let a = self.action(Ctx { in_multi: true, waiting_ok: w, ..c });
                    if a.starts_with("(tap-hold") || a.starts_with("(tap-dance ") || a.starts_with("(chord ") {
                        waiting_used = true;
                    }
                    parts.push(a);
                }
                if self.t.chance(1, 8) {
                    parts.push("reverse-release-order".into());
                }
                format!("(multi {})", parts.join(" "))
            }
            14 | 15 => {
                self.feat("macro");
                let names = [
                    "macro", "macro-repeat", "macro-release-cancel", "macro-repeat-release-cancel", "macro-cancel-on-press",
                    "macro-repeat-cancel-on-press", "macro-release-cancel-and-cancel-on-press",
                    "macro-repeat-release-cancel-and-cancel-on-press",
                ];
                let mut vi = self.t.pick(names.len());
                if self.p == Profile::Plausible && self.has_chords_v2 && names[vi].contains("repeat") {
                    // known finding F32 (repeating macro + chords v2 never stops): excluded by construction
                    vi = 0;
                }
                if names[vi].contains("repeat") {
                    self.feat("macro-repeat");
                }
                format!("({} {})", names[vi], self.macro_items(0))
            }
            16 => {
                self.feat("unicode");
                format!("(unicode {})", *self.t.choose(&["é", "x", "🙂", "r#\"(\"#"]))
            }
            17 | 18 => {
                self.feat("one-shot");
                let names = ["one-shot", "one-shot-press", "one-shot-release", "one-shot-press-pcancel", "one-shot-release-pcancel"];
                let vi = self.t.pick(names.len());
                let t = self.timeout(40);
                let innerk = match self.t.pick(3) {
                    0 => MOD_KEYS[self.t.pick(MOD_KEYS.len())].to_string(),
                    1 => self.chord_text(),
                    _ => format!("(layer-while-held {})", self.held_layer_name()),
                };
                format!("({} {t} {innerk})", names[vi])
            }
            19 => {
                self.feat("one-shot-pause");
                format!("(one-shot-pause-processing {})", self.timeout(20))
            }
            20 | 21 if ctx.waiting_ok || self.t.chance(1, 2) => {
                let eager = !ctx.waiting_ok || self.t.chance(1, 2);
                self.feat(if eager { "tap-dance-eager" } else { "tap-dance" });
                let t = self.timeout(30);
                // an empty action list is tried at the acceptance boundary
                let n = if self.p == Profile::Boundary && self.t.chance(1, 25) { 0 } else { self.t.range(1, 4) };
                let acts: Vec<String> = (0..n).map(|_| self.action(Ctx { waiting_ok: false, ..inner })).collect();
                format!("({} {t} ({}))", if eager { "tap-dance-eager" } else { "tap-dance" }, acts.join(" "))
            }
            22 if ctx.waiting_ok && !self.chord_groups.is_empty() => {
                self.feat("chord-v1");
                let gi = self.t.pick(self.chord_groups.len());
                let (g, keys) = self.chord_groups[gi].clone();
                let k = keys[self.t.pick(keys.len())];
                format!("(chord {g} {k})")
            }
            23 => format!("(release-key {})", self.out_key()),
            24 => format!("(release-layer {})", self.layer_name()),
            25 | 26 => match self.vkey_op(ctx) {
                Some(s) => s,
                None => self.simple(),
            },
            27 => {
                self.feat("mouse-button");
                (*self.t.choose(&["mlft", "mrgt", "mmid", "mfwd", "mbck", "mltp", "mrtp", "mmtp"])).to_string()
            }
            28 => {
                self.feat("mouse-wheel");
                let dir = *self.t.choose(&["mwheel-up", "mwheel-down", "mwheel-left", "mwheel-right"]);
                let interval = self.timeout(30);
                let dist = match self.p {
                    Profile::Plausible => self.t.range(1, 240),
                    Profile::Boundary => if self.t.chance(1, 30) { *self.t.choose(&[30001usize, 0]) } else { *self.t.choose(&[1usize, 120, 30000]) },
                };
                format!("({dir} {interval} {dist})")
            }
            29 => {
                self.feat("mouse-move");
                match self.t.pick(4) {
                    0 | 1 => {
                        let dir = *self.t.choose(&["movemouse-up", "movemouse-down", "movemouse-left", "movemouse-right"]);
                        let interval = self.timeout(20);
                        let dist = match self.p {
                            Profile::Plausible => self.t.range(1, 20),
                            Profile::Boundary => if self.t.chance(1, 30) { *self.t.choose(&[30001usize, 0]) } else { *self.t.choose(&[1usize, 30000, 5]) },
                        };
                        format!("({dir} {interval} {dist})")
                    }
                    2 => {
                        let dir = *self.t.choose(&[
                            "movemouse-accel-up", "movemouse-accel-down", "movemouse-accel-left", "movemouse-accel-right",
                        ]);
                        let interval = self.timeout(20);
                        let at = self.timeout(100);
                        let min = self.t.range(1, 5);
                        let max = min + self.t.range(0, 20);
                        format!("({dir} {interval} {at} {min} {max})")
                    }
                    _ => format!("(movemouse-speed {})", self.t.range(1, 300)),
                }
            }
            30 => {
                self.feat("fork");
                let l = self.action(Ctx { waiting_ok: false, ..inner });
                let r = self.action(Ctx { waiting_ok: false, ..inner });
                format!("(fork {l} {r} {})", self.key_list(1, 3))
            }
            31 | 32 => {
                self.feat("switch");
                let n = self.t.range(1, 4);
                let mut s = String::from("(switch");
                for _ in 0..n {
                    let cond = self.switch_cond(0);
                    let a = self.action(Ctx { waiting_ok: false, ..inner });
                    let br = if self.t.chance(1, 2) { "break" } else { "fallthrough" };
                    s.push_str(&format!(" ({cond}) {a} {br}"));
                }
                s.push(')');
                s
            }
            33 => {
                self.feat("caps-word");
                match self.t.pick(4) {
                    0 => format!("(caps-word {})", self.timeout(60)),
                    1 => format!("(caps-word-toggle {})", self.timeout(60)),
                    2 => format!("(caps-word-custom {} {} {})", self.timeout(60), self.key_list(1, 3), self.key_list(0, 3)),
                    _ => format!("(caps-word-custom-toggle {} {} {})", self.timeout(60), self.key_list(1, 3), self.key_list(0, 3)),
                }
            }
            34 => {
                self.feat("sequence-leader");
                match self.t.pick(3) {
                    0 => "sldr".into(),
                    1 => format!("(sequence {})", self.timeout(60)),
                    _ => format!(
                        "(sequence {} {})",
                        self.timeout(60),
                        *self.t.choose(&["visible-backspaced", "hidden-suppressed", "hidden-delay-type"])
                    ),
                }
            }
            35 => {
                self.feat("unmod");
                match self.t.pick(3) {
                    0 => format!("(unmod {})", self.out_key()),
                    1 => format!("(unshift {})", self.out_key()),
                    _ => format!("(unmod ({}) {})", MOD_KEYS[self.t.pick(MOD_KEYS.len())], self.out_key()),
                }
            }
            36 => {
                // `rpt-any` nested in another action can repeat the action that contains it
                // (known findings F25 / F29): plausible configs use it as a plain layer key only
                if self.p == Profile::Plausible && (ctx.depth > 0 || ctx.in_vkey_def) {
                    "rpt".to_string()
                } else {
                    (*self.t.choose(&["rpt", "rpt-any"])).to_string()
                }
            }
            37 if ctx.alias_ok && !self.aliases.is_empty() => {
                self.feat("alias-ref");
                format!("@{}", self.aliases[self.t.pick(self.aliases.len())])
            }
            38 => {
                self.feat("arbitrary-code");
                format!("(arbitrary-code {})", match self.p {
                    Profile::Plausible => self.t.range(1, 700),
                    Profile::Boundary => if self.t.chance(1, 30) { 768 } else { *self.t.choose(&[0usize, 1, 766, 767, 700]) },
                })
            }
            39 if self.allow_latching => {
                self.feat("dynamic-macro");
                match self.t.pick(4) {
                    0 => format!("(dynamic-macro-record {})", self.t.pick(3)),
                    1 => format!("(dynamic-macro-play {})", self.t.pick(3)),
                    2 => "dynamic-macro-record-stop".into(),
                    _ => format!("(dynamic-macro-record-stop-truncate {})", self.t.pick(4)),
                }
            }
            40 => {
                self.feat("push-msg");
                "(push-msg \"hello\" 1)".into()
            }
            41 => {
                self.feat("fakekey-delay");
                format!("(on-press-fakekey-delay {})", self.t.pick(3))
            }
            42 if self.allow_latching => (*self.t.choose(&["scnl", "(sequence-noerase 2)", "(setmouse 10 10)", "mwu", "mwd"])).to_string(),
            43 => (*self.t.choose(&["mwu", "mwd", "mwl", "mwr", "scnl"])).to_string(),
            _ => self.simple(),
        }
    }

    fn switch_cond(&mut self, depth: usize) -> String {
        let leafy = depth >= 3 || self.t.chance(2, 3);
        if leafy {
            match self.t.pick(8) {
                0 | 1 => self.any_key().to_string(),
                2 => format!("(key-history {} {})", self.any_key(), if self.p == Profile::Boundary && self.t.chance(1, 30) { *self.t.choose(&[0usize, 9]) } else { self.t.range(1, 8) }),
                3 => format!(
                    "(key-timing {} {} {})",
                    self.t.range(1, 8),
                    *self.t.choose(&["lt", "gt", "less-than", "greater-than"]),
                    match self.p {
                        Profile::Plausible => self.t.range(1, 300),
                        Profile::Boundary => *self.t.choose(&[0usize, 1, 255, 256, 2303, 2304, 65535]),
                    }
                ),
                4 => format!("(input real {})", SRC_POOL[self.t.pick(SRC_POOL.len())]),
                5 => format!("(input-history real {} {})", SRC_POOL[self.t.pick(SRC_POOL.len())], self.t.range(1, 8)),
                6 => format!("(layer {})", self.layer_name()),
                _ => format!("(base-layer {})", self.layer_name()),
            }
        } else {
            let op = *self.t.choose(&["and", "or", "not"]);
            let n = self.t.range(1, 3);
            let parts: Vec<String> = (0..n).map(|_| self.switch_cond(depth + 1)).collect();
            format!("({op} {})", parts.join(" "))
        }
    }
}

/// Build a configuration from the tape.
pub fn build(tape: &[u16], profile: Profile, allow_latching: bool) -> Built {
    let mut t = Tape::new(tape);
    let n_src = t.range(2, 8);
    let mut src: Vec<&'static str> = vec![];
    for i in 0..n_src {
        src.push(SRC_POOL[i]);
    }
    let n_layers = t.range(1, 3);
    let want_chords_v2 = t.chance(1, 5);
    let want_seq = t.chance(1, 4);
    let want_overrides = t.chance(1, 5);
    let want_zippy = t.chance(1, 8);
    let want_chords_v1 = t.chance(1, 4);
    let n_vkeys = t.pick(4);
    let n_aliases = t.pick(3);

    let mut g = G {
        t: &mut t,
        p: profile,
        src: src.clone(),
        n_layers,
        vkeys: vec![],
        aliases: vec![],
        chord_groups: vec![],
        info: Info::default(),
        has_chords_v2: want_chords_v2,
        allow_latching,
    };
    g.info.n_layers = n_layers;
    let mut text = String::new();

    // ---- defcfg ----
    let mut cfg = String::from("(defcfg log-layer-changes no");
    if g.t.chance(1, 3) {
        cfg.push_str(" process-unmapped-keys yes");
        g.feat("process-unmapped-keys");
        if g.t.chance(1, 3) {
            cfg.push_str(" block-unmapped-keys yes");
        }
    }
    if want_chords_v2 || g.t.chance(1, 3) {
        cfg.push_str(" concurrent-tap-hold yes");
        g.feat("concurrent-tap-hold");
    }
    match g.t.pick(4) {
        0 => {}
        1 => cfg.push_str(" rapid-event-delay 0"),
        2 => cfg.push_str(" rapid-event-delay 2"),
        _ => {
            let d = match profile {
                Profile::Plausible => 10,
                Profile::Boundary => *g.t.choose(&[65535usize, 1, 100]),
            };
            cfg.push_str(&format!(" rapid-event-delay {d}"));
            g.info.timeouts.push(d as u32);
        }
    }
    if g.t.chance(1, 4) {
        cfg.push_str(" delegate-to-first-layer yes");
    }
    if g.t.chance(1, 8) {
        cfg.push_str(" transparent-key-resolution to-base-layer");
    }
    if want_seq {
        let st = g.timeout(60);
        cfg.push_str(&format!(" sequence-timeout {st}"));
        cfg.push_str(&format!(
            " sequence-input-mode {}",
            *g.t.choose(&["visible-backspaced", "hidden-suppressed", "hidden-delay-type"])
        ));
        if g.t.chance(1, 4) {
            cfg.push_str(" sequence-backtrack-modcancel no");
        }
        if g.t.chance(1, 6) {
            cfg.push_str(" sequence-always-on yes");
            g.feat("sequence-always-on");
        }
    }
    if want_overrides && g.t.chance(1, 2) {
        cfg.push_str(" override-release-on-activation yes");
    }
    if want_chords_v2 {
        let mi = match profile {
            Profile::Plausible => g.t.range(5, 30),
            Profile::Boundary => if g.t.chance(1, 30) { *g.t.choose(&[4usize, 0]) } else { *g.t.choose(&[5usize, 6, 65535, 100]) },
        };
        cfg.push_str(&format!(" chords-v2-min-idle {mi}"));
        g.info.timeouts.push(mi as u32);
    }
    if allow_latching && g.t.chance(1, 3) {
        cfg.push_str(&format!(" dynamic-macro-max-presses {}", *g.t.choose(&[0usize, 1, 3, 128])));
        if g.t.chance(1, 2) {
            cfg.push_str(" dynamic-macro-replay-delay-behaviour recorded");
        }
    }
    if g.t.chance(1, 6) {
        cfg.push_str(" movemouse-inherit-accel-state yes");
    }
    if g.t.chance(1, 6) {
        cfg.push_str(" movemouse-smooth-diagonals yes");
    }
    cfg.push_str(")\n");
    text.push_str(&cfg);

    // ---- defsrc ----
    text.push_str(&format!("(defsrc {})\n", src.join(" ")));

    // ---- virtual keys (before aliases) ----
    if n_vkeys > 0 {
        g.feat("vkeys");
        let mut s = String::from(if g.t.chance(1, 2) { "(defvirtualkeys" } else { "(deffakekeys" });
        for i in 0..n_vkeys {
            let name = format!("vk{i}");
            let ctx = Ctx {
                depth: 1,
                waiting_ok: profile == Profile::Boundary,
                in_multi: false,
                no_taphold: false,
                alias_ok: false,
                in_vkey_def: true,
                no_trans: false,
            };
            let a = match g.t.pick(4) {
                0 => g.out_key().to_string(),
                1 => format!("(layer-while-held {})", g.held_layer_name()),
                2 => {
                    g.feat("macro");
                    format!("(macro {})", g.macro_items(1))
                }
                _ => g.action(ctx),
            };
            s.push_str(&format!(" {name} {a}"));
            g.vkeys.push(name);
        }
        s.push_str(")\n");
        text.push_str(&s);
    }
    g.info.vkeys = g.vkeys.clone();

    // ---- chords v1 groups ----
    if want_chords_v1 && src.len() >= 2 {
        let ng = g.t.range(1, 2);
        let mut start = 0;
        for gi in 0..ng {
            if src.len() - start < 2 {
                break;
            }
            let name = format!("cg{gi}");
            let timeout = g.timeout(40);
            let nk = g.t.range(2, (src.len() - start).min(4));
            let keys: Vec<&'static str> = src[start..start + nk].to_vec();
            start += nk;
            let mut s = format!("(defchords {name} {timeout}");
            // singles
            for k in &keys {
                let a = g.simple();
                s.push_str(&format!(" ({k}) {a}"));
            }
            // some combos
            let ncombo = g.t.range(1, 3);
            let mut seen: Vec<Vec<&str>> = vec![];
            for _ in 0..ncombo {
                let mut combo: Vec<&str> = keys.iter().copied().filter(|_| g.t.chance(1, 2)).collect();
                if combo.len() < 2 {
                    combo = keys[..2].to_vec();
                }
                if seen.contains(&combo) {
                    continue;
                }
                seen.push(combo.clone());
                let ctx = Ctx {
                    depth: 2,
                    waiting_ok: false,
                    in_multi: false,
                    no_taphold: false,
                    alias_ok: false,
                    in_vkey_def: false,
                    no_trans: false,
                };
                let a = if profile == Profile::Boundary { g.action(ctx) } else { g.simple() };
                s.push_str(&format!(" ({}) {a}", combo.join(" ")));
            }
            s.push_str(")\n");
            text.push_str(&s);
            g.chord_groups.push((name, keys));
        }
    }

    // ---- sequences ----
    if want_seq && !g.vkeys.is_empty() {
        g.feat("defseq");
        let n = g.t.range(1, 3);
        let mut s = String::from("(defseq");
        let mut firsts: Vec<String> = vec![];
        for i in 0..n {
            let v = g.vkeys[g.t.pick(g.vkeys.len())].clone();
            // distinct first keys keep the table prefix-free
            let first = SRC_POOL[i].to_string();
            if firsts.contains(&first) {
                continue;
            }
            firsts.push(first.clone());
            let len = g.t.range(1, 3);
            let mut ks = vec![first];
            for _ in 0..len {
                ks.push(match g.t.pick(4) {
                    0 => format!("S-{}", g.t.choose(&SRC_POOL)),
                    _ => g.t.choose(&SRC_POOL).to_string(),
                });
            }
            s.push_str(&format!(" {v} ({})", ks.join(" ")));
        }
        s.push_str(")\n");
        text.push_str(&s);
    }

    // ---- aliases ----
    if n_aliases > 0 {
        let mut s = String::from("(defalias");
        for i in 0..n_aliases {
            let name = format!("al{i}");
            let ctx = Ctx {
                depth: 1,
                waiting_ok: true,
                in_multi: false,
                no_taphold: false,
                alias_ok: true,
                in_vkey_def: false,
                no_trans: false,
            };
            let a = g.action(ctx);
            s.push_str(&format!(" {name} {a}"));
            g.aliases.push(name);
        }
        s.push_str(")\n");
        text.push_str(&s);
    }

    // ---- layers ----
    // every key of a v1 chord group must be bound by some (chord group key) action:
    // group i binds its keys on consecutive positions of layer 0
    let mut forced: Vec<Option<String>> = vec![None; src.len()];
    {
        let mut pos = 0;
        for (gname, keys) in g.chord_groups.clone() {
            for k in keys {
                if pos < forced.len() {
                    forced[pos] = Some(format!("(chord {gname} {k})"));
                    pos += 1;
                }
            }
        }
    }
    for l in 0..n_layers {
        let mut s = format!("(deflayer l{l}");
        for (pos, _) in src.iter().enumerate() {
            if l == 0 {
                if let Some(f) = &forced[pos] {
                    g.feat("chord-v1");
                    s.push(' ');
                    s.push_str(f);
                    continue;
                }
                // with a zippychord dictionary the chord letters a-d mostly type themselves
                if want_zippy && pos < 4 && g.t.chance(3, 4) {
                    s.push_str(" _");
                    continue;
                }
            }
            let ctx = Ctx {
                depth: 0,
                waiting_ok: true,
                in_multi: false,
                no_taphold: false,
                alias_ok: true,
                in_vkey_def: false,
                no_trans: false,
            };
            let a = g.action(ctx);
            s.push(' ');
            s.push_str(&a);
        }
        s.push_str(")\n");
        text.push_str(&s);
    }

    // ---- overrides ----
    if want_overrides {
        g.feat("overrides");
        let n = g.t.range(1, 3);
        let mut s = String::from("(defoverrides");
        for _ in 0..n {
            let m = MOD_KEYS[g.t.pick(MOD_KEYS.len())];
            let k = OUT_KEYS[g.t.pick(OUT_KEYS.len())];
            let om = MOD_KEYS[g.t.pick(MOD_KEYS.len())];
            let ok = OUT_KEYS[g.t.pick(OUT_KEYS.len())];
            if g.t.chance(1, 2) {
                s.push_str(&format!(" ({m} {k}) ({om} {ok})"));
            } else {
                s.push_str(&format!(" ({m} {k}) ({ok})"));
            }
        }
        s.push_str(")\n");
        text.push_str(&s);
    }

    // ---- chords v2 ----
    if want_chords_v2 && src.len() >= 2 {
        g.feat("chords-v2");
        let n = g.t.range(1, 4);
        let mut s = String::from("(defchordsv2");
        let mut seen: Vec<Vec<&str>> = vec![];
        for _ in 0..n {
            let mut combo: Vec<&str> = src.iter().copied().filter(|_| g.t.chance(1, 3)).collect();
            if combo.len() < 2 {
                combo = src[..2].to_vec();
            }
            if combo.len() > 4 {
                combo.truncate(4);
            }
            let mut sorted = combo.clone();
            sorted.sort();
            if seen.contains(&sorted) {
                continue;
            }
            seen.push(sorted);
            let ctx = Ctx {
                depth: 1,
                waiting_ok: profile == Profile::Boundary,
                in_multi: false,
                no_taphold: false,
                // an alias can carry an action into chords v2 that cannot be written there directly
                alias_ok: profile == Profile::Boundary,
                in_vkey_def: false,
                no_trans: true,
            };
            let a = g.action(ctx);
            let timeout = g.timeout(60);
            let rel = if g.t.chance(1, 2) { "first-release" } else { "all-released" };
            let dis = if g.t.chance(1, 4) && n_layers > 1 { format!("(l{})", g.t.pick(n_layers)) } else { "()".into() };
            s.push_str(&format!("\n  ({}) {a} {timeout} {rel} {dis}", combo.join(" ")));
        }
        s.push_str(")\n");
        text.push_str(&s);
    }

    // ---- zippychord ----
    let mut files = vec![];
    if want_zippy {
        g.feat("zippy");
        let mut f = String::new();
        let n = g.t.range(1, 4);
        // characters typed through output-character-mappings (shift, altgr, both, no-erase)
        let mapped = g.t.chance(1, 2);
        let words: &[&str] = if mapped {
            &["ab\tabba", "abc\talpha*bet", "cd\tcould!", "ad\ta@d", "bc\tBecause~", "ab c\table *to come", "bd\t*"]
        } else {
            &["ab\tabba", "abc\talphabet", "cd\tcould", "ad\tand", "bc\tBecause", "ab c\table to come"]
        };
        let mut used: Vec<&str> = vec![];
        let mut lines: Vec<&str> = vec![];
        for _ in 0..n {
            let w = *g.t.choose(words);
            let key = w.split('\t').next().unwrap();
            if used.contains(&key) {
                continue;
            }
            used.push(key);
            lines.push(w);
        }
        // a follow-up entry ("ab c") must come after the chord it follows ("ab")
        lines.sort_by_key(|w| w.split('\t').next().unwrap().len());
        for w in lines {
            f.push_str(w);
            f.push('\n');
        }
        files.push(("zippy.txt".to_string(), f));
        let dl = match profile {
            Profile::Plausible => g.t.range(10, 60),
            Profile::Boundary => *g.t.choose(&[1usize, 500, 65535]),
        };
        g.info.timeouts.push(dl as u32);
        text.push_str(&format!(
            "(defzippy zippy.txt on-first-press-chord-deadline {dl} idle-reactivate-time {} smart-space {}{})\n",
            (dl + 5).min(65535),
            *g.t.choose(&["none", "add-space-only", "full"]),
            if mapped { " output-character-mappings (! S-1 @ AG-2 * S-AG-8 ~ (no-erase S-grv))" } else { "" }
        ));
        if mapped {
            g.feat("zippy-character-mappings");
        }
        g.info.timeouts.push(dl as u32 + 5);
    }
    let _ = g.has_chords_v2;
    let _ = &g.src;
    let info = g.info.clone();
    Built {
        text,
        files,
        src,
        info,
    }
}
