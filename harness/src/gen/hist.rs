//! Input histories.
use crate::gen::keys;
use proptest::prelude::*;
use serde_json::Value;

#[derive(Clone, Debug, PartialEq, Eq, Hash)]
pub enum Ev {
    Press(u16),
    Release(u16),
    Repeat(u16),
    /// press immediately followed by release in one input call (KeyValue::Tap)
    Tap(u16),
    /// advance time by this many milliseconds
    Gap(u32),
}

fn kname(code: u16) -> String {
    keys().names.iter().find(|(_, c)| *c == code).map(|(n, _)| n.to_string()).unwrap_or_else(|| format!("#{code}"))
}
fn kcode(name: &str) -> Option<u16> {
    if let Some(n) = name.strip_prefix('#') {
        return n.parse().ok();
    }
    keys().names.iter().find(|(n, _)| *n == name).map(|(_, c)| *c)
}

pub fn hist_to_json(h: &[Ev]) -> Value {
    Value::Array(
        h.iter()
            .map(|e| {
                Value::String(match e {
                    Ev::Press(k) => format!("d:{}", kname(*k)),
                    Ev::Release(k) => format!("u:{}", kname(*k)),
                    Ev::Repeat(k) => format!("r:{}", kname(*k)),
                    Ev::Tap(k) => format!("tap:{}", kname(*k)),
                    Ev::Gap(g) => format!("t:{g}"),
                })
            })
            .collect(),
    )
}

pub fn hist_from_json(v: &Value) -> Option<Vec<Ev>> {
    let mut out = vec![];
    for e in v.as_array()? {
        let s = e.as_str()?;
        let (k, val) = s.split_once(':')?;
        out.push(match k {
            "d" => Ev::Press(kcode(val)?),
            "u" => Ev::Release(kcode(val)?),
            "r" => Ev::Repeat(kcode(val)?),
            "tap" => Ev::Tap(kcode(val)?),
            "t" => Ev::Gap(val.parse().ok()?),
            _ => return None,
        });
    }
    Some(out)
}

pub fn hist_to_string(h: &[Ev]) -> String {
    hist_to_json(h)
        .as_array()
        .unwrap()
        .iter()
        .map(|v| v.as_str().unwrap().to_string())
        .collect::<Vec<_>>()
        .join(" ")
}

/// Number of schedules of 1..=max_n toggle events over `n_keys` keys with `n_gaps` gap choices.
pub fn n_schedules(n_keys: u64, n_gaps: u64, max_n: u32) -> u64 {
    let base = n_keys * n_gaps;
    (1..=max_n).map(|n| base.pow(n)).sum()
}

/// Decode schedule `idx` (0-based within `n_schedules`): each step chooses
/// (gap before the event, key); the key toggles (press when up, release when
/// down), so the history is physically consistent; at the end every key
/// still down is released, one per `final_gap` ms, in key order.
pub fn schedule(mut idx: u64, keys: &[u16], gaps: &[u32], max_n: u32, final_gap: u32) -> Vec<Ev> {
    let base = (keys.len() * gaps.len()) as u64;
    let mut n = 1u32;
    loop {
        let cnt = base.pow(n);
        if idx < cnt || n == max_n {
            break;
        }
        idx -= cnt;
        n += 1;
    }
    let mut down = vec![false; keys.len()];
    let mut out = vec![];
    for _ in 0..n {
        let d = idx % base;
        idx /= base;
        let g = gaps[(d % gaps.len() as u64) as usize];
        let k = (d / gaps.len() as u64) as usize;
        if g > 0 {
            out.push(Ev::Gap(g));
        }
        if down[k] {
            out.push(Ev::Release(keys[k]));
        } else {
            out.push(Ev::Press(keys[k]));
        }
        down[k] = !down[k];
    }
    for (i, d) in down.iter().enumerate() {
        if *d {
            if final_gap > 0 {
                out.push(Ev::Gap(final_gap));
            }
            out.push(Ev::Release(keys[i]));
        }
    }
    out
}

/// Random physically consistent history: toggling presses/releases over
/// `keys`, gaps chosen from `gaps`, at most `max_down` keys down at once,
/// all keys released at the end.
pub fn consistent_history(
    keys: Vec<u16>,
    gaps: Vec<u32>,
    len: std::ops::Range<usize>,
) -> impl Strategy<Value = Vec<Ev>> {
    prop::collection::vec((any::<u16>(), any::<u16>()), len).prop_map(move |steps| {
        let mut down = vec![false; keys.len()];
        let mut out = vec![];
        for (ks, gs) in steps {
            let k = crate::engine::pick(ks, keys.len());
            let g = gaps[crate::engine::pick(gs, gaps.len())];
            if g > 0 {
                out.push(Ev::Gap(g));
            }
            if down[k] {
                out.push(Ev::Release(keys[k]));
            } else {
                out.push(Ev::Press(keys[k]));
            }
            down[k] = !down[k];
        }
        for (i, d) in down.iter().enumerate() {
            if *d {
                out.push(Ev::Gap(1));
                out.push(Ev::Release(keys[i]));
            }
        }
        out
    })
}
