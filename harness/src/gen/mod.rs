//! Generators: key pools, printer of the modelled configuration fragment,
//! physically consistent histories.
pub mod cfg;
pub mod hist;

use crate::model::*;
use crate::sim::code_of;
use std::sync::OnceLock;

/// (config name, code) of the keys used by generated configurations.
pub struct Keys {
    pub names: Vec<(&'static str, u16)>,
}

const NAMES: &[&str] = &[
    "a", "b", "c", "d", "e", "f", "g", "h", "i", "j", "k", "l", "m", "n", "o", "p", "q", "r", "s", "t", "u", "v", "w",
    "x", "y", "z", "1", "2", "3", "4", "5", "6", "7", "8", "9", "0", "lsft", "rsft", "lctl", "rctl", "lalt", "ralt",
    "lmet", "rmet", "spc", "ret", "tab", "esc", "bspc", "caps", "f1", "f2", "f3", "f4", "f5", "f6", "comm", ".", "/",
    ";", "min", "eql", "home", "end", "pgup", "pgdn", "left", "rght", "up", "down", "kp1", "kp2", "kp3", "kp4", "kp5",
];

pub fn keys() -> &'static Keys {
    static K: OnceLock<Keys> = OnceLock::new();
    K.get_or_init(|| Keys {
        names: NAMES.iter().map(|n| (*n, code_of(n))).collect(),
    })
}

pub fn kname(code: u16) -> &'static str {
    keys()
        .names
        .iter()
        .find(|(_, c)| *c == code)
        .map(|(n, _)| *n)
        .unwrap_or_else(|| panic!("harness: no config name for code {code}"))
}
pub fn kc(name: &str) -> u16 {
    keys()
        .names
        .iter()
        .find(|(n, _)| *n == name)
        .map(|(_, c)| *c)
        .unwrap_or_else(|| panic!("harness: key {name} not in pool"))
}

pub fn mod_prefix(code: u16) -> Option<&'static str> {
    let n = kname(code);
    Some(match n {
        "lsft" => "S-",
        "rsft" => "RS-",
        "lctl" => "C-",
        "rctl" => "RC-",
        "lalt" => "A-",
        "ralt" => "RA-",
        "lmet" => "M-",
        "rmet" => "RM-",
        _ => return None,
    })
}

pub fn print_act(a: &Act, out: &mut String) {
    match a {
        Act::Key(k) => out.push_str(kname(*k)),
        Act::Chord(ks) => {
            let (last, mods) = ks.split_last().expect("chord non-empty");
            for m in mods {
                out.push_str(mod_prefix(*m).expect("chord modifier"));
            }
            out.push_str(kname(*last));
        }
        Act::Multi(v) => {
            out.push_str("(multi");
            for m in v {
                out.push(' ');
                print_act(m, out);
            }
            out.push(')');
        }
        Act::XX => out.push_str("XX"),
        Act::Trans => out.push('_'),
        Act::UseDefsrc => out.push_str("use-defsrc"),
        Act::LayerHeld(l) => out.push_str(&format!("(layer-while-held l{l})")),
        Act::LayerSwitch(l) => out.push_str(&format!("(layer-switch l{l})")),
        Act::ReleaseKey(k) => out.push_str(&format!("(release-key {})", kname(*k))),
        Act::ReleaseLayer(l) => out.push_str(&format!("(release-layer l{l})")),
        Act::TapHold(th) => {
            let name = match th.variant {
                ThVariant::Plain => "tap-hold",
                ThVariant::Press => "tap-hold-press",
                ThVariant::Release => "tap-hold-release",
                ThVariant::PressTimeout => "tap-hold-press-timeout",
                ThVariant::ReleaseTimeout => "tap-hold-release-timeout",
                ThVariant::ReleaseKeys => "tap-hold-release-keys",
                ThVariant::ExceptKeys => "tap-hold-except-keys",
            };
            out.push_str(&format!("({name} {} {} ", th.tap_timeout, th.hold_timeout));
            print_act(&th.tap, out);
            out.push(' ');
            print_act(&th.hold, out);
            match th.variant {
                ThVariant::PressTimeout | ThVariant::ReleaseTimeout => {
                    out.push(' ');
                    print_act(th.timeout_act.as_ref().expect("timeout action"), out);
                }
                ThVariant::ReleaseKeys | ThVariant::ExceptKeys => {
                    out.push_str(" (");
                    for (i, k) in th.keys.iter().enumerate() {
                        if i > 0 {
                            out.push(' ');
                        }
                        out.push_str(kname(*k));
                    }
                    out.push(')');
                }
                _ => {}
            }
            out.push(')');
        }
        Act::OneShot(os) => {
            let name = match os.variant {
                OsVariant::Press => "one-shot-press",
                OsVariant::Release => "one-shot-release",
                OsVariant::PressPcancel => "one-shot-press-pcancel",
                OsVariant::ReleasePcancel => "one-shot-release-pcancel",
            };
            out.push_str(&format!("({name} {} ", os.timeout));
            print_act(&os.inner, out);
            out.push(')');
        }
        Act::TapDance(td) => {
            out.push_str(&format!(
                "({} {} (",
                if td.eager { "tap-dance-eager" } else { "tap-dance" },
                td.timeout
            ));
            for (i, a) in td.acts.iter().enumerate() {
                if i > 0 {
                    out.push(' ');
                }
                print_act(a, out);
            }
            out.push_str("))");
        }
    }
}

pub fn print_cfg(c: &MCfg) -> String {
    let mut s = String::new();
    s.push_str("(defcfg log-layer-changes no");
    if c.process_unmapped {
        s.push_str(" process-unmapped-keys yes");
    }
    if c.block_unmapped {
        s.push_str(" block-unmapped-keys yes");
    }
    if !c.layer_stack {
        s.push_str(" transparent-key-resolution to-base-layer");
    }
    if c.delegate {
        s.push_str(" delegate-to-first-layer yes");
    }
    if c.concurrent_tap_hold {
        s.push_str(" concurrent-tap-hold yes");
    }
    if let Some(r) = c.rapid_event_delay {
        s.push_str(&format!(" rapid-event-delay {r}"));
    }
    s.push_str(")\n(defsrc");
    for k in &c.src {
        s.push(' ');
        s.push_str(kname(*k));
    }
    s.push_str(")\n");
    for (i, l) in c.layers.iter().enumerate() {
        if i < 8 && c.layermap & (1 << i) != 0 {
            print_layermap(c, i, l, &mut s);
            continue;
        }
        s.push_str(&format!("(deflayer l{i}"));
        for a in l {
            s.push(' ');
            print_act(a, &mut s);
        }
        s.push_str(")\n");
    }
    if !c.chords_v2.is_empty() {
        s.push_str("(defchordsv2");
        for (ks, a) in &c.chords_v2 {
            s.push_str("\n  (");
            for (i, k) in ks.iter().enumerate() {
                if i > 0 {
                    s.push(' ');
                }
                s.push_str(kname(*k));
            }
            s.push_str(") ");
            print_act(a, &mut s);
            s.push_str(" 50 all-released ()");
        }
        s.push_str(")\n");
    }
    s
}

/// Layer `i` written as a deflayermap with the same meaning as the deflayer form.
fn print_layermap(c: &MCfg, i: usize, l: &[Act], s: &mut String) {
    let style = (c.layermap >> 8) % 3;
    let mut pairs: Vec<String> = vec![];
    let cell = |k: u16, a: &Act| {
        let mut t = format!("{} ", kname(k));
        print_act(a, &mut t);
        t
    };
    match style {
        1 => {
            // `_` stands for the most frequent action (first one on ties), all others are listed
            let mut best = 0;
            let mut best_n = 0;
            for (j, a) in l.iter().enumerate() {
                let n = l.iter().filter(|b| *b == a).count();
                if n > best_n {
                    best = j;
                    best_n = n;
                }
            }
            for (j, a) in l.iter().enumerate() {
                if *a != l[best] {
                    pairs.push(cell(c.src[j], a));
                }
            }
            let mut t = String::from("_ ");
            print_act(&l[best], &mut t);
            let pos = ((c.layermap >> 10) as usize) % (pairs.len() + 1);
            pairs.insert(pos, t);
        }
        2 if !c.block_unmapped => {
            // keys that are not listed are transparent
            for (j, a) in l.iter().enumerate() {
                if *a != Act::Trans {
                    pairs.push(cell(c.src[j], a));
                }
            }
        }
        _ => {
            for (j, a) in l.iter().enumerate() {
                pairs.push(cell(c.src[j], a));
            }
        }
    }
    s.push_str(&format!("(deflayermap (l{i})"));
    for p in pairs {
        s.push(' ');
        s.push_str(&p);
    }
    s.push_str(")\n");
}
