//! Known findings: /verif/known_findings.json (committed; never written at run time).
//!
//! {"findings":[{"id":"F1","property":"C02","also_in":["C01"],"status":"known",
//!               "sig":"panic:keyberon/src/layout.rs:index out of bounds*",
//!               "what":"...","witness":"regress/C02/F1.json"}, ...],
//!  "fixed":["fixed: property=C02 <commit> <what failed>", ...]}
use serde_json::Value;

#[derive(Clone, Debug)]
pub struct Finding {
    pub id: String,
    pub property: String,
    pub also_in: Vec<String>,
    pub status: String,
    pub sig: String,
    /// further signature patterns of the same finding
    pub more_sigs: Vec<String>,
    pub what: String,
}

pub struct Known {
    pub findings: Vec<Finding>,
}

pub fn sig_matches(pattern: &str, sig: &str) -> bool {
    if let Some(p) = pattern.strip_suffix('*') {
        sig.starts_with(p)
    } else {
        pattern == sig
    }
}

impl Known {
    pub fn load() -> Known {
        let path = super::verif_dir().join("known_findings.json");
        let mut findings = vec![];
        if let Ok(s) = std::fs::read_to_string(&path) {
            if let Ok(v) = serde_json::from_str::<Value>(&s) {
                for f in v["findings"].as_array().cloned().unwrap_or_default() {
                    let st = f["status"].as_str().unwrap_or("known").to_string();
                    findings.push(Finding {
                        id: f["id"].as_str().unwrap_or("").to_string(),
                        property: f["property"].as_str().unwrap_or("").to_string(),
                        also_in: f["also_in"]
                            .as_array()
                            .map(|a| a.iter().filter_map(|x| x.as_str().map(String::from)).collect())
                            .unwrap_or_default(),
                        status: st,
                        sig: f["sig"].as_str().unwrap_or("").to_string(),
                        more_sigs: f["more_sigs"].as_array().map(|a| a.iter().filter_map(|x| x.as_str().map(String::from)).collect()).unwrap_or_default(),
                        what: f["what"].as_str().unwrap_or("").to_string(),
                    });
                }
            }
        }
        Known { findings }
    }
    /// A finding with status "known" that covers this signature for this property.
    pub fn matches(&self, prop: &str, sig: &str) -> Option<String> {
        self.findings
            .iter()
            .find(|f| {
                f.status == "known"
                    && (f.property == prop || f.also_in.iter().any(|p| p == prop))
                    && (sig_matches(&f.sig, sig) || f.more_sigs.iter().any(|p| sig_matches(p, sig)))
            })
            .map(|f| f.id.clone())
    }
    pub fn get(&self, id: &str) -> Option<&Finding> {
        self.findings.iter().find(|f| f.id == id)
    }
}
