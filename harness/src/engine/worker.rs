//! Worker: runs one shard of case indices in-process, single-threaded.
use super::known::Known;
use super::*;
use serde_json::json;
use std::collections::{BTreeMap, HashSet};
use std::io::Write;
use std::os::unix::fs::FileExt;
use std::path::Path;
use std::time::Instant;

pub struct WorkerArgs {
    pub tier: Tier,
    pub seed: u64,
    pub shard: u64,
    pub nshards: u64,
    pub from: u64, // first index to run (must be ≡ shard mod nshards)
    pub dir: std::path::PathBuf,
}

pub fn set_limits() {
    unsafe {
        let lim = libc::rlimit {
            rlim_cur: 6 << 30,
            rlim_max: 6 << 30,
        };
        libc::setrlimit(libc::RLIMIT_AS, &lim);
        let core = libc::rlimit {
            rlim_cur: 0,
            rlim_max: 0,
        };
        libc::setrlimit(libc::RLIMIT_CORE, &core);
    }
}

fn write_atomic(path: &Path, v: &Value) {
    let tmp = path.with_extension("tmp");
    if let Ok(mut f) = std::fs::File::create(&tmp) {
        let _ = f.write_all(v.to_string().as_bytes());
        let _ = std::fs::rename(&tmp, path);
    }
}

pub fn run_worker(prop: &dyn DynProp, a: &WorkerArgs) -> i32 {
    set_limits();
    install_panic_hook(true);
    let known = Known::load();
    let pid = prop.id();
    let plan = prop.plan(a.tier);
    let progress_path = a.dir.join(format!("progress-{}", a.shard));
    let progress = std::fs::OpenOptions::new()
        .create(true)
        .write(true)
        .truncate(false)
        .open(&progress_path)
        .expect("progress file");
    let result_path = a.dir.join(format!("result-{}-{}.json", a.shard, a.from));
    let hashes_path = a.dir.join(format!("hashes-{}-{}.bin", a.shard, a.from));

    let mut cache: StratCache = Default::default();
    let mut evals: u64 = 0;
    let mut nontrivial: u64 = 0;
    let mut hashes: HashSet<u64> = HashSet::new();
    let mut classes: BTreeMap<String, u64> = BTreeMap::new();
    let mut discards: BTreeMap<String, u64> = BTreeMap::new();
    let mut known_hits: BTreeMap<String, (u64, Value)> = BTreeMap::new(); // finding id -> count, first case
    let mut known_sigs: BTreeMap<String, u64> = BTreeMap::new(); // "<finding> <signature>" -> count
    let mut unknown: Vec<Value> = Vec::new();
    let mut unknown_sigs: BTreeMap<String, u64> = BTreeMap::new();
    let mut samples: Vec<Value> = Vec::new();
    let mut nt_samples: Vec<Value> = Vec::new();
    let t0 = Instant::now();
    let mut last_ckpt = Instant::now();

    let n_mine = if plan.n_cases > a.shard {
        (plan.n_cases - a.shard).div_ceil(a.nshards)
    } else {
        0
    };
    // sample positions within this shard (by ordinal)
    let sample_ords: HashSet<u64> = [0u64, n_mine / 3, (2 * n_mine) / 3].into_iter().collect();

    let is_known = |sig: &str| known.matches(pid, sig).is_some();
    let mut idx = a.from;
    let mut stopped_early = false;
    while idx < plan.n_cases {
        let _ = progress.write_at(&idx.to_le_bytes(), 0);
        let ord = (idx - a.shard) / a.nshards;
        let want = sample_ords.contains(&ord) && samples.len() < 3;
        let rep = prop.run_index(a.tier, a.seed, idx, want, &is_known, &mut cache);
        evals += 1;
        if let Some(d) = rep.verdict.discard {
            *discards.entry(d.to_string()).or_default() += 1;
        }
        for c in &rep.verdict.classes {
            *classes.entry((*c).to_string()).or_default() += 1;
        }
        if rep.verdict.nontrivial && rep.verdict.discard.is_none() {
            nontrivial += 1;
            if !plan.distinct_by_construction {
                hashes.insert(rep.hash);
            }
            if nt_samples.len() < 3 && (nontrivial == 1 || nontrivial % 997 == 0) {
                nt_samples.push(json!({"index": idx, "case": prop.case_json(a.tier, a.seed, idx, &mut cache)}));
            }
        }
        if want {
            if let Some(cj) = &rep.case_json {
                samples.push(json!({"index": idx, "case": cj}));
            }
        }
        if let Some((shrunk, fail)) = rep.shrunk {
            if let Some(fid) = known.matches(pid, &fail.sig) {
                *known_sigs.entry(format!("{fid} {}", fail.sig)).or_default() += 1;
                let e = known_hits.entry(fid).or_insert((0, json!({"case": shrunk, "sig": fail.sig})));
                e.0 += 1;
            } else {
                let n = unknown_sigs.entry(fail.sig.clone()).or_default();
                *n += 1;
                if *n == 1 {
                    unknown.push(json!({
                        "index": idx, "sig": fail.sig, "detail": fail.detail,
                        "case": shrunk, "original": rep.case_json,
                    }));
                }
                let total: u64 = unknown_sigs.values().sum();
                if total >= 40 || unknown.len() >= 4 {
                    stopped_early = true;
                }
            }
        }
        let done = stopped_early || idx + a.nshards >= plan.n_cases;
        if done || last_ckpt.elapsed().as_millis() > 1500 {
            last_ckpt = Instant::now();
            let v = json!({
                "shard": a.shard, "from": a.from, "last_idx": idx, "complete": done,
                "stopped_early": stopped_early,
                "evaluations": evals, "nontrivial": nontrivial,
                "classes": classes, "discards": discards,
                "known_hits": known_hits.iter().map(|(k,(n,c))| (k.clone(), json!({"count": n, "first": c}))).collect::<BTreeMap<_,_>>(),
                "known_sigs": known_sigs,
                "unknown": unknown, "unknown_sigs": unknown_sigs,
                "samples": samples, "nt_samples": nt_samples,
                "wall_s": t0.elapsed().as_secs_f64(),
            });
            write_atomic(&result_path, &v);
        }
        if stopped_early {
            break;
        }
        idx += a.nshards;
    }
    if n_mine == 0 || a.from >= plan.n_cases {
        let v = json!({"shard": a.shard, "from": a.from, "last_idx": a.from, "complete": true,
            "stopped_early": false, "evaluations": 0, "nontrivial": 0, "classes": {}, "discards": {},
            "known_hits": {}, "unknown": [], "unknown_sigs": {}, "samples": [], "nt_samples": [], "wall_s": 0.0});
        write_atomic(&result_path, &v);
    }
    if !plan.distinct_by_construction {
        let mut buf = Vec::with_capacity(hashes.len() * 8);
        for h in &hashes {
            buf.extend_from_slice(&h.to_le_bytes());
        }
        let _ = std::fs::write(&hashes_path, buf);
    }
    0
}
