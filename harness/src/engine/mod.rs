//! Shared engine: property interface, case generation through proptest,
//! in-process shrinking, worker loop, driver, evidence, known findings.
pub mod driver;
pub mod known;
pub mod worker;

use proptest::strategy::{BoxedStrategy, Strategy, ValueTree};
use proptest::test_runner::{Config, RngAlgorithm, TestRng, TestRunner};
use serde_json::Value;
use std::collections::BTreeMap;
use std::panic::{catch_unwind, AssertUnwindSafe};

#[derive(Clone, Copy, Debug, PartialEq, Eq)]
pub enum Tier {
    Quick,
    Thorough,
}
impl Tier {
    pub fn parse(s: &str) -> Option<Tier> {
        match s {
            "quick" => Some(Tier::Quick),
            "thorough" => Some(Tier::Thorough),
            _ => None,
        }
    }
    pub fn name(self) -> &'static str {
        match self {
            Tier::Quick => "quick",
            Tier::Thorough => "thorough",
        }
    }
}

/// A failure of the oracle on one case.
#[derive(Clone, Debug)]
pub struct Fail {
    /// Stable signature (no line numbers, no case-specific numbers): used to
    /// match known findings and to keep shrinking on the same failure.
    pub sig: String,
    /// Human-readable detail: expectation vs observation.
    pub detail: String,
}

#[derive(Clone, Debug, Default)]
pub struct Verdict {
    pub fail: Option<Fail>,
    pub nontrivial: bool,
    /// Labels for the class histogram.
    pub classes: Vec<&'static str>,
    /// Case was not judged (e.g. generated config rejected by the parser).
    pub discard: Option<&'static str>,
}
impl Verdict {
    pub fn pass(nontrivial: bool) -> Verdict {
        Verdict {
            nontrivial,
            ..Default::default()
        }
    }
    pub fn failed(sig: impl Into<String>, detail: impl Into<String>) -> Verdict {
        Verdict {
            fail: Some(Fail {
                sig: sig.into(),
                detail: detail.into(),
            }),
            nontrivial: true,
            ..Default::default()
        }
    }
    pub fn discard(why: &'static str) -> Verdict {
        Verdict {
            discard: Some(why),
            ..Default::default()
        }
    }
    pub fn class(mut self, c: &'static str) -> Verdict {
        self.classes.push(c);
        self
    }
}

/// How the case with a given index is produced.
pub enum Gen<C> {
    /// Enumerated case (exhaustive parts); not shrunk by proptest.
    Fixed(C),
    /// Random case from the cached strategy with this key.
    Strat(u32),
}

pub struct Plan {
    /// Total number of case indices for this tier.
    pub n_cases: u64,
    /// The whole plan enumerates a finite space completely.
    pub exhaustive: bool,
    /// Non-trivial cases are distinct by construction (enumerations); then
    /// they are counted instead of hashed.
    pub distinct_by_construction: bool,
    /// Classes that must be non-empty, else the run is "vacuous" (exit 2).
    pub required_classes: Vec<&'static str>,
    /// Seconds without progress after which a worker counts as hung.
    pub hang_secs: u64,
}

pub struct PropInfo {
    pub level: &'static str,
    pub rule: &'static str,
    pub assumptions: Vec<String>,
    /// For translation_validation level: extra integer keys.
    pub extra: BTreeMap<String, Value>,
}

pub trait Case: Clone + std::fmt::Debug + 'static {
    fn to_json(&self) -> Value;
    fn from_json(v: &Value) -> Option<Self>;
    /// Hash for distinct counting.
    fn canon_hash(&self) -> u64 {
        use std::hash::{Hash, Hasher};
        let mut h = rustc_hash::FxHasher::default();
        self.to_json().to_string().hash(&mut h);
        h.finish()
    }
}

pub trait TypedProp: Sync + Send {
    type C: Case;
    fn id(&self) -> &'static str;
    fn info(&self) -> PropInfo;
    fn plan(&self, tier: Tier) -> Plan;
    fn gen(&self, tier: Tier, seed: u64, idx: u64) -> Gen<Self::C>;
    fn strategy(&self, tier: Tier, key: u32) -> BoxedStrategy<Self::C>;
    fn judge(&self, case: &Self::C) -> Verdict;
    /// Optional extra shrinking after the proptest pass (e.g. text-level ddmin).
    /// `fails(c)` is true when `c` still fails with the same signature.
    /// upper bound on proptest simplify / complicate steps per failure
    fn max_shrink_steps(&self) -> usize {
        600
    }
    /// the same, for the case that failed (e.g. fewer steps for cases that run in real time)
    fn max_shrink_steps_for(&self, _case: &Self::C) -> usize {
        self.max_shrink_steps()
    }
    fn shrink_more(&self, case: &Self::C, _fails: &mut dyn FnMut(&Self::C) -> bool) -> Self::C {
        case.clone()
    }
    /// Whether a hang (confirmed) is a violation of this property.
    fn hang_is_violation(&self) -> bool {
        false
    }
    /// Extra summary keys computed from merged class counts.
    fn extra_coverage(&self, _classes: &BTreeMap<String, u64>, _evals: u64) -> BTreeMap<String, Value> {
        BTreeMap::new()
    }
}

/// Result of running one case index (after shrinking if it failed).
pub struct CaseReport {
    pub verdict: Verdict,
    pub case_json: Option<Value>,
    pub hash: u64,
    /// Present when the case failed: shrunk case + its failure.
    pub shrunk: Option<(Value, Fail)>,
}

/// Object-safe view used by driver and worker.
pub trait DynProp: Sync + Send {
    fn id(&self) -> &'static str;
    fn info(&self) -> PropInfo;
    fn plan(&self, tier: Tier) -> Plan;
    fn run_index(
        &self,
        tier: Tier,
        seed: u64,
        idx: u64,
        want_json: bool,
        known: &dyn Fn(&str) -> bool,
        cache: &mut StratCache,
    ) -> CaseReport;
    fn case_json(&self, tier: Tier, seed: u64, idx: u64, cache: &mut StratCache) -> Value;
    fn judge_json(&self, v: &Value) -> Option<Verdict>;
    fn hang_is_violation(&self) -> bool;
    fn extra_coverage(&self, classes: &BTreeMap<String, u64>, evals: u64) -> BTreeMap<String, Value>;
}

pub type StratCache = std::collections::HashMap<u32, Box<dyn std::any::Any>>;

static LAST_PANIC: parking_lot::Mutex<Option<(String, String)>> = parking_lot::Mutex::new(None);

pub fn install_panic_hook(quiet: bool) {
    std::panic::set_hook(Box::new(move |info| {
        let msg = if let Some(s) = info.payload().downcast_ref::<&str>() {
            s.to_string()
        } else if let Some(s) = info.payload().downcast_ref::<String>() {
            s.clone()
        } else {
            "<non-string panic payload>".to_string()
        };
        let loc = info
            .location()
            .map(|l| l.file().to_string())
            .unwrap_or_else(|| "<unknown>".into());
        if !quiet {
            eprintln!("panic at {loc}: {msg}");
        }
        let mut g = LAST_PANIC.lock();
        if g.is_none() {
            *g = Some((loc, msg));
        }
    }));
}

/// The first panic recorded since the last call (from any thread).
pub fn take_last_panic() -> Option<(String, String)> {
    LAST_PANIC.lock().take()
}

/// Normalise a panic message: digits -> '#', trimmed to its first line and 160 chars.
pub fn norm_msg(m: &str) -> String {
    let first = m.lines().next().unwrap_or("");
    let mut out = String::new();
    let mut last_hash = false;
    for ch in first.chars() {
        if ch.is_ascii_digit() {
            if !last_hash {
                out.push('#');
            }
            last_hash = true;
        } else {
            out.push(ch);
            last_hash = false;
        }
        if out.len() > 160 {
            break;
        }
    }
    out
}

fn norm_loc(l: &str) -> String {
    // "/repo/keyberon/src/layout.rs" -> "keyberon/src/layout.rs"
    let l = l.strip_prefix("/repo/").unwrap_or(l);
    // background exploration runs work on a snapshot of the repository elsewhere
    let repo = crate::corpus::repo_dir();
    let repo = repo.to_string_lossy();
    let l = l.strip_prefix(repo.as_ref()).map(|r| r.trim_start_matches('/')).unwrap_or(l);
    // registry crates: keep crate dir + file
    if let Some(i) = l.find("/registry/src/") {
        let rest = &l[i + "/registry/src/".len()..];
        if let Some(j) = rest.find('/') {
            return rest[j + 1..].to_string();
        }
    }
    if let Some(i) = l.find("/library/") {
        return format!("std:{}", &l[i + 9..]);
    }
    l.to_string()
}

/// Run `f` catching panics; a panic becomes a failed verdict with a
/// signature naming the source file and the normalised message.
pub fn guarded<F: FnOnce() -> Verdict>(f: F) -> Verdict {
    *LAST_PANIC.lock() = None;
    match catch_unwind(AssertUnwindSafe(f)) {
        Ok(v) => v,
        Err(_) => {
            let (loc, msg) = LAST_PANIC.lock().take().unwrap_or_else(|| ("<unknown>".into(), "<unknown>".into()));
            Verdict::failed(
                format!("panic:{}:{}", norm_loc(&loc), norm_msg(&msg)),
                format!("panic at {loc}: {msg}"),
            )
            .class("panic")
        }
    }
}

/// Run `f` on a fresh thread with an 8 MiB stack (the size of the main thread
/// that parses at start-up); a panic on that thread propagates to `guarded`.
pub fn on_big_stack<T: Send + 'static, F: FnOnce() -> T + Send + 'static>(f: F) -> T {
    let h = std::thread::Builder::new().stack_size(8 << 20).spawn(f).expect("spawn");
    match h.join() {
        Ok(v) => v,
        Err(e) => std::panic::resume_unwind(e),
    }
}

pub fn case_seed(id: &str, seed: u64, idx: u64) -> [u8; 32] {
    // SplitMix64 over (seed, id hash, idx)
    let mut h: u64 = 0xcbf29ce484222325;
    for b in id.bytes() {
        h = (h ^ b as u64).wrapping_mul(0x100000001b3);
    }
    let mut s = seed
        .wrapping_mul(0x9E3779B97F4A7C15)
        .wrapping_add(h)
        .wrapping_add(idx.wrapping_mul(0xD1B54A32D192ED03));
    let mut out = [0u8; 32];
    for c in out.chunks_mut(8) {
        s = s.wrapping_add(0x9E3779B97F4A7C15);
        let mut z = s;
        z = (z ^ (z >> 30)).wrapping_mul(0xBF58476D1CE4E5B9);
        z = (z ^ (z >> 27)).wrapping_mul(0x94D049BB133111EB);
        z ^= z >> 31;
        c.copy_from_slice(&z.to_le_bytes());
    }
    out
}

pub fn runner_for(id: &str, seed: u64, idx: u64) -> TestRunner {
    let cfg = Config {
        failure_persistence: None,
        ..Config::default()
    };
    TestRunner::new_with_rng(cfg, TestRng::from_seed(RngAlgorithm::ChaCha, &case_seed(id, seed, idx)))
}

pub struct Wrap<P: TypedProp>(pub P);

impl<P: TypedProp + 'static> Wrap<P> {
    fn more(&self, c: &P::C, f: &Fail) -> (P::C, Fail) {
        let mut last_fail = f.clone();
        let sig = f.sig.clone();
        let mut budget = 400;
        let out = {
            let mut fails = |cand: &P::C| -> bool {
                if budget == 0 {
                    return false;
                }
                budget -= 1;
                let v = guarded(|| self.0.judge(cand));
                match v.fail {
                    Some(ff) if ff.sig == sig => {
                        last_fail = ff;
                        true
                    }
                    _ => false,
                }
            };
            self.0.shrink_more(c, &mut fails)
        };
        // re-judge the result so that the detail matches the returned case
        let v = guarded(|| self.0.judge(&out));
        match v.fail {
            Some(ff) if ff.sig == sig => (out, ff),
            _ => (c.clone(), f.clone()),
        }
    }
    fn strat<'a>(&self, tier: Tier, key: u32, cache: &'a mut StratCache) -> &'a BoxedStrategy<P::C> {
        let k = key * 2 + (tier == Tier::Thorough) as u32;
        cache
            .entry(k)
            .or_insert_with(|| Box::new(self.0.strategy(tier, key)))
            .downcast_ref::<BoxedStrategy<P::C>>()
            .expect("strategy type")
    }
}

impl<P: TypedProp + 'static> DynProp for Wrap<P> {
    fn id(&self) -> &'static str {
        self.0.id()
    }
    fn info(&self) -> PropInfo {
        self.0.info()
    }
    fn plan(&self, tier: Tier) -> Plan {
        self.0.plan(tier)
    }
    fn hang_is_violation(&self) -> bool {
        self.0.hang_is_violation()
    }
    fn extra_coverage(&self, classes: &BTreeMap<String, u64>, evals: u64) -> BTreeMap<String, Value> {
        self.0.extra_coverage(classes, evals)
    }

    fn run_index(
        &self,
        tier: Tier,
        seed: u64,
        idx: u64,
        want_json: bool,
        known: &dyn Fn(&str) -> bool,
        cache: &mut StratCache,
    ) -> CaseReport {
        match self.0.gen(tier, seed, idx) {
            Gen::Fixed(c) => {
                let v = guarded(|| self.0.judge(&c));
                let hash = if v.nontrivial { c.canon_hash() } else { 0 };
                let shrunk = v.fail.clone().map(|f| {
                    if known(&f.sig) {
                        return (c.to_json(), f);
                    }
                    let (c2, f2) = self.more(&c, &f);
                    (c2.to_json(), f2)
                });
                let case_json = if want_json || v.fail.is_some() {
                    Some(c.to_json())
                } else {
                    None
                };
                CaseReport {
                    verdict: v,
                    case_json,
                    hash,
                    shrunk,
                }
            }
            Gen::Strat(key) => {
                let mut runner = runner_for(self.0.id(), seed, idx);
                let strat = self.strat(tier, key, cache);
                let mut tree = strat.new_tree(&mut runner).expect("strategy produced no value");
                let c = tree.current();
                let v = guarded(|| self.0.judge(&c));
                let hash = if v.nontrivial { c.canon_hash() } else { 0 };
                let mut shrunk = None;
                if let Some(f0) = v.fail.clone() {
                    if known(&f0.sig) {
                        shrunk = Some((c.to_json(), f0));
                    } else {
                        // Shrink while keeping the same signature.
                        let mut best = (c.clone(), f0.clone());
                        let mut steps = 0;
                        if tree.simplify() {
                            loop {
                                steps += 1;
                                if steps > self.0.max_shrink_steps_for(&c) {
                                    break;
                                }
                                let cand = tree.current();
                                let vv = guarded(|| self.0.judge(&cand));
                                let same = vv.fail.as_ref().map(|f| f.sig == f0.sig).unwrap_or(false);
                                if same {
                                    best = (cand, vv.fail.unwrap());
                                    if !tree.simplify() {
                                        break;
                                    }
                                } else if !tree.complicate() {
                                    break;
                                }
                            }
                        }
                        let (c2, f2) = self.more(&best.0, &best.1);
                        shrunk = Some((c2.to_json(), f2));
                    }
                }
                let case_json = if want_json || v.fail.is_some() {
                    Some(c.to_json())
                } else {
                    None
                };
                CaseReport {
                    verdict: v,
                    case_json,
                    hash,
                    shrunk,
                }
            }
        }
    }

    fn case_json(&self, tier: Tier, seed: u64, idx: u64, cache: &mut StratCache) -> Value {
        match self.0.gen(tier, seed, idx) {
            Gen::Fixed(c) => c.to_json(),
            Gen::Strat(key) => {
                let mut runner = runner_for(self.0.id(), seed, idx);
                let strat = self.strat(tier, key, cache);
                let tree = strat.new_tree(&mut runner).expect("strategy produced no value");
                tree.current().to_json()
            }
        }
    }

    fn judge_json(&self, v: &Value) -> Option<Verdict> {
        let c = P::C::from_json(v)?;
        Some(guarded(|| self.0.judge(&c)))
    }
}

pub fn verif_dir() -> std::path::PathBuf {
    std::env::var("VERIF_DIR")
        .map(std::path::PathBuf::from)
        .unwrap_or_else(|_| {
            // binary lives in <verif>/harness/target/release/vcheck
            let exe = std::env::current_exe().expect("exe");
            exe.ancestors().nth(4).map(|p| p.to_path_buf()).unwrap_or_else(|| "/verif".into())
        })
}

/// Monotone index mapping for proptest-generated selectors (shrinks toward 0).
pub fn pick(sel: u16, len: usize) -> usize {
    if len == 0 {
        return 0;
    }
    ((sel as usize) * len) >> 16
}
