//! Driver: regression replay, worker orchestration, crash/hang attribution,
//! evidence writing, verdict lines and exit code.
use super::known::Known;
use super::*;
use serde_json::json;
use std::collections::{BTreeMap, HashSet};
use std::io::Read;
use std::path::{Path, PathBuf};
use std::process::{Child, Command, Stdio};
use std::time::{Duration, Instant};

pub enum SubStatus {
    Exit(i32),
    Signal(i32),
    Timeout,
}
pub struct SubResult {
    pub status: SubStatus,
    pub stdout: String,
    pub stderr: String,
}

pub fn run_sub(args: &[String], timeout: Duration) -> SubResult {
    let exe = std::env::current_exe().expect("exe");
    let mut child = Command::new(exe)
        .args(args)
        .stdin(Stdio::null())
        .stdout(Stdio::piped())
        .stderr(Stdio::piped())
        .spawn()
        .expect("spawn sub");
    let mut out = child.stdout.take().unwrap();
    let mut err = child.stderr.take().unwrap();
    let th_out = std::thread::spawn(move || {
        let mut s = Vec::new();
        let _ = out.read_to_end(&mut s);
        String::from_utf8_lossy(&s).to_string()
    });
    let th_err = std::thread::spawn(move || {
        let mut s = Vec::new();
        let _ = err.read_to_end(&mut s);
        let s = String::from_utf8_lossy(&s).to_string();
        if s.len() > 4000 {
            // keep head and tail
            let head: String = s.chars().take(1500).collect();
            let tail: String = s.chars().rev().take(1500).collect::<String>().chars().rev().collect();
            format!("{head}\n...\n{tail}")
        } else {
            s
        }
    });
    let t0 = Instant::now();
    let status = loop {
        match child.try_wait() {
            Ok(Some(st)) => {
                use std::os::unix::process::ExitStatusExt;
                break if let Some(sig) = st.signal() {
                    SubStatus::Signal(sig)
                } else {
                    SubStatus::Exit(st.code().unwrap_or(-1))
                };
            }
            Ok(None) => {
                if t0.elapsed() > timeout {
                    let _ = child.kill();
                    let _ = child.wait();
                    break SubStatus::Timeout;
                }
                std::thread::sleep(Duration::from_millis(5));
            }
            Err(_) => break SubStatus::Exit(-1),
        }
    };
    SubResult {
        status,
        stdout: th_out.join().unwrap_or_default(),
        stderr: th_err.join().unwrap_or_default(),
    }
}

/// Classify an abnormal subprocess end into a failure signature.
fn classify_abnormal(r: &SubResult) -> Option<Fail> {
    match r.status {
        SubStatus::Exit(0) => None,
        SubStatus::Exit(c) => Some(Fail {
            sig: format!("abort:exit-{c}"),
            detail: format!("subprocess exited with {c}; stderr: {}", r.stderr),
        }),
        SubStatus::Signal(s) => {
            if r.stderr.contains("has overflowed its stack") {
                Some(Fail {
                    sig: "abort:stack-overflow".into(),
                    detail: format!("stack overflow (signal {s}); stderr: {}", r.stderr),
                })
            } else if r.stderr.contains("memory allocation of") {
                Some(Fail {
                    sig: "resource:alloc-failure".into(),
                    detail: format!("allocation failure under RLIMIT_AS (signal {s}): {}", r.stderr),
                })
            } else {
                Some(Fail {
                    sig: format!("abort:signal-{s}"),
                    detail: format!("killed by signal {s}; stderr: {}", r.stderr),
                })
            }
        }
        SubStatus::Timeout => Some(Fail {
            sig: "hang:no-progress".into(),
            detail: "case did not finish within the watchdog budget when run alone".into(),
        }),
    }
}

/// Judge a case file in a fresh subprocess. Returns the failure (if any).
pub fn judge_file_sub(id: &str, path: &Path, timeout: Duration) -> Result<Option<Fail>, String> {
    let r = run_sub(
        &["judge".into(), id.into(), path.to_string_lossy().to_string()],
        timeout,
    );
    if let Some(f) = classify_abnormal(&r) {
        if matches!(r.status, SubStatus::Exit(_)) {
            return Err(f.detail);
        }
        return Ok(Some(f));
    }
    let v: Value = serde_json::from_str(r.stdout.trim()).map_err(|e| format!("bad judge output: {e}: {}", r.stdout))?;
    if v["fail"].is_null() {
        Ok(None)
    } else {
        Ok(Some(Fail {
            sig: v["fail"]["sig"].as_str().unwrap_or("").to_string(),
            detail: v["fail"]["detail"].as_str().unwrap_or("").to_string(),
        }))
    }
}

struct Shard {
    k: u64,
    from: u64,
    child: Option<Child>,
    last_idx: u64,
    last_change: Instant,
    segments: Vec<u64>, // `from` values of result files
    done: bool,
}

fn spawn_worker(id: &str, tier: Tier, seed: u64, k: u64, n: u64, from: u64, dir: &Path) -> Child {
    let exe = std::env::current_exe().expect("exe");
    Command::new(exe)
        .args([
            "worker",
            id,
            "--tier",
            tier.name(),
            "--seed",
            &seed.to_string(),
            "--shard",
            &k.to_string(),
            "--nshards",
            &n.to_string(),
            "--from",
            &from.to_string(),
            "--dir",
            &dir.to_string_lossy(),
        ])
        .stdin(Stdio::null())
        .stdout(Stdio::null())
        .stderr(Stdio::null())
        .spawn()
        .expect("spawn worker")
}

fn read_progress(dir: &Path, k: u64) -> Option<u64> {
    let b = std::fs::read(dir.join(format!("progress-{k}"))).ok()?;
    if b.len() >= 8 {
        Some(u64::from_le_bytes(b[..8].try_into().unwrap()))
    } else {
        None
    }
}

pub struct RunOpts {
    pub tier: Tier,
    pub seed: u64,
    pub workers: u64,
    pub write_evidence: bool,
}

fn short_hash(s: &str) -> String {
    use std::hash::{Hash, Hasher};
    let mut h = rustc_hash::FxHasher::default();
    s.hash(&mut h);
    format!("{:012x}", h.finish() & 0xffff_ffff_ffff)
}

fn write_replay(vdir: &Path, id: &str, body: &Value) -> PathBuf {
    let dir = vdir.join("work/replays");
    let _ = std::fs::create_dir_all(&dir);
    let s = serde_json::to_string_pretty(body).unwrap();
    let p = dir.join(format!("{id}-{}.json", short_hash(&s)));
    let _ = std::fs::write(&p, s);
    p
}

pub fn run_check(prop: &dyn DynProp, o: &RunOpts) -> i32 {
    let t0 = Instant::now();
    let id = prop.id();
    let vdir = verif_dir();
    let known = Known::load();
    let plan = prop.plan(o.tier);
    let info = prop.info();
    let mut violations: Vec<(String, PathBuf, String)> = vec![]; // sig, replay, detail
    let mut known_lines: BTreeMap<String, (u64, String)> = BTreeMap::new();
    let mut inconclusive: Vec<String> = vec![];
    let mut notes: Vec<String> = vec![];

    // ---- 1. regression / witness tier ----
    let rdir = vdir.join("regress").join(id);
    let mut regress_run = 0u64;
    if let Ok(rd) = std::fs::read_dir(&rdir) {
        let mut files: Vec<PathBuf> = rd.filter_map(|e| e.ok().map(|e| e.path())).filter(|p| p.extension().map(|e| e == "json").unwrap_or(false)).collect();
        files.sort();
        for f in files {
            let Ok(txt) = std::fs::read_to_string(&f) else { continue };
            let Ok(v) = serde_json::from_str::<Value>(&txt) else {
                inconclusive.push(format!("unreadable regress file {}", f.display()));
                continue;
            };
            let status = v["status"].as_str().unwrap_or("regression").to_string();
            regress_run += 1;
            match judge_file_sub(id, &f, Duration::from_secs(plan.hang_secs * 3)) {
                Err(e) => inconclusive.push(format!("regress {}: {e}", f.display())),
                Ok(None) => {
                    if let Some(fid) = status.strip_prefix("known:") {
                        notes.push(format!("known finding {fid} no longer reproduces on witness {}", f.display()));
                    }
                }
                Ok(Some(fail)) => {
                    if fail.sig.starts_with("resource:") {
                        continue;
                    }
                    if let Some(fid) = known.matches(id, &fail.sig) {
                        let what = known.get(&fid).map(|k| k.what.clone()).unwrap_or_default();
                        let e = known_lines.entry(fid).or_insert((0, what));
                        e.0 += 1;
                    } else if fail.sig.starts_with("hang:") && !prop.hang_is_violation() {
                        inconclusive.push(format!("regress {} hung", f.display()));
                    } else {
                        violations.push((fail.sig.clone(), f.clone(), fail.detail.clone()));
                    }
                }
            }
        }
    }

    // ---- 2. generated tier ----
    let run_dir = vdir.join(format!("work/run/{id}-{}-{}", o.tier.name(), std::process::id()));
    let _ = std::fs::remove_dir_all(&run_dir);
    std::fs::create_dir_all(&run_dir).expect("run dir");
    let nshards = o.workers.min(plan.n_cases.max(1)).max(1);
    let mut shards: Vec<Shard> = (0..nshards)
        .map(|k| Shard {
            k,
            from: k,
            child: Some(spawn_worker(id, o.tier, o.seed, k, nshards, k, &run_dir)),
            last_idx: u64::MAX,
            last_change: Instant::now(),
            segments: vec![k],
            done: false,
        })
        .collect();
    let mut crash_events: Vec<(u64, String)> = vec![]; // idx, kind
    let mut evals_crashed = 0u64;
    let mut excluded_resource = 0u64;
    let hang = Duration::from_secs(plan.hang_secs);
    let mut crash_sigs_seen: HashSet<String> = HashSet::new();
    let mut total_crashes = 0u64;
    let mut total_hangs = 0u64;
    let mut hang_confirmed: Option<Fail> = None;
    let mut incomplete_run = false;
    loop {
        let mut all_done = true;
        for s in shards.iter_mut() {
            if s.done {
                continue;
            }
            all_done = false;
            let mut crashed: Option<String> = None;
            if let Some(ch) = s.child.as_mut() {
                match ch.try_wait() {
                    Ok(Some(st)) => {
                        use std::os::unix::process::ExitStatusExt;
                        if st.success() {
                            s.done = true;
                            s.child = None;
                            continue;
                        }
                        crashed = Some(match st.signal() {
                            Some(sig) => format!("signal-{sig}"),
                            None => format!("exit-{}", st.code().unwrap_or(-1)),
                        });
                    }
                    Ok(None) => {
                        let cur = read_progress(&run_dir, s.k).unwrap_or(u64::MAX);
                        if cur != s.last_idx {
                            s.last_idx = cur;
                            s.last_change = Instant::now();
                        } else if s.last_change.elapsed() > hang && cur != u64::MAX {
                            let _ = ch.kill();
                            let _ = ch.wait();
                            crashed = Some("hang".into());
                        }
                    }
                    Err(_) => {
                        crashed = Some("wait-error".into());
                    }
                }
            }
            if let Some(kind) = crashed {
                s.child = None;
                let at = read_progress(&run_dir, s.k).unwrap_or(s.from);
                crash_events.push((at, kind.clone()));
                evals_crashed += 1;
                total_crashes += 1;
                let next = at + nshards;
                if kind == "hang" {
                    total_hangs += 1;
                }
                // every hang costs a full watchdog period: stop restarting after a few
                if next < plan.n_cases && total_crashes < 200 && total_hangs <= 4 {
                    s.from = next;
                    s.segments.push(next);
                    s.last_idx = u64::MAX;
                    s.last_change = Instant::now();
                    s.child = Some(spawn_worker(id, o.tier, o.seed, s.k, nshards, next, &run_dir));
                } else {
                    s.done = true;
                    if next < plan.n_cases {
                        incomplete_run = true;
                    }
                }
            }
        }
        if all_done {
            break;
        }
        std::thread::sleep(Duration::from_millis(50));
    }

    // confirm crashes one at a time in isolation
    for (idx, kind) in &crash_events {
        let budget = if kind == "hang" { hang * 2 } else { hang };
        if kind == "hang" && hang_confirmed.is_some() {
            // one confirmed hang is enough; further ones are counted, not re-run
            continue;
        }
        let r = run_sub(
            &[
                "one".into(),
                id.into(),
                "--tier".into(),
                o.tier.name().into(),
                "--seed".into(),
                o.seed.to_string(),
                "--idx".into(),
                idx.to_string(),
            ],
            budget,
        );
        let fail = match classify_abnormal(&r) {
            Some(f) => f,
            None => {
                // did not reproduce alone: the in-process verdict decides
                let v: Value = serde_json::from_str(r.stdout.trim()).unwrap_or(Value::Null);
                if v["fail"].is_null() {
                    inconclusive.push(format!("worker ended with {kind} at index {idx} but the case passes alone"));
                    continue;
                }
                Fail {
                    sig: v["fail"]["sig"].as_str().unwrap_or("").into(),
                    detail: v["fail"]["detail"].as_str().unwrap_or("").into(),
                }
            }
        };
        if fail.sig.starts_with("resource:") {
            excluded_resource += 1;
            continue;
        }
        if fail.sig.starts_with("hang:") {
            hang_confirmed = Some(fail.clone());
        }
        if let Some(fid) = known.matches(id, &fail.sig) {
            let what = known.get(&fid).map(|k| k.what.clone()).unwrap_or_default();
            known_lines.entry(fid).or_insert((0, what)).0 += 1;
            continue;
        }
        if fail.sig.starts_with("hang:") && !prop.hang_is_violation() {
            inconclusive.push(format!("case {idx} hangs (watchdog); not a violation of this property by itself"));
            continue;
        }
        if fail.sig.starts_with("abort:exit-") {
            inconclusive.push(format!("case {idx}: {}", fail.detail));
            continue;
        }
        if !crash_sigs_seen.insert(fail.sig.clone()) {
            continue;
        }
        // fetch the case for the replay file
        let g = run_sub(
            &[
                "gen".into(),
                id.into(),
                "--tier".into(),
                o.tier.name().into(),
                "--seed".into(),
                o.seed.to_string(),
                "--idx".into(),
                idx.to_string(),
            ],
            Duration::from_secs(60),
        );
        let case: Value = serde_json::from_str(g.stdout.trim()).unwrap_or(Value::Null);
        let sbudget = if fail.sig.starts_with("hang:") { Duration::from_secs(8) } else { budget };
        let case = shrink_crash(prop, id, case, &fail.sig, sbudget);
        let body = json!({"property": id, "status": "violation", "sig": fail.sig, "detail": fail.detail,
            "seed": o.seed, "tier": o.tier.name(), "index": idx, "case": case});
        let p = write_replay(&vdir, id, &body);
        violations.push((fail.sig.clone(), p, fail.detail.clone()));
    }

    // ---- 3. merge ----
    let mut evals = 0u64;
    let mut nontrivial_count = 0u64;
    let mut classes: BTreeMap<String, u64> = BTreeMap::new();
    let mut discards: BTreeMap<String, u64> = BTreeMap::new();
    let mut samples: Vec<Value> = vec![];
    let mut nt_samples: Vec<Value> = vec![];
    let mut hashes: HashSet<u64> = HashSet::new();
    let mut unknown_total: BTreeMap<String, u64> = BTreeMap::new();
    let mut known_sig_total: BTreeMap<String, u64> = BTreeMap::new();
    let mut incomplete = false;
    for s in &shards {
        for seg in &s.segments {
            let p = run_dir.join(format!("result-{}-{}.json", s.k, seg));
            let Ok(txt) = std::fs::read_to_string(&p) else {
                continue;
            };
            let Ok(v) = serde_json::from_str::<Value>(&txt) else { continue };
            evals += v["evaluations"].as_u64().unwrap_or(0);
            nontrivial_count += v["nontrivial"].as_u64().unwrap_or(0);
            if v["stopped_early"].as_bool().unwrap_or(false) {
                incomplete = true;
            }
            for (k, n) in v["classes"].as_object().cloned().unwrap_or_default() {
                *classes.entry(k).or_default() += n.as_u64().unwrap_or(0);
            }
            for (k, n) in v["discards"].as_object().cloned().unwrap_or_default() {
                *discards.entry(k).or_default() += n.as_u64().unwrap_or(0);
            }
            for (fid, e) in v["known_hits"].as_object().cloned().unwrap_or_default() {
                let what = known.get(&fid).map(|k| k.what.clone()).unwrap_or_default();
                known_lines.entry(fid).or_insert((0, what)).0 += e["count"].as_u64().unwrap_or(0);
            }
            for (k, n) in v["unknown_sigs"].as_object().cloned().unwrap_or_default() {
                *unknown_total.entry(k).or_default() += n.as_u64().unwrap_or(0);
            }
            for (k, n) in v["known_sigs"].as_object().cloned().unwrap_or_default() {
                *known_sig_total.entry(k).or_default() += n.as_u64().unwrap_or(0);
            }
            for u in v["unknown"].as_array().cloned().unwrap_or_default() {
                let sig = u["sig"].as_str().unwrap_or("").to_string();
                if violations.iter().any(|(s, _, _)| *s == sig) {
                    continue;
                }
                let body = json!({"property": id, "status": "violation", "sig": sig, "detail": u["detail"],
                    "seed": o.seed, "tier": o.tier.name(), "index": u["index"], "case": u["case"], "original_case": u["original"]});
                let p = write_replay(&vdir, id, &body);
                violations.push((sig, p, u["detail"].as_str().unwrap_or("").to_string()));
            }
            if samples.len() < 4 {
                samples.extend(v["samples"].as_array().cloned().unwrap_or_default().into_iter().take(1));
            }
            if nt_samples.len() < 4 {
                nt_samples.extend(v["nt_samples"].as_array().cloned().unwrap_or_default().into_iter().take(1));
            }
            if !plan.distinct_by_construction {
                if let Ok(b) = std::fs::read(run_dir.join(format!("hashes-{}-{}.bin", s.k, seg))) {
                    for c in b.chunks_exact(8) {
                        hashes.insert(u64::from_le_bytes(c.try_into().unwrap()));
                    }
                }
            }
        }
    }
    evals += evals_crashed;
    let distinct_nontrivial = if plan.distinct_by_construction {
        nontrivial_count
    } else {
        hashes.len() as u64
    };
    let _ = std::fs::remove_dir_all(&run_dir);

    // vacuity
    let mut vacuous: Vec<String> = vec![];
    let incomplete = incomplete || incomplete_run;
    if violations.is_empty() && !incomplete {
        for c in &plan.required_classes {
            if classes.get(*c).copied().unwrap_or(0) == 0 {
                vacuous.push((*c).to_string());
            }
        }
        if distinct_nontrivial < 2 {
            vacuous.push("distinct_nontrivial<2".into());
        }
    }

    // ---- 4. evidence ----
    let wall = t0.elapsed().as_secs_f64();
    if o.write_evidence {
        let mut all_samples = samples;
        all_samples.extend(nt_samples);
        if all_samples.is_empty() {
            all_samples.push(json!("no sample captured"));
        }
        let mut cov = serde_json::Map::new();
        cov.insert("evaluations".into(), json!(evals.max(0)));
        cov.insert("distinct_nontrivial".into(), json!(distinct_nontrivial));
        cov.insert("nontrivial_total".into(), json!(nontrivial_count));
        cov.insert("rule".into(), json!(info.rule));
        cov.insert("samples".into(), json!(all_samples));
        cov.insert("exhaustive".into(), json!(plan.exhaustive));
        cov.insert("classes".into(), json!(classes));
        cov.insert("discarded".into(), json!(discards));
        cov.insert("regress_replayed".into(), json!(regress_run));
        cov.insert(
            "known_findings_hit".into(),
            json!(known_lines.iter().map(|(k, (n, _))| (k.clone(), *n)).collect::<BTreeMap<_, _>>()),
        );
        cov.insert("known_finding_signatures".into(), json!(known_sig_total));
        cov.insert("excluded_resource_exhaustion".into(), json!(excluded_resource));
        cov.insert("worker_crashes".into(), json!(crash_events.len()));
        cov.insert("unknown_failure_signatures".into(), json!(unknown_total));
        cov.insert("inconclusive".into(), json!(inconclusive));
        cov.insert("notes".into(), json!(notes));
        for (k, v) in info.extra {
            cov.insert(k, v);
        }
        for (k, v) in prop.extra_coverage(&classes, evals) {
            cov.insert(k, v);
        }
        let ev = json!({
            "property_id": id, "tier": o.tier.name(), "seed": o.seed, "level": info.level,
            "coverage": cov, "assumptions": info.assumptions, "wall_s": wall,
            "violations": violations.len(),
        });
        let edir = vdir.join("evidence");
        let _ = std::fs::create_dir_all(&edir);
        let _ = std::fs::write(edir.join(format!("{id}.json")), serde_json::to_string_pretty(&ev).unwrap());
    }

    // ---- 5. verdict ----
    for (fid, (n, what)) in &known_lines {
        println!("KNOWN-FINDING: property={id} {fid}: {what} (hit {n}x in this run)");
    }
    for n in &notes {
        println!("NOTE: {n}");
    }
    println!(
        "{id} {}: evaluations={evals} distinct_nontrivial={distinct_nontrivial} violations={} wall={wall:.1}s",
        o.tier.name(),
        violations.len()
    );
    if !violations.is_empty() {
        for (sig, p, detail) in &violations {
            println!("VIOLATION property={id} replay={}", p.display());
            let d: String = detail.chars().take(600).collect();
            println!("  signature: {sig}\n  detail: {d}");
        }
        return 1;
    }
    if !inconclusive.is_empty() {
        for i in &inconclusive {
            println!("INCONCLUSIVE: {i}");
        }
        return 2;
    }
    if !vacuous.is_empty() {
        println!("INCONCLUSIVE: vacuous classes: {vacuous:?}");
        return 2;
    }
    0
}

/// Greedy shrink of a crashing case by subprocess re-judging.
fn shrink_crash(prop: &dyn DynProp, id: &str, case: Value, sig: &str, budget: Duration) -> Value {
    let vdir = verif_dir();
    let tmp = vdir.join(format!("work/shrink-{}-{}.json", id, std::process::id()));
    let mut best = case;
    let t0 = Instant::now();
    let mut improved = true;
    while improved && t0.elapsed() < Duration::from_secs(120) {
        improved = false;
        for cand in prop_shrinks(prop, &best) {
            if t0.elapsed() > Duration::from_secs(120) {
                break;
            }
            let body = json!({"case": cand});
            if std::fs::write(&tmp, body.to_string()).is_err() {
                break;
            }
            if let Ok(Some(f)) = judge_file_sub(id, &tmp, budget) {
                if f.sig == sig {
                    best = cand;
                    improved = true;
                    break;
                }
            }
        }
    }
    let _ = std::fs::remove_file(&tmp);
    best
}

/// Generic JSON-level shrink candidates: drop elements of the arrays
/// "events" / "files"; for "cfg" text, drop top-level forms.
fn prop_shrinks(_prop: &dyn DynProp, case: &Value) -> Vec<Value> {
    let mut out = vec![];
    if let Some(ev) = case.get("events").and_then(|e| e.as_array()) {
        let n = ev.len();
        let mut chunk = n / 2;
        while chunk >= 1 {
            let mut i = 0;
            while i + chunk <= n {
                let mut e2 = ev.clone();
                e2.drain(i..i + chunk);
                let mut c = case.clone();
                c["events"] = Value::Array(e2);
                out.push(c);
                i += chunk;
            }
            chunk /= 2;
        }
    }
    if let Some(cfg) = case.get("cfg").and_then(|c| c.as_str()) {
        let forms = crate::sexpr::top_level_spans(cfg);
        if forms.len() > 1 {
            for (a, b) in forms.iter().rev() {
                let mut t = String::new();
                t.push_str(&cfg[..*a]);
                t.push_str(&cfg[*b..]);
                let mut c = case.clone();
                c["cfg"] = Value::String(t);
                out.push(c);
            }
        }
    }
    out
}
