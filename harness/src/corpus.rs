//! Corpus extraction from the tree under test (/repo): sample configs, doc
//! snippets, configs embedded in tests, list-action names.
use crate::sexpr::{parse, Node};
use std::path::{Path, PathBuf};
use std::sync::OnceLock;

pub struct Entry {
    pub origin: String,
    pub text: String,
    pub forms: Option<Vec<Node>>,
}

pub struct Corpus {
    pub entries: Vec<Entry>,
    pub list_actions: Vec<String>,
    pub atoms: Vec<String>,
    /// names of defcfg options: string literals of parser/src/cfg/defcfg.rs that look like one
    pub defcfg_options: Vec<String>,
    /// (file name, content) of files that sample configs include
    pub side_files: Vec<(String, String)>,
}

pub fn repo_dir() -> PathBuf {
    std::env::var("VERIF_REPO").map(PathBuf::from).unwrap_or_else(|_| PathBuf::from("/repo"))
}

fn rust_string_literals(src: &str) -> Vec<String> {
    let b = src.as_bytes();
    let mut out = vec![];
    let mut i = 0;
    while i < b.len() {
        // raw strings r#"..."# / r"..."
        if b[i] == b'r' && i + 1 < b.len() && (b[i + 1] == b'#' || b[i + 1] == b'"') && (i == 0 || !(b[i - 1].is_ascii_alphanumeric() || b[i - 1] == b'_')) {
            let mut j = i + 1;
            let mut hashes = 0;
            while j < b.len() && b[j] == b'#' {
                hashes += 1;
                j += 1;
            }
            if j < b.len() && b[j] == b'"' {
                let start = j + 1;
                let mut end = None;
                let mut k = start;
                while k < b.len() {
                    if b[k] == b'"' && b[k + 1..].iter().take(hashes).filter(|c| **c == b'#').count() == hashes {
                        end = Some(k);
                        break;
                    }
                    k += 1;
                }
                if let Some(e) = end {
                    out.push(src[start..e].to_string());
                    i = e + 1 + hashes;
                    continue;
                }
            }
        }
        if b[i] == b'"' {
            let start = i + 1;
            let mut k = start;
            let mut s = String::new();
            let mut ok = false;
            while k < b.len() {
                match b[k] {
                    b'\\' if k + 1 < b.len() => {
                        match b[k + 1] {
                            b'n' => s.push('\n'),
                            b't' => s.push('\t'),
                            b'"' => s.push('"'),
                            b'\\' => s.push('\\'),
                            b'\n' => {
                                // line continuation: skip following whitespace
                                k += 2;
                                while k < b.len() && b[k].is_ascii_whitespace() {
                                    k += 1;
                                }
                                continue;
                            }
                            c => {
                                s.push('\\');
                                s.push(c as char);
                            }
                        }
                        k += 2;
                    }
                    b'"' => {
                        ok = true;
                        break;
                    }
                    _ => {
                        // copy one UTF-8 char
                        let ch = src[k..].chars().next().unwrap();
                        s.push(ch);
                        k += ch.len_utf8();
                    }
                }
            }
            if ok {
                out.push(s);
                i = k + 1;
                continue;
            }
        }
        if b[i] == b'\'' {
            // char literal or lifetime: skip a char literal like '"'
            if i + 2 < b.len() && b[i + 2] == b'\'' {
                i += 3;
                continue;
            }
        }
        if b[i] == b'/' && i + 1 < b.len() && b[i + 1] == b'/' {
            while i < b.len() && b[i] != b'\n' {
                i += 1;
            }
            continue;
        }
        i += 1;
    }
    out
}

fn collect_rs(dir: &Path, out: &mut Vec<PathBuf>) {
    if let Ok(rd) = std::fs::read_dir(dir) {
        let mut es: Vec<_> = rd.filter_map(|e| e.ok()).map(|e| e.path()).collect();
        es.sort();
        for p in es {
            if p.is_dir() {
                collect_rs(&p, out);
            } else if p.extension().map(|e| e == "rs").unwrap_or(false) {
                out.push(p);
            }
        }
    }
}

const BASE: &str = "(defsrc a b c)\n(deflayer base a b c)\n";

fn load() -> Corpus {
    let repo = repo_dir();
    let mut entries: Vec<Entry> = vec![];
    let mut side_files = vec![];
    let mut push = |origin: String, text: String| {
        if text.len() > 60_000 {
            return;
        }
        let forms = parse(&text);
        entries.push(Entry { origin, text, forms });
    };
    // sample configs
    if let Ok(rd) = std::fs::read_dir(repo.join("cfg_samples")) {
        let mut ps: Vec<_> = rd.filter_map(|e| e.ok()).map(|e| e.path()).collect();
        ps.sort();
        for p in ps {
            if p.is_file() {
                if let Ok(t) = std::fs::read_to_string(&p) {
                    let name = p.file_name().unwrap().to_string_lossy().to_string();
                    if name.ends_with(".kbd") {
                        push(format!("cfg_samples/{name}"), t.clone());
                    }
                    side_files.push((name, t));
                }
            }
        }
    }
    // parser test configs
    if let Ok(rd) = std::fs::read_dir(repo.join("parser/test_cfgs")) {
        let mut ps: Vec<_> = rd.filter_map(|e| e.ok()).map(|e| e.path()).collect();
        ps.sort();
        for p in ps {
            if p.is_file() {
                if let Ok(t) = std::fs::read_to_string(&p) {
                    let name = p.file_name().unwrap().to_string_lossy().to_string();
                    if name.ends_with(".kbd") {
                        push(format!("parser/test_cfgs/{name}"), t.clone());
                    }
                    side_files.push((name, t));
                }
            }
        }
    }
    // doc snippets
    if let Ok(doc) = std::fs::read_to_string(repo.join("docs/config.adoc")) {
        let mut in_block = false;
        let mut armed = false;
        let mut cur = String::new();
        let mut n = 0;
        for line in doc.lines() {
            if !in_block {
                if line.starts_with("[source") {
                    armed = true;
                } else if line.trim() == "----" && armed {
                    in_block = true;
                    armed = false;
                    cur.clear();
                } else if !line.trim().is_empty() && !line.starts_with('.') {
                    armed = false;
                }
            } else if line.trim() == "----" {
                in_block = false;
                if cur.contains('(') {
                    n += 1;
                    let has_src = cur.contains("(defsrc");
                    let text = if has_src { cur.clone() } else { format!("{BASE}{cur}") };
                    push(format!("docs/config.adoc#{n}"), text);
                }
            } else {
                cur.push_str(line);
                cur.push('\n');
            }
        }
    }
    // string literals in tests
    let mut rs = vec![];
    collect_rs(&repo.join("parser/src/cfg/tests"), &mut rs);
    rs.push(repo.join("parser/src/cfg/tests.rs"));
    collect_rs(&repo.join("src/tests"), &mut rs);
    for p in rs {
        if let Ok(src) = std::fs::read_to_string(&p) {
            let rel = p.strip_prefix(&repo).unwrap_or(&p).to_string_lossy().to_string();
            for (i, lit) in rust_string_literals(&src).into_iter().enumerate() {
                let t = lit.trim_start();
                if t.starts_with('(') && lit.len() > 8 {
                    let text = if lit.contains("(defsrc") { lit.clone() } else { format!("{BASE}{lit}") };
                    push(format!("{rel}#{i}"), text);
                }
            }
        }
    }
    // list action names
    let mut defcfg_options: Vec<String> = vec![];
    if let Ok(src) = std::fs::read_to_string(repo.join("parser/src/cfg/defcfg.rs")) {
        for lit in rust_string_literals(&src) {
            if lit.len() >= 4 && lit.len() < 60 && lit.contains('-') && lit.chars().all(|c| c.is_ascii_lowercase() || c.is_ascii_digit() || c == '-') && !defcfg_options.contains(&lit) {
                defcfg_options.push(lit);
            }
        }
    }
    let mut list_actions = vec![];
    if let Ok(src) = std::fs::read_to_string(repo.join("parser/src/cfg/list_actions.rs")) {
        for lit in rust_string_literals(&src) {
            if !lit.is_empty() && !lit.contains(' ') && lit.len() < 60 && !list_actions.contains(&lit) {
                list_actions.push(lit);
            }
        }
    }
    // atom dictionary
    let mut atoms: Vec<String> = vec![];
    fn walk(n: &Node, out: &mut Vec<String>) {
        match n {
            Node::Atom(a) => {
                if a.len() < 40 {
                    out.push(a.clone());
                }
            }
            Node::List(l) => l.iter().for_each(|c| walk(c, out)),
        }
    }
    for e in &entries {
        if let Some(f) = &e.forms {
            f.iter().for_each(|n| walk(n, &mut atoms));
        }
    }
    atoms.sort();
    atoms.dedup();
    Corpus {
        entries,
        list_actions,
        defcfg_options,
        atoms,
        side_files,
    }
}

pub fn corpus() -> &'static Corpus {
    static C: OnceLock<Corpus> = OnceLock::new();
    C.get_or_init(load)
}
