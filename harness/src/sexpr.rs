//! The harness's own minimal s-expression reader / printer (independent of
//! kanata's), used for structure-aware mutation, rewrites and shrinking.

#[derive(Clone, Debug, PartialEq, Eq, Hash)]
pub enum Node {
    Atom(String),
    List(Vec<Node>),
}

impl Node {
    pub fn atom(s: &str) -> Node {
        Node::Atom(s.to_string())
    }
    pub fn list(v: Vec<Node>) -> Node {
        Node::List(v)
    }
    pub fn print(&self, out: &mut String) {
        match self {
            Node::Atom(a) => out.push_str(a),
            Node::List(l) => {
                out.push('(');
                for (i, n) in l.iter().enumerate() {
                    if i > 0 {
                        out.push(' ');
                    }
                    n.print(out);
                }
                out.push(')');
            }
        }
    }
    pub fn to_text(&self) -> String {
        let mut s = String::new();
        self.print(&mut s);
        s
    }
    pub fn as_atom(&self) -> Option<&str> {
        match self {
            Node::Atom(a) => Some(a),
            _ => None,
        }
    }
    pub fn as_list(&self) -> Option<&Vec<Node>> {
        match self {
            Node::List(l) => Some(l),
            _ => None,
        }
    }
    pub fn head(&self) -> Option<&str> {
        self.as_list().and_then(|l| l.first()).and_then(|n| n.as_atom())
    }
    pub fn count(&self) -> usize {
        match self {
            Node::Atom(_) => 1,
            Node::List(l) => 1 + l.iter().map(|n| n.count()).sum::<usize>(),
        }
    }
    /// Visit nodes in pre-order; `f` gets the pre-order index.
    pub fn get(&self, target: usize) -> Option<&Node> {
        fn go<'a>(n: &'a Node, target: usize, ctr: &mut usize) -> Option<&'a Node> {
            if *ctr == target {
                return Some(n);
            }
            *ctr += 1;
            if let Node::List(l) = n {
                for c in l {
                    if let Some(r) = go(c, target, ctr) {
                        return Some(r);
                    }
                }
            }
            None
        }
        let mut c = 0;
        go(self, target, &mut c)
    }
    pub fn get_mut(&mut self, target: usize) -> Option<&mut Node> {
        fn go<'a>(n: &'a mut Node, target: usize, ctr: &mut usize) -> Option<&'a mut Node> {
            if *ctr == target {
                return Some(n);
            }
            *ctr += 1;
            if let Node::List(l) = n {
                for c in l.iter_mut() {
                    if let Some(r) = go(c, target, ctr) {
                        return Some(r);
                    }
                }
            }
            None
        }
        let mut c = 0;
        go(self, target, &mut c)
    }
}

pub fn print_top(forms: &[Node]) -> String {
    let mut s = String::new();
    for f in forms {
        f.print(&mut s);
        s.push('\n');
    }
    s
}

#[derive(Debug, Clone, Copy, PartialEq)]
enum Tok {
    Open,
    Close,
    Str,
}

fn is_start(b: u8) -> bool {
    matches!(b, b'(' | b')' | b'"') || b.is_ascii_whitespace()
}

/// Tokenise like kanata's lexer (comments and whitespace dropped).
/// Returns None on a lexing error (unterminated string/comment).
fn lex(src: &str) -> Option<Vec<(Tok, usize, usize)>> {
    let b = src.as_bytes();
    let mut i = 0;
    let mut out = vec![];
    while i < b.len() {
        let start = i;
        let c = b[i];
        i += 1;
        match c {
            b'(' => out.push((Tok::Open, start, i)),
            b')' => out.push((Tok::Close, start, i)),
            b'"' => {
                while i < b.len() && b[i] != b'"' && b[i] != b'\n' {
                    i += 1;
                }
                if i < b.len() && b[i] == b'"' {
                    i += 1;
                    out.push((Tok::Str, start, i));
                } else {
                    return None;
                }
            }
            b';' if i < b.len() && b[i] == b';' => {
                while i < b.len() && b[i] != b'\n' {
                    i += 1;
                }
                if i < b.len() {
                    i += 1;
                }
            }
            b'r' if i + 1 < b.len() && b[i] == b'#' && b[i + 1] == b'"' => {
                i += 2;
                let mut found = false;
                while i + 1 < b.len() {
                    if b[i] == b'"' && b[i + 1] == b'#' {
                        i += 2;
                        found = true;
                        break;
                    }
                    i += 1;
                }
                if !found {
                    return None;
                }
                out.push((Tok::Str, start, i));
            }
            b'#' if i < b.len() && b[i] == b'|' => {
                i += 1;
                let mut found = false;
                while i + 1 < b.len() {
                    if b[i] == b'|' && b[i + 1] == b'#' {
                        i += 2;
                        found = true;
                        break;
                    }
                    i += 1;
                }
                if !found {
                    return None;
                }
            }
            c if c.is_ascii_whitespace() => {}
            _ => {
                while i < b.len() && !is_start(b[i]) {
                    i += 1;
                }
                out.push((Tok::Str, start, i));
            }
        }
    }
    Some(out)
}

/// Parse into top-level nodes; None if it does not lex or parentheses are unbalanced.
pub fn parse(src: &str) -> Option<Vec<Node>> {
    let toks = lex(src)?;
    let mut stack: Vec<Vec<Node>> = vec![vec![]];
    for (t, a, b) in toks {
        match t {
            Tok::Open => stack.push(vec![]),
            Tok::Close => {
                let l = stack.pop()?;
                stack.last_mut()?.push(Node::List(l));
            }
            Tok::Str => stack.last_mut()?.push(Node::Atom(src[a..b].to_string())),
        }
    }
    if stack.len() != 1 {
        return None;
    }
    stack.pop()
}

/// Byte spans of the top-level parenthesised forms (best effort; empty on lex error).
pub fn top_level_spans(src: &str) -> Vec<(usize, usize)> {
    let Some(toks) = lex(src) else { return vec![] };
    let mut depth = 0i32;
    let mut start = 0;
    let mut out = vec![];
    for (t, a, b) in toks {
        match t {
            Tok::Open => {
                if depth == 0 {
                    start = a;
                }
                depth += 1;
            }
            Tok::Close => {
                depth -= 1;
                if depth == 0 {
                    out.push((start, b));
                }
                if depth < 0 {
                    return out;
                }
            }
            Tok::Str => {}
        }
    }
    out
}
