//! Reference model of the documented layered-keymap semantics (DESIGN.md
//! Appendix A/D): `core` plus the tap-hold, one-shot and tap-dance add-ons.
//! Written against the AST the harness generates, independent of keyberon's
//! data structures.
use std::collections::VecDeque;

#[derive(Clone, Debug, PartialEq, Eq, Hash)]
pub enum Act {
    Key(u16),
    /// Output chord: modifiers then key, all flagged clear-on-next-action.
    Chord(Vec<u16>),
    Multi(Vec<Act>),
    XX,
    Trans,
    UseDefsrc,
    LayerHeld(usize),
    LayerSwitch(usize),
    ReleaseKey(u16),
    ReleaseLayer(usize),
    TapHold(Box<TapHold>),
    OneShot(Box<OneShot>),
    TapDance(Box<TapDance>),
}

#[derive(Clone, Copy, Debug, PartialEq, Eq, Hash)]
pub enum ThVariant {
    Plain,
    Press,
    Release,
    PressTimeout,
    ReleaseTimeout,
    ReleaseKeys,
    ExceptKeys,
}

#[derive(Clone, Debug, PartialEq, Eq, Hash)]
pub struct TapHold {
    pub variant: ThVariant,
    pub tap_timeout: u16,
    pub hold_timeout: u16,
    pub tap: Act,
    pub hold: Act,
    pub timeout_act: Option<Act>,
    pub keys: Vec<u16>,
}

#[derive(Clone, Copy, Debug, PartialEq, Eq, Hash)]
pub enum OsVariant {
    Press,
    Release,
    PressPcancel,
    ReleasePcancel,
}

#[derive(Clone, Debug, PartialEq, Eq, Hash)]
pub struct OneShot {
    pub variant: OsVariant,
    pub timeout: u16,
    pub inner: Act,
}

#[derive(Clone, Debug, PartialEq, Eq, Hash)]
pub struct TapDance {
    pub eager: bool,
    pub timeout: u16,
    pub acts: Vec<Act>,
}

#[derive(Clone, Debug, PartialEq, Eq, Hash)]
pub struct MCfg {
    pub src: Vec<u16>,
    /// layers[l][i] = action of defsrc position i on layer l
    pub layers: Vec<Vec<Act>>,
    /// transparent-key-resolution layer-stack (the default) when true
    pub layer_stack: bool,
    pub delegate: bool,
    pub block_unmapped: bool,
    pub process_unmapped: bool,
    pub concurrent_tap_hold: bool,
    /// rapid-event-delay (None = default 5)
    pub rapid_event_delay: Option<u16>,
    /// how the layers are written (no influence on the meaning): bit i set = layer i is a
    /// deflayermap; bits 8.. choose its style (every cell listed / `_` for the most frequent
    /// action at a chosen position / transparent cells left out)
    pub layermap: u16,
    /// chords v2 (participants, action), written as `(defchordsv2 (keys) action 50 all-released ())`;
    /// not covered by the reference model: only C05's concurrent-tap-hold scenario uses them
    pub chords_v2: Vec<(Vec<u16>, Act)>,
}

impl MCfg {
    pub fn pause_delay(&self) -> u16 {
        self.rapid_event_delay.unwrap_or(5)
    }
    fn cell(&self, layer: usize, coord: u16) -> Act {
        match self.src.iter().position(|k| *k == coord) {
            Some(i) => self.layers[layer][i].clone(),
            None => {
                if self.block_unmapped {
                    Act::XX
                } else {
                    Act::Trans
                }
            }
        }
    }
}

#[derive(Clone, Debug)]
enum St {
    Key { coord: u16, key: u16, clear: bool },
    Layer { coord: u16, layer: usize },
}

#[derive(Clone, Debug)]
struct Q {
    coord: u16,
    press: bool,
    since: u16,
}

#[derive(Clone, Debug)]
enum WaitKind {
    HoldTap(TapHold),
    TapDance { acts: Vec<Act>, timeout: u16, taps: u16 },
}

#[derive(Clone, Debug)]
struct Waiting {
    coord: u16,
    c: u16,
    delay: u16,
    prev_qlen: i32,
    stack: Vec<usize>,
    kind: WaitKind,
}

#[derive(Clone, Debug, PartialEq, Eq)]
pub enum Decision {
    Tap,
    Hold,
    Timeout,
    /// tap-repress: tap action performed immediately and held
    QuickTap,
}

#[derive(Clone, Debug, PartialEq, Eq, Hash)]
pub struct MOut {
    pub t: u64,
    pub down: bool,
    pub key: u16,
}

pub struct Model<'c> {
    cfg: &'c MCfg,
    states: Vec<St>,
    queue: VecDeque<Q>,
    base: usize,
    pause: u16,
    prev: Vec<u16>,
    pub tick: u64,
    pub out: Vec<MOut>,
    waiting: Option<Waiting>,
    // tap-repress tracker
    lp_coord: Option<u16>,
    lp_left: u16,
    // one-shot
    os_active: Vec<u16>,
    os_deferred: Vec<u16>,
    os_others: Vec<u16>,
    os_remaining: u16,
    os_flag: bool,
    os_variant: OsVariant,
    // eager tap-dance
    tde: Option<Tde>,
    /// log of decisions: (tick, coord, decision)
    pub decisions: Vec<(u64, u16, Decision)>,
    /// set when the model leaves its validated domain (e.g. nested waits)
    pub out_of_domain: Option<&'static str>,
    /// largest number of pending input events seen
    pub max_pending: usize,
    /// classification counters
    pub stat_trans_depth: usize,
    pub stat_layer_active_on_event: bool,
    pub stat_buffered_at_decision: usize,
    pub stat_os_other_key: bool,
    pub stat_max_held_layers: usize,
    /// lazy tap-dance resolution removes *every* queued press of the dance
    /// key (the tree's behaviour) instead of only the counted ones.
    pub td_evict_all_presses: bool,
    /// `to-base-layer` resolves `_` on a held layer straight to defsrc (the tree's behaviour, F18).
    pub legacy_skips_base: bool,
}

#[derive(Clone, Debug)]
struct Tde {
    coord: u16,
    acts: Vec<Act>,
    left: u16,
    orig: u16,
    taps: usize,
}

impl<'c> Model<'c> {
    pub fn new(cfg: &'c MCfg) -> Self {
        Model {
            cfg,
            states: vec![],
            queue: VecDeque::new(),
            base: 0,
            pause: 0,
            prev: vec![],
            tick: 0,
            out: vec![],
            waiting: None,
            lp_coord: None,
            lp_left: 0,
            os_active: vec![],
            os_deferred: vec![],
            os_others: vec![],
            os_remaining: 0,
            os_flag: false,
            os_variant: OsVariant::Press,
            tde: None,
            decisions: vec![],
            out_of_domain: None,
            max_pending: 0,
            stat_trans_depth: 0,
            stat_layer_active_on_event: false,
            stat_buffered_at_decision: 0,
            stat_os_other_key: false,
            stat_max_held_layers: 0,
            td_evict_all_presses: false,
            legacy_skips_base: false,
        }
    }

    pub fn press(&mut self, coord: u16) {
        self.queue.push_back(Q {
            coord,
            press: true,
            since: 0,
        });
        self.max_pending = self.max_pending.max(self.queue.len());
    }
    pub fn release(&mut self, coord: u16) {
        self.queue.push_back(Q {
            coord,
            press: false,
            since: 0,
        });
        self.max_pending = self.max_pending.max(self.queue.len());
    }
    pub fn pending(&self) -> usize {
        self.queue.len()
    }
    pub fn is_quiescent(&self) -> bool {
        self.queue.is_empty() && self.waiting.is_none() && self.os_active.is_empty() && self.states.is_empty()
    }

    fn held_layers(&self) -> Vec<usize> {
        self.states
            .iter()
            .rev()
            .filter_map(|s| match s {
                St::Layer { layer, .. } => Some(*layer),
                _ => None,
            })
            .collect()
    }
    fn current_layer(&self) -> usize {
        self.held_layers().first().copied().unwrap_or(self.base)
    }
    fn stack(&self) -> Vec<usize> {
        let cur = self.current_layer();
        if self.cfg.layer_stack {
            let mut v = self.held_layers();
            v.push(self.base);
            if self.cfg.delegate && cur != 0 && self.base != 0 {
                v.push(0);
            }
            v
        } else {
            // `to-base-layer`: current layer, then the base layer (documented
            // `_` rule), then the first layer when configured, then defsrc.
            let mut v = vec![cur];
            if self.base != cur && !self.legacy_skips_base {
                v.push(self.base);
            }
            if self.cfg.delegate && cur != 0 && (self.legacy_skips_base || self.base != 0) {
                v.push(0);
            }
            v
        }
    }
    fn identity(&self, coord: u16) -> Act {
        if coord == 0 {
            Act::XX
        } else {
            Act::Key(coord)
        }
    }
    /// First non-transparent cell going down the stack; returns the action
    /// and the part of the stack below the layer where it was found.
    fn resolve(&mut self, coord: u16, stack: &[usize]) -> (Act, Vec<usize>) {
        for (i, l) in stack.iter().enumerate() {
            let a = self.cfg.cell(*l, coord);
            if a != Act::Trans {
                self.stat_trans_depth = self.stat_trans_depth.max(i);
                return (a, stack[i + 1..].to_vec());
            }
        }
        self.stat_trans_depth = self.stat_trans_depth.max(stack.len());
        (self.identity(coord), vec![])
    }

    fn lp_update(&mut self, coord: u16) {
        self.lp_coord = Some(coord);
    }

    fn os_handle_other(&mut self, coord: u16) {
        if self.os_active.is_empty() {
            return;
        }
        self.stat_os_other_key = true;
        match self.os_variant {
            OsVariant::Press | OsVariant::PressPcancel => {
                let p = self.cfg.pause_delay();
                self.os_remaining = self.os_remaining.min(p);
                self.pause = p;
            }
            OsVariant::Release | OsVariant::ReleasePcancel => {
                self.os_others.push(coord);
            }
        }
    }

    fn do_action(&mut self, a: &Act, coord: u16, delay: u16, is_oneshot: bool, stack: &[usize], depth: usize) {
        if depth > 40 {
            self.out_of_domain = Some("action recursion too deep");
            return;
        }
        let (a, stack): (Act, Vec<usize>) = if *a == Act::Trans {
            self.resolve(coord, stack)
        } else {
            (a.clone(), stack.to_vec())
        };
        if self.lp_coord != Some(coord) {
            self.lp_left = 0;
        }
        self.states.retain(|s| !matches!(s, St::Key { clear: true, .. }));
        match &a {
            Act::Trans => {
                // resolve never returns Trans
                self.out_of_domain = Some("unresolved trans");
            }
            Act::XX => {
                if !is_oneshot {
                    self.os_handle_other(coord);
                }
            }
            Act::UseDefsrc => {
                let id = self.identity(coord);
                self.do_action(&id, coord, delay, is_oneshot, &[], depth + 1);
            }
            Act::Key(k) => {
                self.lp_update(coord);
                self.states.push(St::Key {
                    coord,
                    key: *k,
                    clear: false,
                });
                if !is_oneshot {
                    self.os_handle_other(coord);
                }
            }
            Act::Chord(keys) => {
                self.lp_update(coord);
                for k in keys {
                    self.states.push(St::Key {
                        coord,
                        key: *k,
                        clear: !is_oneshot,
                    });
                }
                if !is_oneshot {
                    self.os_handle_other(coord);
                }
            }
            Act::Multi(v) => {
                self.lp_update(coord);
                for m in v {
                    self.do_action(m, coord, delay, is_oneshot, &stack, depth + 1);
                }
            }
            Act::LayerHeld(l) => {
                self.lp_update(coord);
                self.states.push(St::Layer { coord, layer: *l });
                if !is_oneshot {
                    self.os_handle_other(coord);
                }
            }
            Act::LayerSwitch(l) => {
                self.lp_update(coord);
                self.base = *l;
                if !is_oneshot {
                    self.os_handle_other(coord);
                }
            }
            Act::ReleaseKey(k) => {
                self.states.retain(|s| !matches!(s, St::Key { key, .. } if key == k));
                if !is_oneshot {
                    self.os_handle_other(coord);
                }
            }
            Act::ReleaseLayer(l) => {
                self.states.retain(|s| !matches!(s, St::Layer { layer, .. } if layer == l));
                if !is_oneshot {
                    self.os_handle_other(coord);
                }
            }
            Act::TapHold(th) => {
                if th.tap_timeout == 0 || self.lp_coord != Some(coord) || self.lp_left == 0 {
                    if self.waiting.is_some() {
                        self.out_of_domain = Some("nested waiting");
                    }
                    let (c, d) = if self.cfg.concurrent_tap_hold {
                        (th.hold_timeout.saturating_sub(delay), 0)
                    } else {
                        (th.hold_timeout, delay)
                    };
                    self.waiting = Some(Waiting {
                        coord,
                        c,
                        delay: d,
                        prev_qlen: -1,
                        stack: stack.clone(),
                        kind: WaitKind::HoldTap((**th).clone()),
                    });
                    self.lp_left = th.tap_timeout;
                } else {
                    self.lp_left = 0;
                    self.decisions.push((self.tick, coord, Decision::QuickTap));
                    self.do_action(&th.tap, coord, delay, is_oneshot, &stack, depth + 1);
                }
                self.lp_update(coord);
            }
            Act::OneShot(os) => {
                self.lp_update(coord);
                self.do_action(&os.inner, coord, delay, true, &[], depth + 1);
                // handle_press(OneShotKey)
                if !self.os_active.is_empty() {
                    if matches!(self.os_variant, OsVariant::PressPcancel | OsVariant::ReleasePcancel)
                        && self.os_active.contains(&coord)
                    {
                        self.os_flag = true;
                    }
                    self.os_deferred.retain(|c| *c != coord);
                }
                self.os_remaining = os.timeout;
                self.os_variant = os.variant;
                self.os_active.push(coord);
                if self.os_active.len() > 16 {
                    let oldest = self.os_active.remove(0);
                    self.release(oldest);
                }
            }
            Act::TapDance(td) => {
                self.lp_update(coord);
                if !td.eager {
                    if self.waiting.is_some() {
                        self.out_of_domain = Some("nested waiting");
                    }
                    self.waiting = Some(Waiting {
                        coord,
                        c: td.timeout,
                        delay,
                        prev_qlen: -1,
                        stack: stack.clone(),
                        kind: WaitKind::TapDance {
                            acts: td.acts.clone(),
                            timeout: td.timeout,
                            taps: 1,
                        },
                    });
                } else {
                    let replace = match &self.tde {
                        None => true,
                        Some(t) => t.coord != coord,
                    };
                    if replace {
                        self.tde = Some(Tde {
                            coord,
                            acts: td.acts.clone(),
                            left: td.timeout,
                            orig: td.timeout,
                            taps: 1,
                        });
                    }
                    let first = td.acts[0].clone();
                    self.do_action(&first, coord, delay, false, &stack, depth + 1);
                }
            }
        }
    }

    fn release_coord(&mut self, coord: u16) {
        // release(coord): drop every state created at that coordinate
        // (a chord flagged clear-on-next-action stays until the next action:
        // keyberon keeps `clear_on_next_release`-style states; for plain
        // chords the flag only matters on the next action.)
        self.states.retain(|s| match s {
            St::Key { coord: c, .. } => *c != coord,
            St::Layer { coord: c, .. } => *c != coord,
        });
    }

    fn release_event(&mut self, coord: u16) {
        if self.os_active.is_empty() {
            self.release_coord(coord);
            return;
        }
        if !self.os_active.contains(&coord) {
            if matches!(self.os_variant, OsVariant::Release | OsVariant::ReleasePcancel)
                && self.os_others.contains(&coord)
            {
                self.os_flag = true;
            }
            self.release_coord(coord);
        } else {
            self.os_deferred.push(coord);
            if self.os_deferred.len() > 16 {
                let o = self.os_deferred.remove(0);
                self.release_coord(o);
            }
        }
    }

    fn dequeue(&mut self, q: Q) {
        // keyberon holds at most 64 states and drops further ones silently (known finding F31):
        // beyond that the model, which is unbounded, is outside its domain
        if self.states.len() > 56 && self.out_of_domain.is_none() {
            self.out_of_domain = Some("state-vector-capacity");
        }
        self.stat_max_held_layers = self.stat_max_held_layers.max(self.held_layers().len());
        if !self.held_layers().is_empty() || self.base != 0 {
            self.stat_layer_active_on_event = true;
        }
        if q.press {
            let stack = self.stack();
            if let Some(t) = self.tde.clone() {
                if Some(q.coord) == self.lp_coord && t.left > 0 && t.taps < t.acts.len() {
                    let a = t.acts[t.taps].clone();
                    let below: Vec<usize> = stack.iter().skip(1).copied().collect();
                    self.do_action(&a, q.coord, q.since, false, &below, 0);
                    if let Some(tt) = self.tde.as_mut() {
                        tt.taps += 1;
                        tt.left = tt.orig;
                    }
                    return;
                } else if let Some(tt) = self.tde.as_mut() {
                    tt.left = 0;
                }
            }
            self.do_action(&Act::Trans, q.coord, q.since, false, &stack, 0);
        } else {
            self.release_event(q.coord);
        }
    }

    fn emit(&mut self) {
        let cur: Vec<u16> = self
            .states
            .iter()
            .filter_map(|s| match s {
                St::Key { key, .. } => Some(*key),
                _ => None,
            })
            .collect();
        for k in &self.prev {
            if !cur.contains(k) {
                self.out.push(MOut {
                    t: self.tick,
                    down: false,
                    key: *k,
                });
            }
        }
        let mut seen = self.prev.clone();
        for k in &cur {
            if !seen.contains(k) {
                seen.push(*k);
                self.out.push(MOut {
                    t: self.tick,
                    down: true,
                    key: *k,
                });
            }
        }
        self.prev = cur;
    }

    fn eval_waiting(&mut self) {
        let mut w = self.waiting.take().expect("waiting");
        w.c = w.c.saturating_sub(1);
        let qlen = self.queue.len() as i32;
        let is_rel = |q: &Q, coord: u16| !q.press && q.coord == coord;
        match w.kind.clone() {
            WaitKind::HoldTap(th) => {
                if qlen == w.prev_qlen && w.c > 0 {
                    self.waiting = Some(w);
                    return;
                }
                w.prev_qlen = qlen;
                let mut decision: Option<Decision> = None;
                let mut skip_timeout = false;
                let qs: Vec<Q> = self.queue.iter().cloned().collect();
                let released_later = |i: usize| qs[i + 1..].iter().any(|r| !r.press && r.coord == qs[i].coord);
                match th.variant {
                    ThVariant::Plain => {}
                    ThVariant::Press | ThVariant::PressTimeout => {
                        if qs.iter().any(|q| q.press) {
                            decision = Some(Decision::Hold);
                        }
                    }
                    ThVariant::Release | ThVariant::ReleaseTimeout => {
                        for i in 0..qs.len() {
                            if qs[i].press && released_later(i) {
                                decision = Some(Decision::Hold);
                                break;
                            }
                        }
                    }
                    ThVariant::ReleaseKeys => {
                        for i in 0..qs.len() {
                            if qs[i].press {
                                if th.keys.contains(&qs[i].coord) {
                                    decision = Some(Decision::Tap);
                                    break;
                                }
                                if released_later(i) {
                                    decision = Some(Decision::Hold);
                                    break;
                                }
                            }
                        }
                    }
                    ThVariant::ExceptKeys => {
                        match qs.iter().find(|q| q.press) {
                            Some(q) => {
                                if th.keys.contains(&q.coord) {
                                    decision = Some(Decision::Tap);
                                }
                            }
                            None => skip_timeout = true,
                        }
                    }
                }
                if decision.is_none() {
                    if let Some(r) = qs.iter().find(|q| is_rel(q, w.coord)) {
                        if w.c > w.delay.saturating_sub(r.since) {
                            decision = Some(Decision::Tap);
                        } else {
                            decision = Some(Decision::Timeout);
                        }
                    } else if w.c == 0 && !skip_timeout {
                        decision = Some(Decision::Timeout);
                    }
                }
                match decision {
                    None => self.waiting = Some(w),
                    Some(d) => {
                        self.stat_buffered_at_decision = self.stat_buffered_at_decision.max(self.queue.len());
                        self.decisions.push((self.tick, w.coord, d.clone()));
                        let stack = w.stack.clone();
                        match d {
                            Decision::Hold => {
                                if self.lp_coord == Some(w.coord) {
                                    self.lp_left = 0;
                                }
                                self.pause = self.cfg.pause_delay();
                                self.do_action(&th.hold, w.coord, 0, false, &stack, 0);
                            }
                            Decision::Tap => {
                                self.do_action(&th.tap, w.coord, 0, false, &stack, 0);
                                self.pause = self.cfg.pause_delay();
                            }
                            Decision::Timeout => {
                                if self.lp_coord == Some(w.coord) {
                                    self.lp_left = 0;
                                }
                                let a = th.timeout_act.clone().unwrap_or(th.hold.clone());
                                self.do_action(&a, w.coord, 0, false, &stack, 0);
                            }
                            Decision::QuickTap => unreachable!(),
                        }
                    }
                }
            }
            WaitKind::TapDance { acts, timeout, taps } => {
                if qlen == w.prev_qlen && w.c > 0 {
                    self.waiting = Some(w);
                    return;
                }
                let n = acts.len() as u16;
                let mut fire: Option<u16> = None;
                let mut new_taps = taps;
                if w.c == 0 {
                    fire = Some(taps);
                } else {
                    let mut count = 1u16;
                    let mut other = false;
                    for q in self.queue.iter() {
                        if q.press && q.coord == w.coord {
                            count += 1;
                        } else if q.press {
                            other = true;
                            break;
                        }
                    }
                    if other || count >= n {
                        fire = Some(count);
                    }
                    new_taps = count;
                }
                match fire {
                    Some(k) => {
                        // evict: the k-1 counted presses (documented intent) —
                        // `evict_all_presses` selects the tree's behaviour.
                        let mut rel_rm = k.saturating_sub(1);
                        let mut press_rm = k.saturating_sub(1);
                        let coord = w.coord;
                        let evict_all = self.td_evict_all_presses;
                        self.queue.retain(|q| {
                            if q.coord != coord {
                                return true;
                            }
                            if !q.press {
                                if rel_rm > 0 {
                                    rel_rm -= 1;
                                    return false;
                                }
                                true
                            } else {
                                if evict_all {
                                    return false;
                                }
                                if press_rm > 0 {
                                    press_rm -= 1;
                                    return false;
                                }
                                true
                            }
                        });
                        let idx = (k.min(n)).saturating_sub(1) as usize;
                        self.decisions.push((self.tick, w.coord, Decision::Tap));
                        self.stat_buffered_at_decision = self.stat_buffered_at_decision.max(self.queue.len());
                        let stack = w.stack.clone();
                        let a = acts[idx].clone();
                        self.do_action(&a, w.coord, 0, false, &stack, 0);
                        self.pause = self.cfg.pause_delay();
                    }
                    None => {
                        w.prev_qlen = self.queue.len() as i32;
                        if new_taps > taps {
                            w.c = timeout;
                        }
                        w.kind = WaitKind::TapDance {
                            acts,
                            timeout,
                            taps: new_taps,
                        };
                        self.waiting = Some(w);
                    }
                }
            }
        }
    }

    /// One millisecond.
    pub fn step(&mut self) {
        self.tick += 1;
        for q in self.queue.iter_mut() {
            q.since = q.since.saturating_add(1);
        }
        self.lp_left = self.lp_left.saturating_sub(1);
        if let Some(t) = self.tde.as_mut() {
            t.left = t.left.saturating_sub(1);
            if t.left == 0 || t.taps >= t.acts.len() {
                self.tde = None;
            }
        }
        // one-shot countdown
        if !self.os_active.is_empty() {
            self.os_remaining = self.os_remaining.saturating_sub(1);
            if self.os_flag || self.os_remaining == 0 {
                self.os_flag = false;
                self.os_remaining = 0;
                self.pause = 0;
                self.os_active.clear();
                self.os_others.clear();
                let d: Vec<u16> = self.os_deferred.drain(..).collect();
                for c in d {
                    self.release_event(c);
                }
            }
        }
        if self.waiting.is_some() {
            self.eval_waiting();
        } else if self.pause > 0 {
            self.pause -= 1;
        } else if let Some(q) = self.queue.pop_front() {
            self.dequeue(q);
        }
        self.emit();
    }
}
