use vcheck::{engine, gen, props};
#[allow(unused_imports)]
use vcheck::{corpus, model, sexpr, sim};

use engine::driver::{run_check, RunOpts};
use engine::worker::{run_worker, WorkerArgs};
use engine::{DynProp, Tier};
use serde_json::{json, Value};

fn arg_val(args: &[String], name: &str) -> Option<String> {
    args.iter().position(|a| a == name).and_then(|i| args.get(i + 1).cloned())
}

fn usage() -> ! {
    eprintln!(
        "usage: vcheck run <ID> [--tier quick|thorough] [--seed N] [--workers N]\n\
         \x20      vcheck replay <ID> <file>\n\
         \x20      vcheck list"
    );
    std::process::exit(2)
}

fn main() {
    let args: Vec<String> = std::env::args().skip(1).collect();
    if args.is_empty() {
        usage();
    }
    let cmd = args[0].as_str();
    if cmd == "tape-case" {
        // the replay file of a raw libFuzzer input of the tape targets: tape-case <ID> <raw> <out.json>
        use vcheck::engine::Case;
        let id = args.get(1).cloned().unwrap_or_else(|| usage());
        let data = std::fs::read(args.get(2).cloned().unwrap_or_else(|| usage())).expect("read raw input");
        let tape: Vec<u16> = data.chunks_exact(2).map(|c| u16::from_le_bytes([c[0], c[1]])).collect();
        let case = match id.as_str() {
            "C01" => props::c01::case_from_tape(&tape).to_json(),
            "C02" => props::c02::case_from_tape(&tape).to_json(),
            _ => usage(),
        };
        let out = serde_json::to_string_pretty(&serde_json::json!({"property": id, "case": case})).expect("json");
        match args.get(3) {
            Some(f) => std::fs::write(f, out).expect("write"),
            None => println!("{out}"),
        }
        return;
    }
    if cmd == "dump-corpus" {
        // seed corpus and dictionary for the libFuzzer target of C03
        let dir = std::path::PathBuf::from(args.get(1).cloned().unwrap_or_else(|| usage()));
        std::fs::create_dir_all(&dir).expect("corpus dir");
        let c = corpus::corpus();
        let mut n = 0;
        for (i, e) in c.entries.iter().enumerate() {
            // whole small texts, and the single top-level forms of the larger ones
            if e.text.len() <= 4096 {
                std::fs::write(dir.join(format!("entry{i}")), &e.text).expect("write");
                n += 1;
            }
            if let Some(forms) = &e.forms {
                for (j, f) in forms.iter().enumerate().take(40) {
                    let t = f.to_text();
                    if t.len() <= 1024 {
                        std::fs::write(dir.join(format!("entry{i}form{j}")), t).expect("write");
                        n += 1;
                    }
                }
            }
        }
        if let Some(dict) = args.get(2) {
            let mut out = String::new();
            for a in c.list_actions.iter().chain(c.atoms.iter()) {
                if a.len() <= 40 && a.chars().all(|ch| ch.is_ascii_graphic() && ch != '"' && ch != '\\') {
                    out.push_str(&format!("\"{a}\"\n"));
                }
            }
            std::fs::write(dict, out).expect("dict");
        }
        println!("{n} corpus files");
        return;
    }
    if cmd == "dbg-gencfg" {
        // developer aid: acceptance rate of the grammar generator
        use proptest::prelude::*;
        use proptest::strategy::ValueTree;
        let profile = if args.get(1).map(|s| s == "boundary").unwrap_or(false) { gen::cfg::Profile::Boundary } else { gen::cfg::Profile::Plausible };
        let n: u64 = args.get(2).and_then(|s| s.parse().ok()).unwrap_or(1000);
        let show: u64 = args.get(3).and_then(|s| s.parse().ok()).unwrap_or(0);
        let strat = prop::collection::vec(any::<u16>(), 0..400);
        let mut reasons: std::collections::BTreeMap<String, (u64, String)> = Default::default();
        let mut ok = 0;
        let mut feats: std::collections::BTreeMap<&'static str, u64> = Default::default();
        engine::install_panic_hook(true);
        for i in 0..n {
            let mut runner = engine::runner_for("dbg", 0, i);
            let tape = strat.new_tree(&mut runner).unwrap().current();
            let b = gen::cfg::build(&tape, profile, profile == gen::cfg::Profile::Boundary);
            if i < show {
                println!("---- #{i}\n{}", b.text);
            }
            let files: rustc_hash::FxHashMap<String, String> = b.files.iter().cloned().collect();
            let text = b.text.clone();
            let r = std::panic::catch_unwind(move || kanata_parser::cfg::new_from_str(&text, files).map(|_| ()));
            match r {
                Ok(Ok(())) => {
                    ok += 1;
                    for f in &b.info.features {
                        *feats.entry(f).or_default() += 1;
                    }
                }
                Ok(Err(e)) => {
                    let msg = format!("{e:?}");
                    let key: String = msg.lines().find(|l| l.contains("help:")).unwrap_or("?").chars().take(110).collect();
                    reasons.entry(key).or_insert((0, b.text.clone())).0 += 1;
                }
                Err(_) => {
                    reasons.entry("PANIC".into()).or_insert((0, b.text.clone())).0 += 1;
                }
            }
        }
        println!("accepted {ok}/{n}");
        let mut rs: Vec<_> = reasons.into_iter().collect();
        rs.sort_by_key(|(_, (c, _))| std::cmp::Reverse(*c));
        for (k, (c, ex)) in rs.iter().take(25) {
            println!("{c:6} {k}");
            if show > 0 {
                println!("{ex}");
            }
        }
        println!("{feats:?}");
        return;
    }
    if cmd == "dbg-trace" {
        // developer aid: per-tick trace of a (cfg, events) case file
        use gen::hist::*;
        use kanata_state_machine::oskbd::KeyValue;
        let txt = std::fs::read_to_string(&args[1]).expect("file");
        let v: Value = serde_json::from_str(&txt).expect("json");
        let case = if v.get("case").is_some() { v["case"].clone() } else { v.clone() };
        let evs = hist_from_json(&case["events"]).expect("events");
        let extra: u64 = args.get(2).and_then(|s| s.parse().ok()).unwrap_or(60);
        let mut sim = sim::Sim::new(case["cfg"].as_str().unwrap()).expect("cfg");
        let mut dump = |sim: &mut sim::Sim, label: String| {
            let l = sim.k.layout.b();
            let from = sim.outs.len();
            let _ = from;
            println!("{label:>10} t={} states={:?} queue={} waiting={} oneshot={:?} idle={} seq_active={} seq_ticks={} seq={:x?} oseq={:x?}", sim.ticks, l.states, l.queue.len(), l.waiting.is_some(), l.oneshot.keys, sim.k.is_idle(), !sim.k.sequence_state.is_inactive(), sim.k.sequence_state.ticks_until_timeout, sim.k.sequence_state.sequence, sim.k.sequence_state.overlapped_sequence);
        };
        let mut shown = 0;
        for e in &evs {
            match e {
                Ev::Gap(g) => {
                    for _ in 0..*g {
                        sim.tick();
                        let _ = sim.k.can_block_update_idle_waiting(1);
                        println!("   out: {}", sim::fmt_outs(&sim.outs[shown..]));
                        shown = sim.outs.len();
                        dump(&mut sim, "tick".into());
                    }
                }
                Ev::Press(k) => { sim.input(*k, KeyValue::Press); dump(&mut sim, format!("d:{}", sim::out_name(*k))); }
                Ev::Release(k) => { sim.input(*k, KeyValue::Release); dump(&mut sim, format!("u:{}", sim::out_name(*k))); }
                Ev::Repeat(k) => { sim.input(*k, KeyValue::Repeat); dump(&mut sim, format!("r:{}", sim::out_name(*k))); }
                Ev::Tap(k) => { sim.input(*k, KeyValue::Tap); dump(&mut sim, format!("tap:{}", sim::out_name(*k))); }
            }
        }
        for _ in 0..extra {
            sim.tick();
            let _ = sim.k.can_block_update_idle_waiting(1);
            println!("   out: {}", sim::fmt_outs(&sim.outs[shown..]));
            shown = sim.outs.len();
            dump(&mut sim, "tick".into());
        }
        return;
    }
    if cmd == "list" {
        for p in props::all() {
            println!("{}", p.id());
        }
        return;
    }
    let id = args.get(1).cloned().unwrap_or_else(|| usage());
    let prop: Box<dyn DynProp> = match props::all().into_iter().find(|p| p.id() == id) {
        Some(p) => p,
        None => {
            eprintln!("unknown property {id}");
            std::process::exit(2)
        }
    };
    let tier = arg_val(&args, "--tier")
        .or_else(|| std::env::var("VERIF_TIER").ok())
        .and_then(|t| Tier::parse(&t))
        .unwrap_or(Tier::Quick);
    let seed: u64 = arg_val(&args, "--seed")
        .or_else(|| std::env::var("VERIF_SEED").ok())
        .and_then(|s| s.trim().parse::<i128>().ok())
        .map(|v| v as u64)
        .unwrap_or(0);
    match cmd {
        "run" => {
            let workers = arg_val(&args, "--workers").and_then(|w| w.parse().ok()).unwrap_or_else(|| {
                std::thread::available_parallelism().map(|n| n.get() as u64).unwrap_or(8).min(16)
            });
            let code = run_check(
                prop.as_ref(),
                &RunOpts {
                    tier,
                    seed,
                    workers,
                    write_evidence: true,
                },
            );
            std::process::exit(code);
        }
        "worker" => {
            let a = WorkerArgs {
                tier,
                seed,
                shard: arg_val(&args, "--shard").and_then(|s| s.parse().ok()).unwrap_or(0),
                nshards: arg_val(&args, "--nshards").and_then(|s| s.parse().ok()).unwrap_or(1),
                from: arg_val(&args, "--from").and_then(|s| s.parse().ok()).unwrap_or(0),
                dir: arg_val(&args, "--dir").map(Into::into).unwrap_or_else(|| usage()),
            };
            std::process::exit(run_worker(prop.as_ref(), &a));
        }
        "one" => {
            // run one generated case alone; print verdict JSON
            engine::worker::set_limits();
            engine::install_panic_hook(false);
            let idx: u64 = arg_val(&args, "--idx").and_then(|s| s.parse().ok()).unwrap_or(0);
            let mut cache = Default::default();
            let rep = prop.run_index(tier, seed, idx, true, &|_| true, &mut cache);
            let f = rep.verdict.fail.map(|f| json!({"sig": f.sig, "detail": f.detail}));
            println!("{}", json!({"fail": f, "nontrivial": rep.verdict.nontrivial, "case": rep.case_json}));
        }
        "gen" => {
            let idx: u64 = arg_val(&args, "--idx").and_then(|s| s.parse().ok()).unwrap_or(0);
            let mut cache = Default::default();
            println!("{}", prop.case_json(tier, seed, idx, &mut cache));
        }
        "judge" | "replay" => {
            engine::worker::set_limits();
            engine::install_panic_hook(cmd == "judge");
            let file = args.get(2).cloned().unwrap_or_else(|| usage());
            let txt = std::fs::read_to_string(&file).unwrap_or_else(|e| {
                eprintln!("cannot read {file}: {e}");
                std::process::exit(2)
            });
            let v: Value = serde_json::from_str(&txt).unwrap_or_else(|e| {
                eprintln!("bad json {file}: {e}");
                std::process::exit(2)
            });
            let case = if v.get("case").is_some() { v["case"].clone() } else { v.clone() };
            let Some(verdict) = prop.judge_json(&case) else {
                eprintln!("case in {file} does not decode for {id}");
                std::process::exit(2)
            };
            let f = verdict.fail.clone().map(|f| json!({"sig": f.sig, "detail": f.detail}));
            if cmd == "judge" {
                println!("{}", json!({"fail": f, "nontrivial": verdict.nontrivial, "classes": verdict.classes, "discard": verdict.discard}));
            } else {
                match verdict.fail {
                    None => {
                        println!("replay {id}: case passes");
                    }
                    Some(f) => {
                        println!("replay {id}: FAILS\n  signature: {}\n  detail: {}", f.sig, f.detail);
                        let known = engine::known::Known::load();
                        if let Some(fid) = known.matches(&id, &f.sig) {
                            println!("KNOWN-FINDING: property={id} {fid}");
                        } else {
                            println!("VIOLATION property={id} replay={file}");
                            std::process::exit(1);
                        }
                    }
                }
            }
        }
        _ => usage(),
    }
}
