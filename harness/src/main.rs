fn main() { println!("hi"); }
