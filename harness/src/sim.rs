//! Driving the real kanata code one tick at a time and observing its output.
use kanata_state_machine::oskbd::{KeyEvent, KeyValue};
use kanata_state_machine::{str_to_oscode, Kanata, OsCode};
use rustc_hash::FxHashMap;
use std::sync::OnceLock;

#[derive(Clone, Debug, PartialEq, Eq, Hash, PartialOrd, Ord)]
pub enum OutEv {
    Down(u16),
    Up(u16),
    BtnDown(String),
    BtnUp(String),
    Scroll(String),
    Move(String),
    Unicode(String),
    Code(String),
    Other(String),
}

#[derive(Clone, Debug, PartialEq, Eq, Hash)]
pub struct Out {
    /// tick number (1-based count of `tick()` calls) during which it was
    /// emitted; events emitted directly by an input call carry the number of
    /// ticks run so far.
    pub t: u64,
    pub ev: OutEv,
    /// emitted from inside `handle_input_event` (OS repeat forwarding)
    pub direct: bool,
}

fn name_table() -> &'static (FxHashMap<String, u16>, Vec<String>) {
    static T: OnceLock<(FxHashMap<String, u16>, Vec<String>)> = OnceLock::new();
    T.get_or_init(|| {
        let mut m = FxHashMap::default();
        let mut names = vec![String::new(); 768];
        for v in 0u16..768 {
            if let Some(o) = OsCode::from_u16(v) {
                let kc = kanata_keyberon::key_code::KeyCode::from(o);
                let n = format!("{kc:?}");
                m.insert(n.clone(), v);
                names[v as usize] = n;
            }
        }
        (m, names)
    })
}

/// Name printed by the simulated output for a code ("A", "LShift", ...).
pub fn out_name(code: u16) -> String {
    name_table().1.get(code as usize).cloned().unwrap_or_default()
}

pub fn code_of(name: &str) -> u16 {
    str_to_oscode(name).map(|o| o.as_u16()).unwrap_or_else(|| panic!("harness: unknown key name {name}"))
}

pub fn parse_out(s: &str) -> Option<OutEv> {
    if s.starts_with("t:") {
        return None;
    }
    let tbl = &name_table().0;
    if let Some(r) = s.strip_prefix("out:↓") {
        return Some(tbl.get(r).map(|c| OutEv::Down(*c)).unwrap_or_else(|| OutEv::Other(s.to_string())));
    }
    if let Some(r) = s.strip_prefix("out:↑") {
        return Some(tbl.get(r).map(|c| OutEv::Up(*c)).unwrap_or_else(|| OutEv::Other(s.to_string())));
    }
    if let Some(r) = s.strip_prefix("out🖰:↓") {
        return Some(OutEv::BtnDown(r.to_string()));
    }
    if let Some(r) = s.strip_prefix("out🖰:↑") {
        return Some(OutEv::BtnUp(r.to_string()));
    }
    if let Some(r) = s.strip_prefix("out🖰:move ") {
        return Some(OutEv::Move(r.to_string()));
    }
    if let Some(r) = s.strip_prefix("scroll:") {
        return Some(OutEv::Scroll(r.to_string()));
    }
    if let Some(r) = s.strip_prefix("outU:") {
        return Some(OutEv::Unicode(r.to_string()));
    }
    if let Some(r) = s.strip_prefix("out-code:") {
        return Some(OutEv::Code(r.to_string()));
    }
    Some(OutEv::Other(s.to_string()))
}

pub struct Sim {
    pub k: Kanata,
    pub ticks: u64,
    pub outs: Vec<Out>,
}

impl Sim {
    pub fn new(cfg: &str) -> Result<Sim, String> {
        Sim::new_with_files(cfg, Default::default())
    }
    pub fn new_with_files(cfg: &str, files: std::collections::HashMap<String, String>) -> Result<Sim, String> {
        let fc: rustc_hash::FxHashMap<String, String> = files.into_iter().collect();
        match Kanata::new_from_str(cfg, fc) {
            Ok(k) => Ok(Sim {
                k,
                ticks: 0,
                outs: Vec::new(),
            }),
            Err(e) => Err(format!("{e}")),
        }
    }
    fn collect(&mut self, direct: bool) -> usize {
        let evs = &mut self.k.kbd_out.outputs.events;
        let mut n = 0;
        for s in evs.drain(..) {
            if let Some(ev) = parse_out(&s) {
                self.outs.push(Out {
                    t: self.ticks,
                    ev,
                    direct,
                });
                n += 1;
            }
        }
        n
    }
    pub fn input(&mut self, code: u16, value: KeyValue) -> usize {
        let code = OsCode::from_u16(code).expect("harness: valid code");
        if let Err(e) = self.k.handle_input_event(&KeyEvent { code, value }) {
            panic!("handle_input_event returned error: {e}");
        }
        self.collect(true)
    }
    pub fn press(&mut self, code: u16) {
        self.input(code, KeyValue::Press);
    }
    pub fn release(&mut self, code: u16) {
        self.input(code, KeyValue::Release);
    }
    /// OS repeat; returns number of output events it produced directly.
    pub fn repeat(&mut self, code: u16) -> usize {
        self.input(code, KeyValue::Repeat)
    }
    /// One millisecond. Returns the number of output events emitted.
    pub fn tick(&mut self) -> usize {
        self.ticks += 1;
        if let Err(e) = self.k.tick_ms(1, &None) {
            panic!("tick_ms returned error: {e}");
        }
        self.collect(false)
    }
    pub fn tick_n(&mut self, n: u64) {
        for _ in 0..n {
            self.tick();
        }
    }
}

/// Keys / buttons the OS sees as down, derived from the output log.
#[derive(Default, Clone, Debug)]
pub struct OsState {
    pub keys: std::collections::BTreeSet<u16>,
    pub btns: std::collections::BTreeSet<String>,
}
impl OsState {
    /// Apply an output event; returns true when it is a state transition.
    pub fn apply(&mut self, o: &Out) -> bool {
        match &o.ev {
            OutEv::Down(k) => {
                if o.direct {
                    false
                } else {
                    self.keys.insert(*k)
                }
            }
            OutEv::Up(k) => self.keys.remove(k),
            OutEv::BtnDown(b) => self.btns.insert(b.clone()),
            OutEv::BtnUp(b) => self.btns.remove(b),
            _ => false,
        }
    }
    pub fn anything_down(&self) -> bool {
        !self.keys.is_empty() || !self.btns.is_empty()
    }
}

pub fn fmt_outs(outs: &[Out]) -> String {
    let mut s = String::new();
    for o in outs {
        let e = match &o.ev {
            OutEv::Down(k) => format!("↓{}", out_name(*k)),
            OutEv::Up(k) => format!("↑{}", out_name(*k)),
            OutEv::BtnDown(b) => format!("🖰↓{b}"),
            OutEv::BtnUp(b) => format!("🖰↑{b}"),
            OutEv::Scroll(x) => format!("scroll:{x}"),
            OutEv::Move(x) => format!("move:{x}"),
            OutEv::Unicode(x) => format!("U:{x}"),
            OutEv::Code(x) => format!("code:{x}"),
            OutEv::Other(x) => format!("?{x}"),
        };
        s.push_str(&format!("{}@{}{} ", e, o.t, if o.direct { "r" } else { "" }));
    }
    s
}
