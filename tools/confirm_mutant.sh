#!/bin/bash
# tools/confirm_mutant.sh <scratch-worktree> <mutant-dir>
# Confirms independently: (1) patch alone -> whole suite passes, (2) patch+demo -> suite has a failure,
# (3) demo alone -> whole suite passes. Prints one summary line.
W="$1"; M="$2"
cd "$W" || exit 2
git checkout -q -- . && git clean -qfd -e target
run() { cargo test --workspace --no-fail-fast --offline 2>&1 | grep -E "^test result|panicked|FAILED|error(\[|:)" ; }
res() { # ok if no failed test and no compile error
  out="$(run)"; if echo "$out" | grep -qE "FAILED|error(\[|:)|[1-9][0-9]* failed"; then echo FAIL; else echo PASS; fi; }
git apply "$M/patch.diff" || { echo "$M: patch does not apply"; exit 1; }
r1=$(res)
git apply "$M/demo.diff" || { echo "$M: demo does not apply"; git checkout -q -- .; git clean -qfd -e target; exit 1; }
r2=$(res)
git apply -R "$M/patch.diff"
r3=$(res)
git checkout -q -- . && git clean -qfd -e target
echo "$M: patch-only=$r1 patch+demo=$r2 demo-only=$r3  (want PASS FAIL PASS)"
