#!/usr/bin/env python3
"""Regenerates /verif/MANIFEST.json from the table below (kept in one place so the
manifest stays valid while checks are added)."""
import json, os
V = os.path.dirname(os.path.dirname(os.path.abspath(__file__)))
ids = [json.loads(l)["id"] for l in open(f"{V}/properties.jsonl")]

CHECKS = {
 "C04": dict(
  cat="exploration", ref="DESIGN.md §4 C04, Appendix A.1/D",
  technique="model-based property testing: exhaustive small-scope schedule enumeration + proptest-generated configs/histories against a reference model of the layered keymap (full timestamped output equality)",
  text="Every generated case is run on the real kanata state machine (real parser, real keyberon layout, simulated OS output) and on an independent reference model of the documented layered semantics; the complete timestamped press/release output must be equal. Exhaustive over all toggle schedules of <= N events (N=5 quick, 7 thorough) over 3 keys with gaps {0,1,2} on 12 configs, random beyond that. Exploration level: no claim outside the explored scope.",
  note="Trusts: the harness's reference model and its pinned tick conventions (DESIGN.md Appendix A.1), kanata's simulated_output backend as the OS boundary. Cases with >= 32 pending events are discarded (outside the statement). Known finding F18 (to-base-layer skips the base layer) is recognised only by an exact match against the model with that single rule changed."),
}

NOT_YET = "check not built yet (work in progress; see DESIGN.md §4)"

m = {
 "version": 1,
 "setup_cmd": "cd /verif/harness && CARGO_NET_OFFLINE=true cargo build --release --offline",
 "hooks": {
  "guard": "--cfg kanata_verif",
  "enable": "no source hooks are needed: the harness links /repo's working tree as path dependencies and builds kanata with its own `simulated_output` feature; nothing in /repo is guarded by the flag",
  "baseline_off_cmd": "cd /repo && cargo test --workspace --no-fail-fast --offline",
  "source_commits": [],
  "add_only": True,
 },
 "engines": [{
  "name": "vcheck", "path": "/verif/harness",
  "serves_properties": sorted(CHECKS),
  "kind_free_text": "Rust property-based testing harness (proptest strategies with seeded per-case runners and ValueTree shrinking, exhaustive small-scope enumeration, isolated worker subprocesses with crash/hang attribution) linking the real kanata, kanata-parser and kanata-keyberon crates",
 }],
 "checks": [],
 "not_applicable": [],
 "notes": "Run `./check <ID> quick|thorough`; `./check <ID> --replay <file>` re-judges one saved case. Exit 0 held / 1 VIOLATION / 2 inconclusive or infrastructure. Known findings: /verif/known_findings.json.",
}
for i in ids:
    if i in CHECKS:
        c = CHECKS[i]
        m["checks"].append({
            "property_id": i,
            "quick_cmd": f"cd /verif && ./check {i} quick",
            "thorough_cmd": f"cd /verif && ./check {i} thorough",
            "evidence_file": f"/verif/evidence/{i}.json",
            "replay_cmd_template": f"cd /verif && ./check {i} --replay {{path}}",
            "engine": "vcheck",
            "level_claimed": {"category": c["cat"], "text": c["text"], "design_ref": c["ref"]},
            "level_note": c["note"],
            "technique": c["technique"],
        })
    else:
        m["not_applicable"].append({"property_id": i, "reason": NOT_YET})
json.dump(m, open(f"{V}/MANIFEST.json", "w"), indent=1)
print("checks:", [c["property_id"] for c in m["checks"]])
