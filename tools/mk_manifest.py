#!/usr/bin/env python3
"""Regenerates /verif/MANIFEST.json from the table below (kept in one place so the
manifest stays valid while checks are added)."""
import json, os
V = os.path.dirname(os.path.dirname(os.path.abspath(__file__)))
ids = [json.loads(l)["id"] for l in open(f"{V}/properties.jsonl")]

CHECKS = {
 "C01": dict(
  cat="exploration", ref="DESIGN.md §4 C01",
  technique="grammar-based generation of accepted configurations (whole action grammar, non-latching) x generated physically consistent histories incl. capacity bursts, run on the real state machine through a loop emulation; oracle = end-state invariant (nothing down at the OS, no further output, idle and can-block) after an adaptive settle period with a hard bound derived from the configuration; proptest + ddmin shrinking; the thorough tier adds coverage-guided fuzzing (cargo-fuzz / libFuzzer, 16 processes) of the generator's tape of choices with the same judge function as in-target oracle",
  text="After the last release the harness keeps ticking (calling the idle-blocking decision every ms so that on-idle actions run) until kanata has been completely quiet for 300 consecutive ticks; if that does not happen within 6 x (sum of configured timeouts + macro lengths) + 6000 ticks the case is a violation naming what is stuck. Capacity configs press 33-40 keys within a tick, hold > 64 states, > 8 tap-holds, > 16 one-shots, > 4 macros.",
  note="Latching constructs are excluded by construction (and rejected by the judge so shrinking cannot drift there). Seven capacity / custom-event defects are recorded as known findings (F6 F6b F28 F29 F30 F31 F32) and recognised by observable classifiers (queue full at an input call, state vector full, two custom states changing in one tick, action queue never draining, ...); two defects (F22, F7) were repaired with fix: commits."),

 "C02": dict(
  cat="exploration", ref="DESIGN.md §4 C02",
  technique="grammar-based generation of accepted configurations (tape-driven generator over the whole action grammar, boundary numerics, actions in every context) x unrestricted generated event histories, run on the real state machine in isolated workers; oracle = no panic / error / abort / hang; proptest + ddmin shrinking; the thorough tier adds coverage-guided fuzzing (cargo-fuzz / libFuzzer with AddressSanitizer, 16 processes) of the generator's tape of choices with the same judge function as in-target oracle",
  text="Every accepted generated configuration is driven with physically impossible histories too (repeated presses, releases of keys that are up, taps, repeats, floods of up to 5000 events, gaps at every timeout boundary and beyond the u16 range), half of them through the idle-blocking decision as well. Any panic (overflow checks and debug assertions on), error return, abort or confirmed hang is a violation, attributed to the exact case by the driver and shrunk.",
  note="Three chords-v2 capacity assertions (F4a-c) are recorded as known findings; their triggers (floods / repeated presses with chords v2 configured) are excluded from the generator by construction so the search continues behind them. Seven run-time crash defects found by this check were repaired with fix: commits; witnesses in regress/C02 are replayed first."),

 "C03": dict(
  cat="exploration", ref="DESIGN.md §4 C03",
  technique="structure-aware mutation fuzzing (proptest-generated mutation programs over a corpus extracted from the tree: sample configs, doc snippets, test configs) with an in-target oracle on the returned diagnostic; crash/hang attribution by isolated worker processes; ddmin shrinking; the thorough tier adds coverage-guided byte-level fuzzing (cargo-fuzz / libFuzzer, 16 processes, fresh seed corpus and dictionary extracted from the tree) of the same oracle function",
  text="Each generated text (with its includable files present / missing / empty / malformed / unreadable / included twice) is loaded by the real parser (new_from_str, and new_from_file on scratch directories) on an 8 MiB-stack thread: it must return Ok or a miette diagnostic whose labels lie inside a file that was given, and rendering it (fancy and plain) must return; a panic, abort (stack overflow), or confirmed hang is a violation. Failures are shrunk by deleting sub-expressions. The thorough tier runs 20 M inputs.",
  note="Bounded domain: text <= 64 KiB, nesting <= ~70; allocation failure under a 6 GiB address-space limit is counted as resource exhaustion (excluded). Ten parser defects found by this check were repaired with fix: commits; their witnesses in regress/C03 are replayed first on every run."),

 "C04": dict(
  cat="exploration", ref="DESIGN.md §4 C04, Appendix A.1/D",
  technique="model-based property testing: exhaustive small-scope schedule enumeration + proptest-generated configs/histories against a reference model of the layered keymap (full timestamped output equality)",
  text="Every generated case is run on the real kanata state machine (real parser, real keyberon layout, simulated OS output) and on an independent reference model of the documented layered semantics; the complete timestamped press/release output must be equal. Exhaustive over all toggle schedules of <= N events (N=5 quick, 7 thorough) over 3 keys with gaps {0,1,2} on 12 configs, random beyond that. Exploration level: no claim outside the explored scope.",
  note="Trusts: the harness's reference model and its pinned tick conventions (DESIGN.md Appendix A.1), kanata's simulated_output backend as the OS boundary. Cases with >= 32 pending events are discarded (outside the statement). Known finding F18 (to-base-layer skips the base layer) is recognised only by an exact match against the model with that single rule changed."),
 "C05": dict(
  cat="exploration", ref="DESIGN.md §4 C05, Appendix A.2/D",
  technique="model-based property testing: exhaustive schedule enumeration at the timeout boundary (gaps {0,1,H-1,H,H+1}) + proptest-generated interleavings of two tap-hold keys, compared with a reference model of all seven tap-hold variants",
  text="For every tap-hold variant, hold target (key / layer), timeout H, tap-repress window, concurrent-tap-hold and rapid-event-delay setting, every toggle schedule of <= N events (N=4 quick, 5 thorough) over the tap-hold key and two other keys is run on the real code and on the reference model, which predicts which of tap/hold/timeout fires, at which tick, and the complete timestamped output (hence also that buffered keys are neither lost, nor output early, nor reordered). Random part: two tap-hold keys interleaved.",
  note="Trusts the reference model and the pinned tick conventions (Appendix A.2). Queue-overflow (>= 32 pending) and nested waits reached only through overflow are outside the model and are discarded (covered by C01/C02 invariants)."),
 "C06": dict(
  cat="exploration", ref="DESIGN.md §4 C06, Appendix A.3/D",
  technique="model-based property testing: exhaustive schedule enumeration with gaps {0,1,T-1,T,T+1} + proptest-generated histories with stacked one-shots (incl. > 16), compared with a reference model of the four one-shot end variants",
  text="All four end variants, one-shot of key / output chord / layer-while-held, timeouts {5,30}, rapid-event-delay {0,5}: every toggle schedule of <= N events (4-5) over one or two one-shot keys and two plain keys that differ on the one-shot layer is compared, with full timestamped equality, against the reference model (next-key-only effect, expiry at exactly T, stacking and restart, held one-shot = plain key, pcancel, overflow of the 16-entry table).",
  note="Trusts the reference model (Appendix A.3). One end-variant per configuration. Cases reaching kanata's 12-active-layer capacity or >= 32 pending events are discarded."),
 "C07": dict(
  cat="exploration", ref="DESIGN.md §4 C07",
  technique="differential (paired) execution on generated configurations and histories: the processing loop's control flow is emulated on a virtual clock around the real can-block decision, once blocking and once ticking every millisecond; oracle = identical observable output with identical virtual timestamps; proptest + ddmin shrinking; plus, for one case in 300, the real processing thread in real time against the deterministic stepper on time-insensitive configurations",
  text="Relates two executions of the real state machine for every generated (config, history): whenever can_block_update_idle_waiting says the loop may sleep, the blocking run jumps to the next input event without ticking while the reference run keeps ticking; all OS-observable output (key/button state transitions, unicode, mouse, scroll, raw codes) must agree event for event and millisecond for millisecond, including what a further tick would still emit after the last event.",
  note="Virtual clock for the paired runs; the real-thread cases (500 per quick run) cover event delivery, blocking and wake-up of the real loop for time-insensitive configurations only; the nanosecond remainder carry of handle_time_ticks is not decided (DESIGN.md §8). Two events in the same millisecond are excluded by construction (inherent +-1 tick jitter of the real loop). Four is_idle defects found by this check were repaired with fix: commits."),

 "C08": dict(
  cat="exploration", ref="DESIGN.md §4 C08, Appendix A.5",
  technique="generated macro bodies (grammar-based, each macro with its own key alphabet) x generated press/release histories; the harness expands every body itself and parses the OS output per activation against that expansion (complete runs, or prefix + clean-up where cancellation is possible), with timing lower bounds and cancellation invariants; plus a cancellation sweep (differential: the same activation with and without the cancel trigger, the trigger at every millisecond of the run, exact cut-off) and eviction bursts; proptest shrinking",
  text="For 1-6 macro keys in all variants the OS transitions on each macro's private keys are segmented by activation and must be complete repetitions of the harness's own expansion of the body (press/release order, modifier groups, nested lists; set semantics for keys pressed twice), each step at least 1 ms after the previous one and not earlier than the stated delays; nothing before the trigger, nothing down at the end; in configs without cancel variants every activation of a plain / repeating macro completes regardless of other keys typed; a repeating macro starts no round after its release was processed; no macro press after a release-cancel or cancel-on-press trigger took effect.",
  note="Times are lower bounds (the statement says 'at least'). Cancel variants cancel every running macro (documented), so completeness is only demanded in configs without them. With more than 4 macros running at once (documented limit) only 'nothing before the trigger, nothing left down' is demanded. Re-activating a macro while a copy may still run is skipped. F38 (cancel window overwritten) was found here and repaired."),

 "C09": dict(
  cat="exploration", ref="DESIGN.md §4 C09",
  technique="generated chord tables (v1 defchords and v2 defchordsv2) with a metamorphic relation over press orders (every permutation of a chord's keys must give the same timestamped OS transitions as the sorted order) plus reference oracles (exactly-once firing, release rule, nothing swallowed, disabled layer); proptest shrinking",
  text="For a chord of a generated table (overlapping chords, sub- and super-chords, both v2 release behaviours, disabled layers, timeouts 8/30) all its keys are pressed with a span well below, just inside, or beyond the timeout and released in a chosen order, optionally followed by a non-chord key: within the timeout the chord's action must appear exactly once and nothing else of the participants, be released per the release rule and no later than the last participant; beyond it the whole chord must not fire and no key may be swallowed; a participant alone gives its own action; a v2 chord does not fire on its disabled layer. Every permutation of the press order (up to 24) is run as well and must give the same observable result.",
  note="Spans within 2 ms of the timeout are judged only metamorphically (v1 and v2 place the exact boundary differently). For v1 the statement only bounds when the chord output goes up, so order-independence is asserted on the timestamped presses. The v1 decomposition of undefined supersets is not modelled (only 'nothing swallowed')."),

 "C10": dict(
  cat="translation_validation", ref="DESIGN.md §4 C10",
  technique="translation validation by generated programs: boolean expression ASTs are printed into switch conditions, compiled by the real parser and run by the real evaluator on generated environments, and compared with a reference evaluation of the written expression; exhaustive over all small expression shapes x truth assignments, proptest-generated beyond",
  text="Every expression shape of up to N nodes (6 quick / 7 thorough) over three key leaves is compiled by the real parser and evaluated by the real Switch::actions under all 8 truth assignments; random expressions (all seven leaf kinds, up to depth 7 and 200 nodes, 1-12 cases with break/fallthrough, lossy key-timing ranges) under 6 generated environments each; plus held-keys + switch/fork key through the full state machine. Any difference between the fired cases and the reference evaluation is a violation.",
  note="Pinned conventions: `not` = none of its operands, top-level list = or, empty list = default case, key-timing lt = at most / gt = more than at the documented rounded-down resolution, (layer x) = current active layer. F14 (nested list as last operand of not) was found by this check and repaired with a fix: commit."),
 "C11": dict(
  cat="exploration", ref="DESIGN.md §4 C11",
  technique="exhaustive enumeration (all 65536 code values, every valid key code through three pipeline configurations, every accepted key name in eight configuration contexts) with round-trip and identity oracles, plus proptest-generated mapped-key configurations against a set computed by the harness",
  text="Round trips over every u16 value (from_u16 domain inside the declared discriminants of both enums read from the tree, as_u16 / KeyCode transmute round trips, the two enums agree value for value), pipeline identity for every valid code (mapped to itself, transparent, process-unmapped-keys; reserved codes never output), every key name denotes the same code as layer action, macro item, fork trigger, switch key, override input, chords-v2 participant, defseq key and defsrc entry, and Cfg.mapped_keys equals the expected set for generated defsrc / deflayermap / process-unmapped-keys combinations.",
  note="Linux tables only; enum bodies and key names are extracted from the tree under test. Placeholder variants declared in OsCode but not produced by from_u16 (KEY_749..766) are allowed and counted. Right-hand modifiers in defseq (F20) are a known finding shared with C12. The Miri run of the transmute round trip (DESIGN.md) is not part of the registered commands."),

 "C12": dict(
  cat="exploration", ref="DESIGN.md §4 C12, Appendix A.8",
  technique="generated defseq tables with a reference encoder: differential acceptance check (parser accepts iff the harness's own encodings are prefix-free), table look-ups against the compiled trie, and physically typed sequences through the whole state machine with exactly-once / mode-specific output oracles; proptest shrinking",
  text="For every generated table the harness encodes all sequences and O- permutations itself and requires the parser's accept/reject decision and the compiled trie's answers (value for every encoding, in-progress for every proper prefix) to agree; for accepted, physically unambiguous tables one sequence is typed (every O- order, either hand's modifier) in five scenarios: full, proper prefix + foreign key, pause of T-1 / T / T+1 before the last key; the virtual key must fire exactly once or not at all accordingly, sequence mode must end, nothing stays down, hidden modes press no typed key, visible-backspaced sends one backspace per typed character.",
  note="Typing is only judged on tables that are also unambiguous at the level of physical key codes (different encodings can be indistinguishable to the typist, e.g. `(b)` vs `O-(b c)`); sequence-always-on (undocumented) only with the visible mode and the positive scenario. F20 (right-hand modifiers) was repaired with a fix: commit; F35 (O- group followed by more keys with a twin sequence) is a known finding."),

 "C13": dict(
  cat="exploration", ref="DESIGN.md §4 C13",
  technique="exhaustive enumeration of all ordered active-key lists (<= 4 of 12 keys) per override table against a reference function (tables compiled by the real parser, real Overrides::override_keys), plus proptest-generated press/release histories through the whole state machine with a quiescent-point invariant",
  text="For each override table every ordered list of up to 4 distinct keys from 8 modifiers + 4 keys (13 345 lists) is transformed by the real code and compared, as a key set, with the reference (containment of the modifier set, most modifiers wins, replaced keys removed, outputs added, other keys untouched). Through the pipeline, at every quiescent point the OS key set must equal the reference applied to the keys the layout holds, and nothing may stay down after the last release (override-release-on-activation on and off).",
  note="Where the statement is silent the oracle is a validity predicate: a modifier listed after the key may or may not count; ties between overrides with equally many modifiers may go either way. With override-release-on-activation only the end state and the two physical-truth invariants are asserted. Two invariants do not rely on the layout's own key list (which a defect may erase): a key going down at the OS without having been physically down needs its override's whole input combination physically down in the 8 ms before; keys all pressed after the last moment a combination was complete come out exactly as pressed."),

 "C14": dict(
  cat="exploration", ref="DESIGN.md §4 C14",
  technique="proptest-generated configurations (recursive strategy over every key-producing action form, depth <= 3, disjoint output pools per (key, layer) cell so that an output identifies its origin) and press/release histories with injected OS repeat events, through the whole state machine; safety and completeness oracles on the simulated OS output; proptest shrinking",
  text="Two physical keys carry generated actions on two layers (key, output chord, multi, tap-hold x5 (incl. the -timeout forms), lazy/eager tap-dance, one-shot, fork, switch, unmod, unshift, use-defsrc, transparent, nested up to depth 3); a while-held layer key, an unmod/unshift key or a sequence leader, physical lctl/lalt, optional defoverrides, a chords-v2 chord and v1 chord keys. Repeat events are injected for held keys at arbitrary points (also while a tap-hold is pending and in sequence mode). Safety: each repeat yields at most one output event, a press of a key that is down at the OS. Completeness: when nothing is pending and the layers have not changed since the press, a key holding some of its own outputs down gets a repeat for one of them, a non-modifier in preference to a modifier.",
  note="Completeness is only demanded where attribution is unambiguous (the key's own pool keys that went down since its press). Six defects were repaired with fix: commits (F21, F39-F43); F44 (key pressed during a hidden sequence mode) is a known finding."),

 "C15": dict(
  cat="exploration", ref="DESIGN.md §4 C15",
  technique="stateful property-based testing on the real processing thread: proptest-generated histories of file rewrites (valid / broken / rejected / missing / unreadable), reload requests (lrld, -next, -prev, -num; while a key is held; back-to-back) and probes, run through Kanata::start_processing_loop on scratch configuration files with simulated output; a reference model of the active file content, probes answered by a fresh deterministic instance, and the ServerMessage channel as oracles; proptest shrinking",
  text="After every step the model knows which file content must be running: a failed reload changes nothing and notifies nobody; a successful one (not before the held key's output is released) makes kanata answer every probe exactly like a freshly started instance of the new content and sends ConfigFileReload(file) then LayerChange(first layer); nothing stays down; the processing thread does not panic.",
  note="Real time: events are sent 8 ms apart and only time-insensitive behaviour is compared. The one-idle-second fallback is not exercised; after a failed relative request the next requests are absolute. Checked by hand that applying the reload while a key is held is detected."),

 "C16": dict(
  cat="exploration", ref="DESIGN.md §4 C16",
  technique="metamorphic testing: configurations from the whole-grammar tape generator are rewritten on the harness's own s-expression tree with semantically neutral indirection (defalias, defvar incl. chained / concat / list values, deftemplate + template-expand / t! / if-equal, include, platform, deflayermap) at tape-chosen sites; both texts go through the real parser and state machine; proptest shrinking of the tape",
  text="1-6 composed rewrites per case. Acceptance must agree (a quarter of the originals come from the acceptance-boundary profile, so rejected originals occur); when accepted, the Debug rendering of every layer cell, key outputs, mapped keys, overrides, sequence trie, options, virtual keys, switch timing, layer names and chords-v2 table must be identical, and three random histories must give identical timestamped output.",
  note="Rewrite sites follow the documentation: variables only inside actions (not in template-expand arguments, whose text is compared before variables exist; not for the reverse-release-order flag), platform not nested, a new alias inside the same defalias goes right before the pair that uses it, new templates are defined in creation order."),

 "C18": dict(
  cat="exploration", ref="DESIGN.md §4 C18",
  technique="model-based testing: proptest-generated operation histories on 1-3 virtual keys from five trigger sources against a tick-exact reference model (event queue, pressed flag, hold countdown, idle counter), through the processing-loop emulation; proptest shrinking",
  text="Every OS transition of the virtual keys' output keys must match the model to the tick and the layer-1 flag after every tick must match: press/release/tap/toggle semantics from on-press, on-release, macro items, completed sequences and direct handle_fakekey_action calls; hold-for-duration released exactly D ticks after its most recent activation, re-armed by activations at D-1 and pressed anew at D/D+1; on-idle fired exactly once, after T idle loop iterations since the last input / activation.",
  note="The idle trace is kanata's own is_idle() (C07's subject). A macro virtual key is modelled without held state. F45 (re-trigger of hold-for-duration after an explicit release presses nothing) is a known finding."),

 "C19": dict(
  cat="exploration", ref="DESIGN.md §4 C19",
  technique="proptest-generated record / stop / play histories through the real keys; the stored recording is compared with the typed events (reference list), and the replay is compared differentially with a second instance in which the same events are typed at the replay's pace; proptest shrinking",
  text="Stored recording = physical events between start and stop, in order, minus the stop key and the truncated tail, plus releases of exactly the keys still down; recorded delays = time to the next event. Replay output = output of typing the same events again from the same state, for time-insensitive and time-sensitive (tap-hold / tap-dance / one-shot) mappings and both replay delay behaviours. The replay ends, nothing is left down, a recording with its own play key does not loop, recording ends by itself at dynamic-macro-max-presses.",
  note="The recording is read through the Debug rendering of Kanata.dynamic_macros (the item type is not nameable from outside). F46 (self-play handled after the replay state was dropped: endless replay) was repaired with a fix: commit; F47 (stop key recorded when the stop action is delayed by a pending decision) is a known finding."),

 "C20": dict(
  cat="exploration", ref="DESIGN.md §4 C20",
  technique="proptest-generated zippychord dictionaries and chord press orders; the OS output is replayed into a text-buffer model (characters with shift and AltGr state, space, backspace) and compared with the text the dictionary promises; proptest shrinking",
  text="For an entry of a generated dictionary (overlapping chords, chords extending other chords with and without a shared output prefix, follow-up chords, upper/lower case, shifted symbols and AltGr characters declared in output-character-mappings) every chord of its path is pressed in a generated order with small gaps, with or without shift and / or AltGr held, followed by more typing: the text left must be exactly the expansion (+ smart space per configuration, removed by punctuation in full mode) followed by the later typing; sequential single-key typing must pass through unchanged; several episodes (activations, activations held beyond the deadline, lone taps of chord keys) separated by full releases and idle time must each leave exactly their own text; a held shift / AltGr must be down again after each activation; nothing stays down.",
  note="F48 (follow-up chord whose first key is in no first chord could never be activated), F56 (a first chord that begins with smart-space punctuation after an earlier activation) and F51 (rest of an extended expansion typed with the held shift) were repaired with fix: commits; F50 (a follow-up chord that extends another follow-up chord of the same level) is a known finding. no-erase / single-output mappings (dead keys) and caps-word are not generated."),

 "C17": dict(
  cat="exploration", ref="DESIGN.md §4 C17, Appendix A.4/D",
  technique="model-based property testing: exhaustive schedule enumeration over the tap-dance key and one other key with gaps {0,1,T-1,T,T+1} + proptest-generated longer histories, compared with a reference model of lazy and eager tap-dance",
  text="Lazy and eager tap-dance, list lengths 1-4 with key / layer-while-held / tap-hold items, T in {5,30}: every toggle schedule of <= N events (N=5 quick, 6-7 thorough) is compared with full timestamped equality against the reference model: exactly the N-th action once, count ends on timeout / other key / exhaustion, interrupting key processed after the chosen action, no tap lost.",
  note="Trusts the reference model (Appendix A.4) with the documented eviction rule (only counted taps are folded into the chosen action). The tree's earlier behaviour (every queued press evicted, F15) was repaired by a fix: commit; its witness is replayed on every run."),
}

NOT_YET = "check not built yet (work in progress; see DESIGN.md §4)"

m = {
 "version": 1,
 "setup_cmd": "cd /verif/harness && CARGO_NET_OFFLINE=true cargo build --release --offline",
 "hooks": {
  "guard": "--cfg kanata_verif",
  "enable": "no source hooks are needed: the harness links /repo's working tree as path dependencies and builds kanata with its own `simulated_output` feature; nothing in /repo is guarded by the flag",
  "baseline_off_cmd": "cd /repo && cargo test --workspace --no-fail-fast --offline",
  "source_commits": [],
  "add_only": True,
 },
 "engines": [{
  "name": "vcheck", "path": "/verif/harness",
  "serves_properties": sorted(CHECKS),
  "kind_free_text": "Rust property-based testing harness (proptest strategies with seeded per-case runners and ValueTree shrinking, exhaustive small-scope enumeration, isolated worker subprocesses with crash/hang attribution) linking the real kanata, kanata-parser and kanata-keyberon crates",
 }],
 "checks": [],
 "not_applicable": [],
 "notes": "Run `./check <ID> quick|thorough`; `./check <ID> --replay <file>` re-judges one saved case. Exit 0 held / 1 VIOLATION / 2 inconclusive or infrastructure. Known findings: /verif/known_findings.json.",
}
for i in ids:
    if i in CHECKS:
        c = CHECKS[i]
        m["checks"].append({
            "property_id": i,
            "quick_cmd": f"cd /verif && ./check {i} quick",
            "thorough_cmd": f"cd /verif && ./check {i} thorough" + (" && ./fuzz/run_c03.sh 600" if i == "C03" else f" && ./fuzz/run_tape.sh {i} 600" if i in ("C01", "C02") else ""),
            "evidence_file": f"/verif/evidence/{i}.json",
            "replay_cmd_template": f"cd /verif && ./check {i} --replay {{path}}",
            "engine": "vcheck",
            "level_claimed": {"category": c["cat"], "text": c["text"], "design_ref": c["ref"]},
            "level_note": c["note"],
            "technique": c["technique"],
        })
    else:
        m["not_applicable"].append({"property_id": i, "reason": NOT_YET})
json.dump(m, open(f"{V}/MANIFEST.json", "w"), indent=1)
print("checks:", [c["property_id"] for c in m["checks"]])
