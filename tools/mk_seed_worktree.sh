#!/bin/bash
# tools/mk_seed_worktree.sh <ID> <round>   scratch worktree of /repo HEAD with a warm target/ under
# /tmp/seed/<ID>, output directory /tmp/seed/<ID>-out<round> and the prompt for the sub-agent
# (property text from properties.jsonl + /tmp/seed/PROMPT.tmpl + tools/seed_round<round>.txt)
ID="$1"; R="$2"
W=/tmp/seed/$ID; O=/tmp/seed/$ID-out$R
mkdir -p /tmp/seed "$O"
[ -d "$W" ] || { git -C /repo worktree add -q --detach "$W" HEAD && cp -r /repo/target "$W/target"; }
python3 - "$ID" "$W" "$O" "$R" <<'PY'
import json, sys
pid, w, o, r = sys.argv[1:5]
p = [json.loads(l) for l in open('/verif/properties.jsonl') if json.loads(l)['id'] == pid][0]
t = open('/verif/tools/seed_prompt.tmpl').read()
a = p['anchors']
text = f"{pid} — {p['title']}\n\nStatement: {p['statement']}\n\nQuantifier: {p['quantifier']['text'] if isinstance(p['quantifier'], dict) else p['quantifier']}\n\nWhy the existing tests cannot settle it: {p['why_tests_cant']}\n\n"
text += "Code anchors (files): " + ', '.join(a.get('files') or []) + "\n"
text += "Mechanisms: " + '; '.join(f"{m['name']} ({m['where']})" for m in (a.get('mechanism') or [])) + "\n"
t = t.replace('WORKTREE', w).replace('OUTDIR', o).replace('PROPERTY', text)
try:
    t += "\n" + open(f'/verif/tools/seed_round{r}.txt').read()
except FileNotFoundError:
    pass
open(f'{o}/prompt.txt', 'w').write(t)
PY
echo "$O/prompt.txt"
