#!/usr/bin/env python3
"""Rewrites the "fixed" list of /verif/known_findings.json from the table below,
looking the commit up in /repo by its subject line (hashes change when fix
commits are amended)."""
import json, subprocess
FIXED = [
 ("F15", "C17", "fix: lazy tap-dance resolution evicts only the counted presses",
  "lazy tap-dance resolution removed every queued press of the tap-dance key, so a press queued behind the interrupting key (d:a d:b t:1 u:a d:a ...) or arriving in the timeout tick was swallowed"),
 ("F8", "C03", "fix: Debug-printing an empty s-expression list no longer underflows",
  "`{:?}` of the empty list `()` inside an error message panicked (`0..len-1`): `(defalias () a)`, `(arbitrary-code ())`"),
 ("F9", "C03", "fix: on-press-fakekey-delay / on-release-fakekey-delay without an argument",
  "`(on-press-fakekey-delay)` / `(on-press-delay)` without a parameter indexed ac_params[0] and panicked"),
 ("F10", "C03", "fix: reject defvar variables that are defined in terms of themselves",
  "`(defvar v $v)`, `(defvar a $b b $a)`, `(defvar m (a $m c))`: unbounded recursion at the first use (stack overflow abort)"),
 ("F13", "C03", "fix: defzippy output-character-mappings (no-erase) / (single-output) without a parameter",
  "`output-character-mappings (x (no-erase))` / `(x (single-output))` indexed output_list[1] and panicked (the error was built but not returned)"),
 ("F11", "C03", "fix: defchordsv2 (include file) reports problems as configuration errors",
  "defchordsv2 `(include file)`: missing/unreadable file, `(include)`, `(include (a b))`, line without tab, empty or malformed action text all panicked (unwrap/expect/panic!)"),
 ("F24", "C03", "fix: deflocalkeys rejects key code 767",
  "`(deflocalkeys-linux k 767)` + k in defsrc indexed the 767-column layer table out of bounds"),
 ("F12", "C03", "fix: a template whose expansion calls itself is a configuration error",
  "`(deftemplate again (a) ($a again $a))` + `(template-expand again template-expand)` never terminated (stack overflow with extra nesting)"),
 ("F23", "C02", "fix: more than 12 simultaneously held layers no longer panic",
  "13 or more held layer states (a layer-while-held key pressed 13 times without release, or stacked one-shot layers) panicked with `Vec::from_iter overflow` in trans_resolution_layer_order"),
 ("F5", "C02", "fix: tap-hold / chord waiting time no longer overflows u16",
  "`w.delay + w.ticks` overflowed after a key had been waiting 65535 ms (`d:e t:65535 d:a` on tap-hold-except-keys)"),
 ("F3", "C02", "fix: stopping or restarting a dynamic macro recording with nothing recorded",
  "`macro_items.len() - 1` on an empty list: record key pressed twice (`d:d d:d`) or two record/stop actions in one activation"),
 ("F25", "C02", "fix: rpt-any inside a fork or multi no longer recurses",
  "`(fork rpt-any x (keys))` / `(multi rpt-any a)` pressed twice: unbounded recursion, stack overflow abort"),
 ("F26", "C02", "fix: an input event for key code 767 is ignored",
  "a press of key code 767 (OsCode::KEY_MAX) indexed the 767-column layout row out of bounds"),
 ("F1", "C02", "fix: transparent and use-defsrc actions on a chords-v2 virtual coordinate",
  "`use-defsrc` inside a defchordsv2 action indexed src_keys[852]; `_` carried into defchordsv2 through an alias failed the assertion in resolve_coord (F1, F2)"),
 ("F27", "C03", "fix: the error span of an unterminated multi-line string or comment",
  "a config ending in an unterminated `r#\"...` string or `#|` comment whose last character is multi-byte produced a span ending inside that character; rendering the diagnostic panicked in miette"),
 ("F22", "C01", "fix: chords v2 releases an active chord whose keys are released during the chord cool-down",
  "chords v2: releases arriving while chords are ignored (chords-v2-min-idle window after a non-chord resolution) bypassed drain_releases, so an active chord was never released: its key stayed down and kanata never became idle"),
 ("F7", "C01", "fix: a macro evicted from the 4-slot ring of running macros releases the keys it holds",
  "a fifth concurrent macro evicted the oldest from the 4-slot ring and the keys that macro had pressed were never released (RShift / LCtrl stuck down)"),
 ("F16", "C07", "fix: kanata is not idle while the rapid-event-delay input pause is still counting down",
  "the rapid-event-delay input pause was not part of is_idle: the loop blocked with pause ticks outstanding and the next key event was delayed by up to rapid-event-delay ms (`d:a t:600 u:a` on a chord key: release 5 ms late)"),
 ("F33", "C07", "fix: kanata is not idle while the next tick still has key output to send",
  "after a macro-release-cancel the keys the macro had pressed are released only by the following tick, but is_idle was already true: the loop blocked and the key (e.g. LGui) stayed down until the next key event"),
 ("F34", "C07", "fix: an active one-shot is never an idle state",
  "with rapid-event-delay 0 the key following a one-shot sets its remaining time to 0; is_idle treated timeout==0 as idle, the loop blocked and the one-shot modifier stayed down until the next key event"),
 ("F17", "C07", "fix: kanata keeps ticking while a dynamic macro is being recorded",
  "while a dynamic macro was being recorded the loop blocked between key events and the blocked time was not counted into the recorded delays, so the replay was paced differently"),
 ("F14", "C10", "fix: switch boolean evaluation of a nested list as the last operand of a not",
  "`(and (not (and a b)) c)` with only c active evaluated to false: a nested operator list that is false as the last operand of a `not` (which is not at the end of the expression) made the `not` false"),
 ("F20", "C12", "fix: defseq stores right-hand shift / ctrl / meta in the folded form",
  "a defseq sequence written with `rsft` / `rctl` / `rmet` (or `RS-` / `RC-` / `RM-`) was accepted but could never be typed: the table stored the right-hand code, the run time folds to the left-hand code before the lookup (also seen by C11: name in defseq context)"),
 ("F36", "C02", "fix: tap-dance with an empty action list is a configuration error",
  "`(tap-dance 200 ())` / `(tap-dance-eager 200 ())` were accepted; the first press indexed the empty action list and panicked"),
 ("F37", "C03", "fix: defseq with modifier prefixes on an empty list is a configuration error",
  "`(defseq v (S-A-()))` panicked in parse_sequence_keys (`expect(\"had to be pressed to be released\")`); found by the thorough tier (20 M inputs, seed 7)"),
 ("F38", "C08", "fix: starting a second cancel-on-press macro no longer shortens the first one",
  "the cancel-on-press window was overwritten by the most recently started cancel-on-press macro: starting a short one while a long one ran closed the window early, so a later key press no longer cancelled the long macro (`d:b d:d t:10 d:c`)"),
 ("F21", "C14", "fix: an OS key repeat is not forwarded for a modifier that unmod / unshift has taken away",
  "a repeat was forwarded for a key that is up at the OS: with an `unmod` / `unshift` key held (which releases the modifier at the OS while the layout still holds it) the repeat of the key holding that modifier came out as a repeat of the modifier"),
 ("F39", "C14", "fix: an OS key repeat prefers a held non-modifier key over a chord",
  "the de-duplicated output list of a key does not always put a chord's key after its modifiers (`(multi b S-b)` -> [b, lsft]); the repeat came out as a repeat of the modifier although the letter was held down"),
 ("F40", "C14", "fix: an OS key repeat looks for a held non-modifier everywhere",
  "a key put down by a transparent action nested in a switch / fork / tap-hold / tap-dance is not in the layer's output list; a modifier of that list which happened to be held was repeated instead of the key (`(switch (lalt) RS-e break () (multi _ _) break)`, hold it, hold a one-shot RS-k, repeat)"),
 ("F41", "C07", "fix: kanata is not idle until its list of pressed keys matches the layout",
  "is_idle compared the keys pressed at the OS with the layout's as sets; a tick that only reorders the list (a cancelled macro's LAlt that `M-A-q` on another key also holds) was skipped by the blocking loop and the later release of LGui/LAlt came out in the other order"),
 ("F42", "C14", "fix: an OS key repeat applies the overrides to the same keys as the output does",
  "with `(defoverrides (lctl k) (lalt min))`, lctl held and `(unshift k)` held, the OS sees LAlt+Minus; the repeat lookup applied the overrides without the unmod/unshift keys and forwarded a repeat of lctl as LCtrl (and of the unshift key as K), keys that are up"),
 ("F43", "C14", "fix: the repeat outputs of a chord key list only the chords that key takes part in",
  "every chord of a defchords group was recorded as a possible output of every key of the group; with `(x) q (y) w (x y) kp2`, x and y held as separate chords, the repeat of y was forwarded as q (held by x) instead of w"),
 ("F46", "C19", "fix: a dynamic macro stays active until its replayed events are handled",
  "a recording that contains its own play key (pressed while it was being recorded) and ends while a tap-hold / tap-dance decision is pending: the replay state was dropped when the last item was handed to the layout, the queued play key was handled afterwards, not recognised as recursion, and the macro replayed itself for ever"),
]
log = subprocess.check_output(["git", "-C", "/repo", "log", "--format=%h %s"]).decode().splitlines()
out = []
for fid, prop, subj, what in FIXED:
    h = [l.split()[0] for l in log if l.split(" ", 1)[1].startswith(subj)]
    assert len(h) == 1, (fid, h)
    out.append(f"fixed: property={prop} {h[0]} {what} ({fid})")
k = json.load(open("/verif/known_findings.json"))
k["fixed"] = out
json.dump(k, open("/verif/known_findings.json", "w"), indent=1)
print("\n".join(out))
