#!/usr/bin/env python3
"""Rewrites the "fixed" list of /verif/known_findings.json from the table below,
looking the commit up in /repo by its subject line (hashes change when fix
commits are amended)."""
import json, subprocess
FIXED = [
 ("F15", "C17", "fix: lazy tap-dance resolution evicts only the counted presses",
  "lazy tap-dance resolution removed every queued press of the tap-dance key, so a press queued behind the interrupting key (d:a d:b t:1 u:a d:a ...) or arriving in the timeout tick was swallowed"),
 ("F8", "C03", "fix: Debug-printing an empty s-expression list no longer underflows",
  "`{:?}` of the empty list `()` inside an error message panicked (`0..len-1`): `(defalias () a)`, `(arbitrary-code ())`"),
 ("F9", "C03", "fix: on-press-fakekey-delay / on-release-fakekey-delay without an argument",
  "`(on-press-fakekey-delay)` / `(on-press-delay)` without a parameter indexed ac_params[0] and panicked"),
 ("F10", "C03", "fix: reject defvar variables that are defined in terms of themselves",
  "`(defvar v $v)`, `(defvar a $b b $a)`, `(defvar m (a $m c))`: unbounded recursion at the first use (stack overflow abort)"),
 ("F13", "C03", "fix: defzippy output-character-mappings (no-erase) / (single-output) without a parameter",
  "`output-character-mappings (x (no-erase))` / `(x (single-output))` indexed output_list[1] and panicked (the error was built but not returned)"),
 ("F11", "C03", "fix: defchordsv2 (include file) reports problems as configuration errors",
  "defchordsv2 `(include file)`: missing/unreadable file, `(include)`, `(include (a b))`, line without tab, empty or malformed action text all panicked (unwrap/expect/panic!)"),
 ("F24", "C03", "fix: deflocalkeys rejects key code 767",
  "`(deflocalkeys-linux k 767)` + k in defsrc indexed the 767-column layer table out of bounds"),
 ("F12", "C03", "fix: a template whose expansion calls itself is a configuration error",
  "`(deftemplate again (a) ($a again $a))` + `(template-expand again template-expand)` never terminated (stack overflow with extra nesting)"),
]
log = subprocess.check_output(["git", "-C", "/repo", "log", "--format=%h %s"]).decode().splitlines()
out = []
for fid, prop, subj, what in FIXED:
    h = [l.split()[0] for l in log if l.split(" ", 1)[1].startswith(subj)]
    assert len(h) == 1, (fid, h)
    out.append(f"fixed: property={prop} {h[0]} {what} ({fid})")
k = json.load(open("/verif/known_findings.json"))
k["fixed"] = out
json.dump(k, open("/verif/known_findings.json", "w"), indent=1)
print("\n".join(out))
