#!/bin/bash
# tools/try_mutant.sh <ID> <patch.diff> [tier]   apply a seeded change to /repo, run the check, undo it
ID="$1"; P="$2"; T="${3:-quick}"
git -C /repo apply "$P" || { echo "patch does not apply"; exit 2; }
cd /verif && ./check "$ID" "$T" 2>&1 | grep -v "^KNOWN-FINDING" | cut -c1-400 | tail -8
git -C /repo checkout -- .
# the harness binary now contains the mutant: rebuild it against the clean tree
(cd /verif/harness && cargo build --release --offline -q 2>/dev/null)
git -C /repo status --short | head -3
