#!/bin/bash
# tools/try_par.sh <ID> <patch.diff> <name> [tier]
# Runs a check against a seeded change WITHOUT touching /repo: scratch worktree of /repo HEAD with the
# patch applied + a scratch copy of /verif (warm target) under /tmp/try; prints the verdict lines, then
# removes both. Several can run side by side. (The registered checks always run in /verif against /repo.)
ID="$1"; P="$(readlink -f "$2")"; N="$3"; T="${4:-quick}"
R=/tmp/try/$N-repo; V=/tmp/try/$N-verif
mkdir -p /tmp/try
git -C /repo worktree add -q --detach "$R" HEAD || exit 2
git -C "$R" apply "$P" || { echo "$N: patch does not apply"; git -C /repo worktree remove --force "$R"; exit 2; }
rsync -a --exclude work --exclude fuzz/target --exclude .git /verif/ "$V/"
cd "$V" && VP_RUN_REPO="$R" ./check "$ID" "$T" 2>&1 | grep -v "^KNOWN-FINDING" | cut -c1-1500 > /tmp/try/$N.log
echo "== $N ($ID $T): $(grep -c '^VIOLATION' /tmp/try/$N.log) violation lines; $(grep -E 'signature|sig=' /tmp/try/$N.log | sort -u | head -3 | cut -c1-200 | tr '\n' ' ')"
tail -3 /tmp/try/$N.log | cut -c1-300
rm -rf "$V"; git -C /repo worktree remove --force "$R"
