#!/usr/bin/env python3
"""tools/save_mutant.py <ID> <src mutant dir> <round> <detected 0|1> <needs_to_manifest> <note>
Stores a confirmed seeded change as seeded/<ID>-m<next>/ with its meta.json."""
import json, os, shutil, sys, glob, re
pid, src, rnd, det, needs, note = sys.argv[1:7]
ns = [int(re.search(r'-m(\d+)$', d).group(1)) for d in glob.glob(f'/verif/seeded/{pid}-m*')]
n = max(ns + [0]) + 1
d = f'/verif/seeded/{pid}-m{n}'
os.makedirs(d)
for f in ('patch.diff', 'demo.diff', 'notes.md'):
    shutil.copy(f'{src}/{f}', f'{d}/{f}')
SRC = {'2': 'independent sub-agent (second round, asked to avoid the most obvious sites) given only the property text and a scratch worktree',
       '3': 'independent sub-agent (third round: asked for one change needing a non-default option or rare variant, one needing an interaction with another feature, one boundary / capacity / ordering detail, none at a main comparison or dispatch) given only the property text and a scratch worktree',
       '4': 'independent sub-agent (fourth round: asked for one change made of two cooperating edits that each look harmless alone, one needing a multi-step history of four or more operations with state carried across, one in a clean-up / cancellation / expiry / eviction / error path; none at a main comparison or dispatch) given only the property text and a scratch worktree'}[rnd]
meta = {"property": pid, "breaks": pid, "source": SRC, "needs_to_manifest": needs,
        "confirmed": {"how": "tools/confirm_mutant.sh in a scratch worktree: cargo test --workspace --no-fail-fast --offline", "patch_only_suite": "PASS", "patch_plus_demo": "demo FAILS", "demo_only": "PASS"},
        "check_result": {"command": f"git -C /repo apply /verif/seeded/{pid}-m{n}/patch.diff && ./check {pid} quick; git -C /repo checkout -- .", "detected": det == '1', "note": note}}
json.dump(meta, open(f'{d}/meta.json', 'w'), indent=1)
print(d)
