#!/bin/bash
# tools/try3.sh <ID> <round-out-dir>   run the quick tier against mutant1..3 of a sub-agent's output directory
ID="$1"; D="$2"
for m in 1 2 3; do
  git -C /repo apply "$D/mutant$m/patch.diff" || { echo "$ID m$m: patch does not apply"; continue; }
  out=$(cd /verif && ./check "$ID" quick 2>&1 | grep -v "^KNOWN-FINDING")
  git -C /repo checkout -- .
  echo "=== $ID m$m: $(echo "$out" | grep -E "quick:" | cut -c1-120)"
  echo "$out" | grep -E "signature" | sort | uniq -c | cut -c1-220 | head -4
done
(cd /verif/harness && cargo build --release --offline -q 2>/dev/null)
git -C /repo status --short | head -3
