#!/usr/bin/env python3
"""Regenerates the data-driven parts of /verif/DESIGN.md (between GEN markers):
  props    - section 4, one subsection per property, from MANIFEST.json, the evidence files,
             known_findings.json and seeded/*/meta.json
  findings - the table of all findings (fixed / known)
  mutants  - the table of seeded changes and which check caught them
Run after tools/mk_manifest.py and after the quick checks have written evidence."""
import json, re, glob, os, subprocess

V = '/verif'
man = json.load(open(f'{V}/MANIFEST.json'))
known = json.load(open(f'{V}/known_findings.json'))
props = {json.loads(l)['id']: json.loads(l) for l in open(f'{V}/properties.jsonl')}

fixed_src = open(f'{V}/tools/record_fixed.py').read()
FIXED = eval(fixed_src[fixed_src.index('FIXED = ['):fixed_src.index('\nlog = ')].split('=', 1)[1])
log = subprocess.run(['git', '-C', '/repo', 'log', '--format=%h %s'], capture_output=True, text=True).stdout.splitlines()
def commit_of(subject):
    for l in log:
        h, s = l.split(' ', 1)
        if s.startswith(subject):
            return h
    return '?'

mutants = []
for d in sorted(glob.glob(f'{V}/seeded/*/meta.json')):
    m = json.load(open(d))
    name = os.path.basename(os.path.dirname(d))
    mutants.append((name, m))

def fnum(x):
    m = re.match(r'F(\d+)', x)
    return int(m.group(1)) if m else 0

def esc(s):
    return s.replace('|', '\\|').replace('\n', ' ')

# ---------------------------------------------------------------- props
def props_section():
    out = []
    by_id = {p['property_id']: p for p in man['checks']}
    for pid in sorted(props):
        p = props[pid]
        out.append(f"### {pid} — {p['title']}\n")
        if pid not in by_id:
            na = [n for n in man.get('not_applicable', []) if n['id'] == pid]
            out.append(f"Not claimed: {na[0]['reason'] if na else 'no check'}\n")
            continue
        m = by_id[pid]
        ev = None
        try:
            ev = json.load(open(f'{V}/evidence/{pid}.json'))
        except Exception:
            pass
        out.append(f"**Technique.** {m.get('technique', '')}\n")
        if ev:
            cov = ev.get('coverage', {})
            rule = cov.get('rule') or cov.get('nontrivial_rule') or ''
            out.append(f"**Domain, oracle, non-triviality (as built; the text the check writes into its evidence).** {rule}\n")
            ass = ev.get('assumptions') or []
            if ass:
                out.append("**Assumptions.** " + ' · '.join(ass) + "\n")
        lc = m.get('level_claimed', {})
        out.append(f"**What is decided ({lc.get('category', '')}).** {lc.get('text', '')}\n")
        note = m.get('level_note') or ''
        if note:
            out.append(f"**Notes.** {note}\n")
        q = m.get('quick', {}).get('cmd') or m.get('quick_cmd') or ''
        t = m.get('thorough', {}).get('cmd') or m.get('thorough_cmd') or ''
        if ev:
            cov = ev.get('coverage', {})
            out.append(f"**Budget.** `./check {pid} quick` = {cov.get('evaluations', '?')} cases in the committed evidence ({ev.get('wall_s', '?')} s on 16 cores, {cov.get('distinct_nontrivial', '?')} distinct non-trivial); the thorough tier runs 10-40x as many (see `plan()` in `harness/src/props/{pid.lower()}.rs`).\n")
        fx = [f for f in FIXED if f[1] == pid]
        kn = [f for f in known['findings'] if f['property'] == pid or pid in f.get('also_in', [])]
        if fx or kn:
            parts = []
            if fx:
                parts.append('repaired: ' + ', '.join(sorted((f[0] for f in fx), key=fnum)))
            if kn:
                parts.append('known: ' + ', '.join(sorted((f['id'] for f in kn), key=fnum)))
            out.append("**Findings of this check (section 5).** " + '; '.join(parts) + ".\n")
        ms = [(n, mm) for n, mm in mutants if mm['property'] == pid]
        if ms:
            det = sum(1 for _, mm in ms if mm['check_result']['detected'])
            out.append(f"**Seeded changes (section 7).** {det} of {len(ms)} detected by the quick tier: " + ', '.join(n for n, _ in ms) + ".\n")
    return '\n'.join(out)

# ---------------------------------------------------------------- findings
def findings_table():
    rows = []
    for fid, pid, subj, what in FIXED:
        rows.append((fnum(fid), fid, pid, f"fixed `{commit_of(subj)}`", what))
    for f in known['findings']:
        also = f.get('also_in') or []
        rows.append((fnum(f['id']), f['id'], f['property'] + (' (+' + ','.join(also) + ')' if also else ''), f"known — signature `{f['sig']}`", f['what']))
    rows.sort(key=lambda r: (r[0], r[1]))
    out = ["| id | found by | status | what fails |", "|---|---|---|---|"]
    for _, fid, pid, st, what in rows:
        out.append(f"| {fid} | {pid} | {esc(st)} | {esc(what)} |")
    return '\n'.join(out)

# ---------------------------------------------------------------- mutants
def mutants_table():
    out = ["| seeded change | property | needs to manifest | result |", "|---|---|---|---|"]
    for n, m in mutants:
        r = m['check_result']
        out.append(f"| `seeded/{n}` | {m['property']} | {esc(m['needs_to_manifest'])} | {'detected' if r['detected'] else 'MISSED'}: {esc(r['note'])} |")
    out.append("")
    out.append(f"{len(mutants)} seeded changes, {sum(1 for _, m in mutants if m['check_result']['detected'])} detected.")
    return '\n'.join(out)

s = open(f'{V}/DESIGN.md').read()
for key, fn in (('props', props_section), ('findings', findings_table), ('mutants', mutants_table)):
    a = f'<!-- GEN:{key}:begin -->'
    b = f'<!-- GEN:{key}:end -->'
    if a in s and b in s:
        i = s.index(a) + len(a)
        j = s.index(b)
        s = s[:i] + '\n' + fn() + '\n' + s[j:]
open(f'{V}/DESIGN.md', 'w').write(s)
print('DESIGN.md regenerated:', len(s.splitlines()), 'lines')
