#!/bin/bash
# tools/recheck_mutants.sh <k> <n>   inside `vp run --with-repo`: re-run the quick tier against
# every stored seeded change whose index is k modulo n, on the run's own snapshot of the
# repository; prints one line per change: <name> detected|MISSED (expected ...) <signatures>
K="$1"; N="$2"
R="${VP_RUN_REPO:?run inside vp run --with-repo}"
cd "$(dirname "$0")/.." || exit 2
i=0
for d in $(ls -d seeded/*/ | sort); do
  name=$(basename "$d")
  if [ $((i % N)) -eq "$K" ]; then
    id=$(python3 -c "import json;m=json.load(open('$d/meta.json'));print(m['check_result'].get('detected_by', m['property']))")
    want=$(python3 -c "import json;print(json.load(open('$d/meta.json'))['check_result']['detected'])")
    if git -C "$R" apply "$PWD/$d/patch.diff" 2>/dev/null; then
      out=$(./check "$id" quick 2>&1 | grep -v "^KNOWN-FINDING")
      git -C "$R" checkout -- .
      if echo "$out" | grep -q "^VIOLATION"; then res=detected; else res=MISSED; fi
      echo "$name $res (recorded detected=$want by $id) $(echo "$out" | grep -E "signature" | sort -u | head -3 | tr '\n' ' ' | cut -c1-200) $(echo "$out" | grep -E "exit 2|inconclusive|empty class" | head -2 | tr '\n' ' ')"
    else
      echo "$name patch-does-not-apply"
    fi
  fi
  i=$((i+1))
done
